package main

// vdrive dict -- C20: the on-disk string dictionary behaves like a sorted map.
//
// Drives the real pkg/trie (builder, trie, iterators, marshal/unmarshal), index/model (trie
// bucket, bucket builder, bucket merge) and index/v1 (flusher, reader, merger over a real kv
// store) with seeded key sets and probes and logs every answer.  Nothing is compared here:
// TLC judges every logged answer against spec/SortedDict.tla (module SortedDictTrace).

import (
	"bytes"
	"flag"
	"fmt"
	"math"
	"math/rand"
	"os"
	"path/filepath"
	"regexp"
	"sort"
	"strings"

	"github.com/lindb/roaring"

	"github.com/lindb/lindb/index/model"
	v1 "github.com/lindb/lindb/index/v1"
	"github.com/lindb/lindb/kv"
	"github.com/lindb/lindb/pkg/trie"

	"verif/harness/internal/trace"
)

func init() { register("dict", dictMain) }

// ---------------------------------------------------------------- encoding helpers
func bInts(b []byte) []int {
	out := make([]int, len(b))
	for i, c := range b {
		out[i] = int(c)
	}
	return out
}

func bbInts(bs [][]byte) [][]int {
	out := make([][]int, len(bs))
	for i, b := range bs {
		out[i] = bInts(b)
	}
	return out
}

func uInts(v []uint32) []int64 {
	out := make([]int64, len(v))
	for i, x := range v {
		out[i] = int64(x)
	}
	return out
}

func cloneB(b []byte) []byte { return append([]byte{}, b...) }

// ---------------------------------------------------------------- key sets
type dictSet struct {
	keys [][]byte // sorted, distinct
	vals []uint32 // distinct, < 2^31
}

func (s *dictSet) shuffled(rng *rand.Rand) ([][]byte, []uint32) {
	p := rng.Perm(len(s.keys))
	k := make([][]byte, len(p))
	v := make([]uint32, len(p))
	for i, j := range p {
		k[i], v[i] = cloneB(s.keys[j]), s.vals[j]
	}
	return k, v
}

// alphabets: symbols may be multi-byte (UTF-8) so that keys share byte-level prefixes inside a rune
var dictAlphabets = [][][]byte{
	{{0x00}, {'a'}, {0xFF}},
	{{'a'}, {'b'}},
	{{'a'}, {'b'}, {'c'}, {'d'}},
	{{0x00}, {0x01}, {'a'}, {'b'}, {0xFE}, {0xFF}},
	{[]byte("a"), []byte("é"), []byte("中"), []byte("ü"), []byte("-")},
	{{'h'}, {'o'}, {'s'}, {'t'}, {'-'}, {'1'}, {'2'}, {'.'}},
}

type valGen struct {
	rng  *rand.Rand
	used map[uint32]bool
}

func newValGen(rng *rand.Rand) *valGen { return &valGen{rng: rng, used: map[uint32]bool{}} }
func (g *valGen) next() uint32 {
	for {
		var v uint32
		switch g.rng.Intn(4) {
		case 0:
			v = uint32(g.rng.Intn(200))
		case 1:
			v = uint32(65536*g.rng.Intn(4) + g.rng.Intn(3))
		default:
			v = uint32(g.rng.Int31())
		}
		if !g.used[v] {
			g.used[v] = true
			return v
		}
	}
}

func randStr(rng *rand.Rand, alpha [][]byte, maxSyms int) []byte {
	n := rng.Intn(maxSyms + 1)
	var out []byte
	for i := 0; i < n; i++ {
		out = append(out, alpha[rng.Intn(len(alpha))]...)
	}
	return out
}

// genSet draws n distinct keys with shared prefixes, shared suffixes and keys that are prefixes of others.
func genSet(rng *rand.Rand, alpha [][]byte, n, maxSyms int, vg *valGen, avoid map[string]bool) *dictSet {
	seen := map[string]bool{}
	var keys [][]byte
	tails := [][]byte{randStr(rng, alpha, 4), randStr(rng, alpha, 6), []byte("-suffix")}
	add := func(k []byte) {
		if len(k) > 40 || seen[string(k)] || (avoid != nil && avoid[string(k)]) {
			return
		}
		seen[string(k)] = true
		keys = append(keys, cloneB(k))
	}
	tries := 0
	for len(keys) < n && tries < n*50+100 {
		tries++
		c := rng.Intn(10)
		switch {
		case len(keys) > 0 && c < 3: // extension of a present key
			b := keys[rng.Intn(len(keys))]
			add(append(cloneB(b), randStr(rng, alpha, 2)...))
		case len(keys) > 0 && c < 5: // sibling: same head, other last part
			b := keys[rng.Intn(len(keys))]
			cut := 0
			if len(b) > 0 {
				cut = rng.Intn(len(b) + 1)
			}
			add(append(cloneB(b[:cut]), randStr(rng, alpha, 2)...))
		case c < 6: // shared tail
			add(append(randStr(rng, alpha, 2), tails[rng.Intn(len(tails))]...))
		case c < 7 && n > 1: // the empty key
			add([]byte{})
		default:
			add(randStr(rng, alpha, maxSyms))
		}
	}
	if len(keys) == 1 && len(keys[0]) == 0 { // {""} alone is the edge case of its own mode
		keys[0] = cloneB(alpha[0])
	}
	sort.Slice(keys, func(i, j int) bool { return bytes.Compare(keys[i], keys[j]) < 0 })
	s := &dictSet{keys: keys}
	for range keys {
		s.vals = append(s.vals, vg.next())
	}
	return s
}

// probes: present keys, proper prefixes, extensions, neighbours, random strings, the empty key
func genProbes(rng *rand.Rand, alpha [][]byte, s *dictSet, nPresent, nAbsent int) [][]byte {
	var out [][]byte
	if nPresent >= len(s.keys) {
		for _, k := range s.keys {
			out = append(out, k)
		}
	} else {
		for i := 0; i < nPresent; i++ {
			out = append(out, s.keys[rng.Intn(len(s.keys))])
		}
	}
	for i := 0; i < nAbsent; i++ {
		var k []byte
		if len(s.keys) > 0 {
			k = s.keys[rng.Intn(len(s.keys))]
		}
		switch rng.Intn(7) {
		case 0:
			if len(k) > 0 {
				out = append(out, cloneB(k[:rng.Intn(len(k))]))
			}
		case 1:
			out = append(out, append(cloneB(k), alpha[rng.Intn(len(alpha))]...))
		case 2:
			if len(k) > 0 {
				c := cloneB(k)
				c[len(c)-1]++
				out = append(out, c)
			}
		case 3:
			if len(k) > 0 {
				c := cloneB(k)
				c[rng.Intn(len(c))]--
				out = append(out, c)
			}
		case 4:
			out = append(out, []byte{})
		case 5:
			out = append(out, append(cloneB(k), 0x00))
		default:
			out = append(out, randStr(rng, alpha, 6))
		}
	}
	return out
}

// ---------------------------------------------------------------- run context
type dictRun struct {
	rec    *trace.Recorder
	sum    *trace.Summary
	rng    *rand.Rand
	nextD  int
	panics int
	counts map[string]int
}

func (r *dictRun) newID() int { r.nextD++; return r.nextD }
func (r *dictRun) emit(ev string, f trace.F) {
	r.counts[ev]++
	r.rec.Emit(ev, f)
}
func (r *dictRun) reset(f trace.F) {
	r.nextD = 0
	r.rec.Reset(f)
}

// guarded runs real code; a panic becomes an event the specification has no action for
func (r *dictRun) guarded(op string, extra trace.F, fn func()) (ok bool) {
	defer func() {
		if e := recover(); e != nil {
			r.panics++
			f := trace.F{"op": op, "msg": fmt.Sprint(e)}
			for k, v := range extra {
				f[k] = v
			}
			r.emit("Panic", f)
			ok = false
		}
	}()
	fn()
	return true
}

// Recorded finding C20-K5: a trie whose ONLY key is "\xff" answers Get("") with that key's id (the 0xFF label is
// taken for the terminator).  The case has its own sub-trace in the findings file; here the empty probe is left out
// where a single-key trie {"\xff"} can exist: the set is exactly {"\xff"}, or a bucket (blocks may isolate the key).
func dropEmptyProbe(s *dictSet, bucket bool, probes [][]byte) [][]byte {
	has := false
	for _, k := range s.keys {
		if len(k) == 1 && k[0] == 0xFF {
			has = true
		}
	}
	if !has || (!bucket && len(s.keys) != 1) {
		return probes
	}
	out := make([][]byte, 0, len(probes))
	for _, p := range probes {
		if len(p) > 0 {
			out = append(out, p)
		}
	}
	return out
}

// ---------------------------------------------------------------- trie level
func (r *dictRun) buildTrie(s *dictSet) (trie.Builder, trie.SuccinctTrie, int) {
	var t trie.SuccinctTrie
	b := trie.NewBuilder()
	keys := make([][]byte, len(s.keys))
	for i := range keys {
		keys[i] = cloneB(s.keys[i])
	}
	vals := append([]uint32{}, s.vals...)
	if !r.guarded("Build", trace.F{"keys": bbInts(s.keys), "vals": uInts(s.vals)}, func() {
		b.Build(keys, vals)
		t = b.Trie()
	}) {
		return nil, nil, 0
	}
	d := r.newID()
	r.emit("Build", trace.F{"d": d, "via": "trie", "keys": bbInts(s.keys), "vals": uInts(s.vals)})
	return b, t, d
}

func (r *dictRun) loadTrie(b trie.Builder, from int) (trie.SuccinctTrie, int) {
	var t trie.SuccinctTrie
	var buf bytes.Buffer
	var err error
	if !r.guarded("Write/Unmarshal", trace.F{"d": from}, func() {
		if err = b.Write(&buf); err != nil {
			return
		}
		if buf.Len() != b.MarshalSize() {
			err = fmt.Errorf("MarshalSize %d but %d bytes written", b.MarshalSize(), buf.Len())
			return
		}
		t = trie.NewTrie()
		err = t.UnmarshalBinary(cloneB(buf.Bytes()))
	}) {
		return nil, 0
	}
	if err != nil {
		r.emit("Error", trace.F{"op": "Write/Unmarshal", "d": from, "err": err.Error()})
		return nil, 0
	}
	d := r.newID()
	r.emit("Load", trace.F{"d": d, "from": from, "via": "trie"})
	return t, d
}

func (r *dictRun) trieGet(t trie.SuccinctTrie, d int, probes [][]byte) {
	found := make([]int, len(probes))
	vals := make([]int64, len(probes))
	if r.guarded("Get", trace.F{"d": d}, func() {
		for i, p := range probes {
			v, ok := t.Get(p)
			if ok {
				found[i], vals[i] = 1, int64(v)
			}
		}
	}) {
		r.emit("Get", trace.F{"d": d, "probes": bbInts(probes), "found": found, "vals": vals})
	}
}

func (r *dictRun) triePrefix(t trie.SuccinctTrie, d int, ps [][]byte) {
	keys := make([][][]int, len(ps))
	vals := make([][]int64, len(ps))
	if r.guarded("Prefix", trace.F{"d": d, "ps": bbInts(ps)}, func() {
		for i, p := range ps {
			keys[i], vals[i] = [][]int{}, []int64{}
			it := t.NewPrefixIterator(p)
			for n := 0; it.Valid() && n < 1000000; n++ {
				keys[i] = append(keys[i], bInts(it.Key()))
				vals[i] = append(vals[i], int64(it.Value()))
				it.Next()
			}
		}
	}) {
		r.emit("Prefix", trace.F{"d": d, "ps": bbInts(ps), "keys": keys, "vals": vals})
	}
}

func (r *dictRun) trieIter(t trie.SuccinctTrie, d int, back bool) {
	keys, vals := [][]int{}, []int64{}
	ev := "Iter"
	if back {
		ev = "IterBack"
	}
	if r.guarded(ev, trace.F{"d": d}, func() {
		it := t.NewIterator()
		if back {
			it.SeekToLast()
		} else {
			it.SeekToFirst()
		}
		for n := 0; it.Valid() && n < 1000000; n++ {
			keys = append(keys, bInts(it.Key()))
			vals = append(vals, int64(it.Value()))
			if back {
				it.Prev()
			} else {
				it.Next()
			}
		}
	}) {
		r.emit(ev, trace.F{"d": d, "keys": keys, "vals": vals})
	}
}

func (r *dictRun) trieSeek(t trie.SuccinctTrie, d int, ps [][]byte) {
	valid := make([]int, len(ps))
	keys := make([][]int, len(ps))
	if r.guarded("Seek", trace.F{"d": d, "ps": bbInts(ps)}, func() {
		for i, p := range ps {
			keys[i] = []int{}
			it := t.NewIterator()
			it.Seek(p)
			if it.Valid() {
				valid[i] = 1
				keys[i] = bInts(it.Key())
			}
		}
	}) {
		r.emit("Seek", trace.F{"d": d, "ps": bbInts(ps), "valid": valid, "keys": keys})
	}
}

func (r *dictRun) trieAll(t trie.SuccinctTrie, d int, s *dictSet, probes, prefixes, seeks [][]byte, back bool) {
	r.emit("Size", trace.F{"d": d, "size": t.Size()})
	r.trieGet(t, d, dropEmptyProbe(s, false, probes))
	r.triePrefix(t, d, prefixes)
	r.trieIter(t, d, false)
	if back {
		r.trieIter(t, d, true)
	}
	if len(seeks) > 0 {
		r.trieSeek(t, d, seeks)
	}
}

// ---------------------------------------------------------------- bucket level
func (r *dictRun) bucketBytes(s *dictSet, blockSize int) []byte {
	var buf bytes.Buffer
	k, v := s.shuffled(r.rng) // the real flush hands over keys in map order; the builder sorts
	var err error
	if !r.guarded("BucketBuild", trace.F{"keys": bbInts(s.keys), "vals": uInts(s.vals)}, func() {
		err = model.NewTrieBucketBuilder(blockSize, &buf).Write(k, v)
	}) {
		return nil
	}
	if err != nil {
		r.emit("Error", trace.F{"op": "BucketBuild", "err": err.Error()})
		return nil
	}
	return buf.Bytes()
}

func (r *dictRun) bucketGet(b *model.TrieBucket, d int, probes [][]byte) {
	found := make([]int, len(probes))
	vals := make([]int64, len(probes))
	if r.guarded("GetValue", trace.F{"d": d}, func() {
		for i, p := range probes {
			v, ok := b.GetValue(p)
			if ok {
				found[i], vals[i] = 1, int64(v)
			}
		}
	}) {
		r.emit("Get", trace.F{"d": d, "probes": bbInts(probes), "found": found, "vals": vals})
	}
}

var likeKinds = []string{"prefix", "suffix", "contains"}

func (r *dictRun) bucketLike(b *model.TrieBucket, d int, kind string, lit []byte) {
	var ids []uint32
	if r.guarded("Like", trace.F{"d": d, "kind": kind, "lit": bInts(lit)}, func() {
		switch kind { // exactly as index/kv_store.go FindValuesByLike maps  lit* / *lit / *lit*
		case "prefix":
			ids = b.FindValuesByLike(lit, lit, bytes.HasPrefix, nil)
		case "suffix":
			ids = b.FindValuesByLike(nil, lit, bytes.HasSuffix, nil)
		default:
			ids = b.FindValuesByLike(nil, lit, bytes.Contains, nil)
		}
	}) {
		r.emit("Like", trace.F{"d": d, "kind": kind, "lit": bInts(lit), "ids": uInts(ids)})
	}
}

// renderRegex renders a structured pattern; anchored renderings start with ^ (literal prefix of the compiled
// regexp is then empty), bare renderings are what a user would type for "contains" / "ends with"
func renderRegex(kind string, lits [][]byte, anchored bool) string {
	q := make([]string, len(lits))
	for i, l := range lits {
		q[i] = regexp.QuoteMeta(string(l))
	}
	alt := "(" + strings.Join(q, "|") + ")"
	switch kind {
	case "prefix":
		return "(?s)^" + alt
	case "prefixany":
		return "(?s)^" + alt + ".*"
	case "exact":
		return "(?s)^" + alt + "$"
	case "suffix":
		if anchored {
			return "(?s)^.*" + alt + "$"
		}
		return q[0] + "$"
	case "contains":
		if anchored {
			return "(?s)^.*" + alt
		}
		return alt
	default: // bare
		return q[0]
	}
}

func (r *dictRun) bucketRegex(b *model.TrieBucket, d int, kind string, lits [][]byte, anchored bool) {
	re := renderRegex(kind, lits, anchored)
	rp, err := regexp.Compile(re)
	if err != nil {
		r.sum.Unresolved = append(r.sum.Unresolved, "regexp "+re+": "+err.Error())
		return
	}
	var ids []uint32
	if r.guarded("Regex", trace.F{"d": d, "re": re}, func() { ids = b.FindValuesByRegexp(rp, nil) }) {
		lp, _ := rp.LiteralPrefix()
		r.emit("Regex", trace.F{"d": d, "kind": kind, "lits": bbInts(lits), "anch": anchored, "re": re,
			"litprefix": lp, "ids": uInts(ids)})
	}
}

func (r *dictRun) bucketValues(b *model.TrieBucket, d int) {
	var ids []uint32
	if r.guarded("GetValues", trace.F{"d": d}, func() { ids = b.GetValues() }) {
		r.emit("Values", trace.F{"d": d, "vals": uInts(ids)})
	}
}

func (r *dictRun) bucketCollect(b *model.TrieBucket, d int, want []uint32) {
	res := map[uint32]string{}
	bm := roaring.BitmapOf(want...)
	if r.guarded("CollectKVs", trace.F{"d": d}, func() { b.CollectKVs(bm, res) }) {
		ids := make([]uint32, 0, len(res))
		for id := range res {
			ids = append(ids, id)
		}
		sort.Slice(ids, func(i, j int) bool { return ids[i] < ids[j] })
		keys := make([][]int, len(ids))
		for i, id := range ids {
			keys[i] = bInts([]byte(res[id]))
		}
		sort.Slice(want, func(i, j int) bool { return want[i] < want[j] })
		r.emit("Collect", trace.F{"d": d, "want": uInts(want), "ids": uInts(ids), "keys": keys})
	}
}

func (r *dictRun) bucketSuggest(b *model.TrieBucket, d int, p []byte, limit int) {
	var rs []string
	if r.guarded("Suggest", trace.F{"d": d}, func() { rs = b.Suggest(string(p), limit) }) {
		keys := make([][]int, len(rs))
		for i, s := range rs {
			keys[i] = bInts([]byte(s))
		}
		r.emit("Suggest", trace.F{"d": d, "p": bInts(p), "limit": limit, "keys": keys})
	}
}

// literals for like / regex probes: pieces of present keys (valid UTF-8 only for regex) and random strings
func pickLit(rng *rand.Rand, alpha [][]byte, s *dictSet, utf8Only bool) []byte {
	for try := 0; try < 20; try++ {
		var lit []byte
		if len(s.keys) > 0 && rng.Intn(4) > 0 {
			k := s.keys[rng.Intn(len(s.keys))]
			if len(k) > 0 {
				a := rng.Intn(len(k))
				b := a + 1 + rng.Intn(len(k)-a)
				switch rng.Intn(3) {
				case 0:
					lit = k[:b]
				case 1:
					lit = k[a:]
				default:
					lit = k[a:b]
				}
			}
		}
		if len(lit) == 0 {
			lit = randStr(rng, alpha, 2)
		}
		if len(lit) == 0 {
			continue
		}
		if utf8Only && (!validUTF8(lit) || bytes.IndexByte(lit, 0) >= 0) {
			continue
		}
		return cloneB(lit)
	}
	return []byte("a")
}

func validUTF8(b []byte) bool { return strings.ToValidUTF8(string(b), "") == string(b) }

func (r *dictRun) bucketAll(b *model.TrieBucket, d int, alpha [][]byte, s *dictSet, nProbe int) {
	r.bucketGet(b, d, dropEmptyProbe(s, true, genProbes(r.rng, alpha, s, nProbe, nProbe)))
	r.bucketValues(b, d)
	var want []uint32
	seen := map[uint32]bool{}
	for i := 0; i < 6 && len(s.vals) > 0; i++ {
		v := s.vals[r.rng.Intn(len(s.vals))]
		if !seen[v] {
			seen[v] = true
			want = append(want, v)
		}
	}
	for i := 0; i < 2; i++ { // ids nobody holds
		v := uint32(1<<30 + r.rng.Intn(1000))
		if !seen[v] {
			seen[v] = true
			want = append(want, v)
		}
	}
	r.bucketCollect(b, d, want)
	for i := 0; i < 4; i++ {
		r.bucketLike(b, d, likeKinds[r.rng.Intn(3)], pickLit(r.rng, alpha, s, false))
	}
	for _, kind := range []string{"prefix", "exact", "prefixany", "suffix", "contains"} {
		n := 1 + r.rng.Intn(2)
		var lits [][]byte
		for i := 0; i < n; i++ {
			lits = append(lits, pickLit(r.rng, alpha, s, true))
		}
		r.bucketRegex(b, d, kind, lits, true)
	}
}

// a block that holds nothing but the empty key cannot be built (recorded finding, exercised in mode "edge");
// everywhere else the block size is kept >= 2 when the set contains the empty key
func safeBlock(s *dictSet, bs int) int {
	if bs < 2 && len(s.keys) > 0 && len(s.keys[0]) == 0 {
		return 2
	}
	return bs
}

func unionSet(parts []*dictSet) *dictSet {
	u := &dictSet{}
	for _, p := range parts {
		u.keys = append(u.keys, p.keys...)
		u.vals = append(u.vals, p.vals...)
	}
	sort.Sort(&model.KVs{Keys: u.keys, IDs: u.vals})
	return u
}

// ---------------------------------------------------------------- modes
// small: EVERY key set of <= maxKeys keys of <= maxLen symbols over a three symbol alphabet, every probe
func (r *dictRun) modeSmall(maxLen, maxKeys int, triples [][]byte) {
	for ti, tr := range triples {
		var univ [][]byte // all strings of <= maxLen+1 symbols
		var gen func(cur []byte, n int)
		gen = func(cur []byte, n int) {
			univ = append(univ, cloneB(cur))
			if n == maxLen+1 {
				return
			}
			for _, a := range tr {
				gen(append(cloneB(cur), a), n+1)
			}
		}
		gen(nil, 0)
		sort.Slice(univ, func(i, j int) bool { return bytes.Compare(univ[i], univ[j]) < 0 })
		var cands, prefixes [][]byte
		for _, u := range univ {
			if len(u) <= maxLen {
				cands = append(cands, u)
			}
			if len(u) <= 2 {
				prefixes = append(prefixes, u)
			}
		}
		vg := newValGen(r.rng)
		nset := 0
		var rec func(start int, cur [][]byte)
		rec = func(start int, cur [][]byte) {
			if len(cur) > 0 && !(len(cur) == 1 && len(cur[0]) == 0) {
				if nset%25 == 0 {
					r.reset(trace.F{"mode": "small", "triple": bInts(tr), "maxLen": maxLen, "maxKeys": maxKeys})
				}
				nset++
				s := &dictSet{keys: append([][]byte{}, cur...)}
				for range cur {
					s.vals = append(s.vals, vg.next())
				}
				// probes: the whole universe up to maxLen plus one-symbol extensions of the keys
				probes := append([][]byte{}, cands...)
				for _, k := range cur {
					if len(k) == maxLen {
						for _, a := range tr {
							probes = append(probes, append(cloneB(k), a))
						}
					}
				}
				ps := append(append([][]byte{}, prefixes...), cur...)
				if b, t, d := r.buildTrie(s); t != nil {
					r.trieAll(t, d, s, probes, ps, probes, true)
					if t2, d2 := r.loadTrie(b, d); t2 != nil {
						r.trieAll(t2, d2, s, probes, ps, probes, true)
					}
				}
				r.nextD = 0 // ids are reused inside the sub-trace
			}
			if len(cur) == maxKeys {
				return
			}
			for i := start; i < len(cands); i++ {
				rec(i+1, append(cur, cands[i]))
			}
		}
		rec(0, nil)
		r.sum.Extra[fmt.Sprintf("small_sets_triple%d", ti)] = nset
	}
}

// rand: random sets through the trie, through buckets with small block sizes, and through bucket merges
func (r *dictRun) modeRand(rounds, maxN int) {
	for i := 0; i < rounds; i++ {
		alpha := dictAlphabets[r.rng.Intn(len(dictAlphabets))]
		n := 1 + r.rng.Intn(maxN)
		if r.rng.Intn(4) == 0 {
			n = 1 + r.rng.Intn(5)
		}
		vg := newValGen(r.rng)
		s := genSet(r.rng, alpha, n, 2+r.rng.Intn(6), vg, nil)
		r.reset(trace.F{"mode": "rand", "round": i, "n": len(s.keys)})
		// (a) trie, built and loaded
		probes := genProbes(r.rng, alpha, s, len(s.keys), 30)
		ps := genProbes(r.rng, alpha, s, 6, 10)
		ps = append(ps, []byte{})
		seeks := genProbes(r.rng, alpha, s, 4, 12)
		if b, t, d := r.buildTrie(s); t != nil {
			r.trieAll(t, d, s, probes, ps, seeks, true)
			if t2, d2 := r.loadTrie(b, d); t2 != nil {
				r.trieAll(t2, d2, s, probes, ps, seeks, true)
			}
			// builder reuse as in TrieBucketBuilder: Reset, then another set
			s2 := genSet(r.rng, alpha, 1+r.rng.Intn(maxN), 2+r.rng.Intn(6), vg, nil)
			b.Reset()
			var t3 trie.SuccinctTrie
			k2 := make([][]byte, len(s2.keys))
			for j := range k2 {
				k2[j] = cloneB(s2.keys[j])
			}
			if r.guarded("Build", trace.F{"keys": bbInts(s2.keys), "vals": uInts(s2.vals)}, func() {
				b.Build(k2, append([]uint32{}, s2.vals...))
				t3 = b.Trie()
			}) {
				d3 := r.newID()
				r.emit("Build", trace.F{"d": d3, "via": "trie-reused-builder", "keys": bbInts(s2.keys), "vals": uInts(s2.vals)})
				r.trieAll(t3, d3, s2, genProbes(r.rng, alpha, s2, len(s2.keys), 20), genProbes(r.rng, alpha, s2, 4, 6), nil, false)
				if t4, d4 := r.loadTrie(b, d3); t4 != nil {
					r.trieAll(t4, d4, s2, genProbes(r.rng, alpha, s2, len(s2.keys), 20), genProbes(r.rng, alpha, s2, 4, 6), nil, false)
				}
			}
		}
		// (b) buckets: 1..3 parts with pairwise disjoint keys, small block sizes => several tries per bucket
		nparts := 1 + r.rng.Intn(3)
		avoid := map[string]bool{}
		var parts []*dictSet
		var partIDs []int
		bs := []int{2, 3, 5, 16, math.MaxUint16}[r.rng.Intn(5)]
		merged := model.NewTrieBucketWithBlockSize(bs)
		okAll := true
		for p := 0; p < nparts; p++ {
			ps := genSet(r.rng, alpha, 1+r.rng.Intn(maxN), 2+r.rng.Intn(6), vg, avoid)
			if len(ps.keys) == 0 {
				continue
			}
			for _, k := range ps.keys {
				avoid[string(k)] = true
			}
			pbs := safeBlock(ps, []int{1, 2, 3, 7, 32, math.MaxInt16}[r.rng.Intn(6)])
			raw := r.bucketBytes(ps, pbs)
			if raw == nil {
				okAll = false
				break
			}
			one := model.NewTrieBucketWithBlockSize(pbs)
			var err error
			if !r.guarded("Unmarshal", nil, func() {
				if err = one.Unmarshal(raw); err == nil {
					err = merged.Unmarshal(raw)
				}
			}) || err != nil {
				if err != nil {
					r.emit("Error", trace.F{"op": "Unmarshal", "err": err.Error()})
				}
				okAll = false
				break
			}
			d := r.newID()
			r.emit("Build", trace.F{"d": d, "via": fmt.Sprintf("bucket-builder(block=%d)", pbs), "keys": bbInts(ps.keys), "vals": uInts(ps.vals)})
			r.bucketAll(one, d, alpha, ps, 12)
			// Suggest = heap merge over the iterators of the bucket's tries: one key per trie (pbs == 1: every iterator is
			// popped once) and several keys per trie (an iterator goes back into the heap after each key)
			r.bucketSuggest(one, d, []byte{}, 1+r.rng.Intn(len(ps.keys)+2))
			r.bucketSuggest(one, d, pickLit(r.rng, alpha, ps, false), 1+r.rng.Intn(5))
			one.Release()
			parts = append(parts, ps)
			partIDs = append(partIDs, d)
		}
		if okAll && len(parts) > 0 {
			u := unionSet(parts)
			dm := r.newID()
			r.emit("Merge", trace.F{"d": dm, "from": partIDs, "via": "bucket-unmarshal-many"})
			r.bucketAll(merged, dm, alpha, u, 20)
			// the tries of `merged` come from separately built parts: their key ranges INTERLEAVE (a trie contributes
			// several consecutive keys of the global order between keys of the others)
			for _, lim := range []int{1, 2, 3, 1 + r.rng.Intn(len(u.keys)+2), len(u.keys) + 5} {
				r.bucketSuggest(merged, dm, []byte{}, lim)
			}
			r.bucketSuggest(merged, dm, pickLit(r.rng, alpha, u, false), 1+r.rng.Intn(4))
			r.bucketSuggest(merged, dm, pickLit(r.rng, alpha, u, false), 2+r.rng.Intn(6))
			// rewrite (what the merger does) and load the result
			var out bytes.Buffer
			var err error
			if r.guarded("BucketWrite", nil, func() { err = merged.Write(&out) }) && err == nil {
				re := model.NewTrieBucketWithBlockSize(bs)
				if r.guarded("Unmarshal", nil, func() { err = re.Unmarshal(cloneB(out.Bytes())) }) && err == nil {
					dr := r.newID()
					r.emit("Load", trace.F{"d": dr, "from": dm, "via": fmt.Sprintf("bucket-write(block=%d)", bs)})
					r.bucketAll(re, dr, alpha, u, 20)
					re.Release()
				}
			}
			if err != nil {
				r.emit("Error", trace.F{"op": "BucketWrite/Unmarshal", "err": err.Error()})
			}
		}
		merged.Release()
	}
}

// big: thousands of keys
func (r *dictRun) modeBig(rounds, n int) {
	for i := 0; i < rounds; i++ {
		alpha := dictAlphabets[[]int{0, 3, 5, 4}[i%4]]
		vg := newValGen(r.rng)
		s := genSet(r.rng, alpha, n, 9, vg, nil)
		r.reset(trace.F{"mode": "big", "round": i, "n": len(s.keys)})
		probes := genProbes(r.rng, alpha, s, len(s.keys), 400)
		ps := genProbes(r.rng, alpha, s, 40, 40)
		seeks := genProbes(r.rng, alpha, s, 5, 25)
		b, t, d := r.buildTrie(s)
		if t == nil {
			continue
		}
		r.trieAll(t, d, s, probes, ps, seeks, i == 0)
		if t2, d2 := r.loadTrie(b, d); t2 != nil {
			r.trieAll(t2, d2, s, probes, ps, seeks, false)
		}
		// the same set through a bucket with the block size of the real flush split in ~3 blocks
		bs := len(s.keys)/3 + 1
		if raw := r.bucketBytes(s, bs); raw != nil {
			bk := model.NewTrieBucketWithBlockSize(bs)
			var err error
			if r.guarded("Unmarshal", nil, func() { err = bk.Unmarshal(raw) }) && err == nil {
				db := r.newID()
				r.emit("Load", trace.F{"d": db, "from": d, "via": fmt.Sprintf("bucket-builder(block=%d)", bs)})
				r.bucketAll(bk, db, alpha, s, 200)
				bk.Release()
			}
		}
	}
}

// wide: a node with 63..256 labels (keys that share a prefix and differ in the next byte), last node of the trie or
// not, with a few extra keys so that the total number of labels takes every residue around the word size of the bit vectors
func (r *dictRun) modeWide(rounds int) {
	fans := []int{63, 64, 65, 66, 127, 128, 129, 192, 255, 256}
	for i := 0; i < rounds; i++ {
		for _, fan := range fans {
			vg := newValGen(r.rng)
			prefix := randStr(r.rng, [][]byte{{'h'}, {'o'}, {'s'}, {'t'}, {'-'}}, 1+r.rng.Intn(4))
			first := r.rng.Intn(257 - fan)
			seen := map[string]bool{}
			var keys [][]byte
			add := func(k []byte) {
				if !seen[string(k)] {
					seen[string(k)] = true
					keys = append(keys, cloneB(k))
				}
			}
			for b := 0; b < fan; b++ {
				k := append(cloneB(prefix), byte(first+b))
				if r.rng.Intn(8) == 0 {
					k = append(k, randStr(r.rng, [][]byte{{'x'}, {'y'}}, 2)...)
				}
				add(k)
			}
			// extra keys before / after the wide node: they change the total label count and whether the wide node is the last one
			for e := r.rng.Intn(5); e > 0; e-- {
				if r.rng.Intn(2) == 0 {
					add(append([]byte{'a'}, randStr(r.rng, [][]byte{{'p'}, {'q'}}, 2)...))
				} else {
					add(append([]byte{'z'}, randStr(r.rng, [][]byte{{'p'}, {'q'}}, 2)...))
				}
			}
			sort.Slice(keys, func(a, b int) bool { return bytes.Compare(keys[a], keys[b]) < 0 })
			s := &dictSet{keys: keys}
			for range keys {
				s.vals = append(s.vals, vg.next())
			}
			alpha := [][]byte{{'h'}, {'o'}, {'s'}, {'t'}, {'-'}, {byte(first)}, {byte(first + fan - 1)}, {0xFF}}
			r.reset(trace.F{"mode": "wide", "round": i, "fan": fan, "n": len(s.keys)})
			probes := genProbes(r.rng, alpha, s, len(s.keys), 20)
			ps := genProbes(r.rng, alpha, s, 6, 6)
			ps = append(ps, cloneB(prefix))
			seeks := genProbes(r.rng, alpha, s, 4, 6)
			b, t, d := r.buildTrie(s)
			if t == nil {
				continue
			}
			r.trieAll(t, d, s, probes, ps, seeks, false)
			if t2, d2 := r.loadTrie(b, d); t2 != nil {
				r.trieAll(t2, d2, s, probes, ps, seeks, false)
			}
			bs := []int{len(s.keys) + 1, len(s.keys)/2 + 1}[r.rng.Intn(2)]
			if raw := r.bucketBytes(s, bs); raw != nil {
				bk := model.NewTrieBucketWithBlockSize(bs)
				var err error
				if r.guarded("Unmarshal", nil, func() { err = bk.Unmarshal(raw) }) && err == nil {
					db := r.newID()
					r.emit("Load", trace.F{"d": db, "from": d, "via": fmt.Sprintf("bucket-builder(block=%d)", bs)})
					r.bucketAll(bk, db, alpha, s, 40)
					bk.Release()
				}
			}
		}
	}
}

// kv: the v1 flusher / reader / merger over a real kv store
func (r *dictRun) modeKV(rounds int, scratch string, maxN int) {
	for i := 0; i < rounds; i++ {
		path := filepath.Join(scratch, fmt.Sprintf("kv%d", i))
		store, err := kv.GetStoreManager().CreateStore(path, kv.DefaultStoreOption())
		if err != nil {
			r.sum.Unresolved = append(r.sum.Unresolved, "create store: "+err.Error())
			return
		}
		fam, err := store.CreateFamily("dict", kv.FamilyOption{Merger: string(v1.IndexKVMerger)})
		if err != nil {
			r.sum.Unresolved = append(r.sum.Unresolved, "create family: "+err.Error())
			return
		}
		alpha := dictAlphabets[r.rng.Intn(len(dictAlphabets))]
		buckets := []uint32{uint32(r.rng.Intn(3)), uint32(5 + r.rng.Intn(100)), uint32(65536 + r.rng.Intn(5))}
		r.reset(trace.F{"mode": "kv", "round": i, "buckets": buckets})
		vg := newValGen(r.rng)
		parts := map[uint32][]*dictSet{}
		partIDs := map[uint32][]int{}
		avoid := map[uint32]map[string]bool{}
		for _, b := range buckets {
			avoid[b] = map[string]bool{}
		}
		read := func(tag string) {
			snap := fam.GetSnapshot()
			defer snap.Close()
			reader := v1.NewIndexKVReader(snap)
			for _, b := range buckets {
				var bk *model.TrieBucket
				var err error
				if !r.guarded("GetBucket", trace.F{"bucket": b}, func() { bk, err = reader.GetBucket(b) }) {
					continue
				}
				if err != nil {
					r.emit("Error", trace.F{"op": "GetBucket", "bucket": b, "err": err.Error()})
					continue
				}
				if len(parts[b]) == 0 {
					if bk != nil {
						r.emit("Error", trace.F{"op": "GetBucket", "bucket": b, "err": "bucket never written but found"})
					}
					continue
				}
				if bk == nil {
					r.emit("Error", trace.F{"op": "GetBucket", "bucket": b, "err": "written bucket not found"})
					continue
				}
				d := r.newID()
				r.emit("Merge", trace.F{"d": d, "from": partIDs[b], "via": tag, "bucket": b})
				r.bucketAll(bk, d, alpha, unionSet(parts[b]), 15)
				bk.Release()
			}
		}
		flushes := 2 + r.rng.Intn(3)
		for f := 0; f < flushes; f++ {
			kvFlusher := fam.NewFlusher()
			blockSize := []int{2, 3, 4, 16, math.MaxInt16}[r.rng.Intn(5)]
			fl, err := v1.NewIndexKVFlusher(blockSize, kvFlusher)
			if err != nil {
				r.sum.Unresolved = append(r.sum.Unresolved, "new flusher: "+err.Error())
				return
			}
			for _, b := range buckets {
				if f > 0 && r.rng.Intn(3) == 0 {
					continue
				}
				s := genSet(r.rng, alpha, 1+r.rng.Intn(maxN), 2+r.rng.Intn(5), vg, avoid[b])
				if len(s.keys) == 0 {
					continue
				}
				for _, k := range s.keys {
					avoid[b][string(k)] = true
				}
				k, v := s.shuffled(r.rng)
				var err error
				if !r.guarded("WriteKVs", trace.F{"keys": bbInts(s.keys)}, func() {
					fl.PrepareBucket(b)
					if err = fl.WriteKVs(k, v); err == nil {
						err = fl.CommitBucket()
					}
				}) {
					continue
				}
				if err != nil {
					r.emit("Error", trace.F{"op": "WriteKVs", "err": err.Error()})
					continue
				}
				d := r.newID()
				r.emit("Build", trace.F{"d": d, "via": fmt.Sprintf("kv-flusher(block=%d)", blockSize), "bucket": b, "keys": bbInts(s.keys), "vals": uInts(s.vals)})
				parts[b] = append(parts[b], s)
				partIDs[b] = append(partIDs[b], d)
			}
			if err := fl.Close(); err != nil {
				r.emit("Error", trace.F{"op": "FlusherClose", "err": err.Error()})
			}
			kvFlusher.Release()
			read(fmt.Sprintf("kv-reader(after flush %d)", f+1))
		}
		// compaction runs the registered IndexKVMerger
		snap := fam.GetSnapshot()
		before := snap.GetCurrent().NumberOfFilesInLevel(0)
		snap.Close()
		fam.Compact()
		kv.VerifWaitFamily(fam)
		snap = fam.GetSnapshot()
		after := snap.GetCurrent().NumberOfFilesInLevel(0)
		snap.Close()
		if before > 1 && after == 0 {
			r.counts["kv-compactions"]++
		} else if before > 1 {
			r.sum.Unresolved = append(r.sum.Unresolved, fmt.Sprintf("compaction did not run: level0 %d -> %d", before, after))
		}
		read("kv-reader(after compaction = IndexKVMerger)")
		// reopen
		_ = kv.GetStoreManager().CloseStore(path)
		store, err = kv.GetStoreManager().CreateStore(path, kv.DefaultStoreOption())
		if err != nil {
			r.sum.Unresolved = append(r.sum.Unresolved, "reopen store: "+err.Error())
			return
		}
		fam = store.GetFamily("dict")
		if fam == nil {
			r.sum.Unresolved = append(r.sum.Unresolved, "family lost on reopen")
			return
		}
		read("kv-reader(after reopen)")
		_ = kv.GetStoreManager().CloseStore(path)
		_ = os.RemoveAll(path)
	}
}

// seek: raw Iterator.Seek probes on small tries (validated twice: with the named deviations and strictly)
func (r *dictRun) modeSeek(rounds int) {
	for i := 0; i < rounds; i++ {
		alpha := dictAlphabets[r.rng.Intn(3)]
		vg := newValGen(r.rng)
		s := genSet(r.rng, alpha, 2+r.rng.Intn(10), 4, vg, nil)
		r.reset(trace.F{"mode": "seek", "round": i})
		_, t, d := r.buildTrie(s)
		if t == nil {
			continue
		}
		seeks := genProbes(r.rng, alpha, s, 3, 10)
		last := s.keys[len(s.keys)-1]
		seeks = append(seeks, append(cloneB(last), 0xFF), append(cloneB(s.keys[0]), alpha[0]...))
		r.trieSeek(t, d, seeks)
	}
}

// findings: behaviours the specification rejects on the unchanged tree (each in its own small sub-trace)
func (r *dictRun) modeFindings(rounds int) {
	// (1) Suggest through a bucket
	for i := 0; i < rounds; i++ {
		alpha := dictAlphabets[1+r.rng.Intn(2)]
		vg := newValGen(r.rng)
		s := genSet(r.rng, alpha, 4+r.rng.Intn(8), 4, vg, nil)
		bs := []int{math.MaxUint16, 2, 3}[i%3]
		r.reset(trace.F{"mode": "suggest", "round": i, "block": bs})
		raw := r.bucketBytes(s, bs)
		if raw == nil {
			continue
		}
		bk := model.NewTrieBucketWithBlockSize(bs)
		if err := bk.Unmarshal(raw); err != nil {
			r.emit("Error", trace.F{"op": "Unmarshal", "err": err.Error()})
			continue
		}
		d := r.newID()
		r.emit("Build", trace.F{"d": d, "via": "bucket-builder", "keys": bbInts(s.keys), "vals": uInts(s.vals)})
		r.bucketSuggest(bk, d, []byte{}, 1)
		r.bucketSuggest(bk, d, []byte{}, 100)
		r.bucketSuggest(bk, d, alpha[0], 3)
		r.bucketSuggest(bk, d, s.keys[len(s.keys)/2], 5)
		bk.Release()
	}
	// (2) regular expressions that are not anchored at the start
	for i := 0; i < rounds; i++ {
		alpha := dictAlphabets[2]
		vg := newValGen(r.rng)
		s := genSet(r.rng, alpha, 6+r.rng.Intn(8), 4, vg, nil)
		r.reset(trace.F{"mode": "regex-unanchored", "round": i})
		raw := r.bucketBytes(s, math.MaxUint16)
		if raw == nil {
			continue
		}
		bk := model.NewTrieBucket()
		if err := bk.Unmarshal(raw); err != nil {
			r.emit("Error", trace.F{"op": "Unmarshal", "err": err.Error()})
			continue
		}
		d := r.newID()
		r.emit("Build", trace.F{"d": d, "via": "bucket-builder", "keys": bbInts(s.keys), "vals": uInts(s.vals)})
		// a literal that occurs inside / at the end of some key but is not a prefix of it
		var lit []byte
		for _, k := range s.keys {
			if len(k) >= 2 {
				lit = k[len(k)-1:]
				break
			}
		}
		if lit == nil {
			lit = alpha[0]
		}
		if i%2 == 0 {
			r.bucketRegex(bk, d, "bare", [][]byte{lit}, false)
			r.bucketRegex(bk, d, "suffix", [][]byte{lit}, false)
		} else {
			r.bucketRegex(bk, d, "suffix", [][]byte{lit}, false)
			r.bucketRegex(bk, d, "bare", [][]byte{lit}, false)
		}
		bk.Release()
	}
	// (2b) the single-key trie {"\xff"} asked for the empty key
	r.reset(trace.F{"mode": "edge-ff"})
	{
		s := &dictSet{keys: [][]byte{{0xFF}}, vals: []uint32{42}}
		if b, t, d := r.buildTrie(s); t != nil {
			r.triePrefix(t, d, [][]byte{{}, {0xFF}})
			r.trieGet(t, d, [][]byte{{0xFF}, {0xFF, 0xFF}, {}})
			_ = b
		}
	}
	// (3) a bucket whose only key is the empty key, through the bucket builder (as a flush would write it)
	r.reset(trace.F{"mode": "edge", "n": 1, "via": "bucket-builder"})
	if raw := r.bucketBytes(&dictSet{keys: [][]byte{{}}, vals: []uint32{7}}, math.MaxInt16); raw != nil {
		bk := model.NewTrieBucket()
		if err := bk.Unmarshal(raw); err != nil {
			r.emit("Error", trace.F{"op": "Unmarshal", "err": err.Error()})
		} else {
			d := r.newID()
			r.emit("Build", trace.F{"d": d, "via": "bucket-builder", "keys": [][]int{{}}, "vals": []int{7}})
			r.bucketGet(bk, d, [][]byte{{}, {'a'}})
			r.bucketValues(bk, d)
		}
	}
	// (4) key sets the trie builder cannot build
	for _, ks := range [][][]byte{{{}}, {}} {
		r.reset(trace.F{"mode": "edge", "n": len(ks)})
		s := &dictSet{keys: ks}
		for range ks {
			s.vals = append(s.vals, 7)
		}
		b := trie.NewBuilder()
		var t trie.SuccinctTrie
		ok := r.guarded("Build", trace.F{"keys": bbInts(s.keys), "vals": uInts(s.vals)}, func() {
			b.Build(append([][]byte{}, s.keys...), append([]uint32{}, s.vals...))
			t = b.Trie()
		})
		if ok {
			d := r.newID()
			r.emit("Build", trace.F{"d": d, "via": "trie", "keys": bbInts(s.keys), "vals": uInts(s.vals)})
			r.trieAll(t, d, s, [][]byte{{}, {'a'}}, [][]byte{{}}, nil, true)
		}
	}
}

func dictMain(args []string) int {
	fs := flag.NewFlagSet("dict", flag.ExitOnError)
	out := fs.String("out", "dict.ndjson", "trace output (expected to be accepted)")
	outSeek := fs.String("out-seek", "", "trace output: raw Seek probes")
	outFind := fs.String("out-findings", "", "trace output: sub-traces exercising the recorded findings")
	seed := fs.Int64("seed", 1, "seed")
	smallLen := fs.Int("small-len", 3, "small mode: max key length")
	smallKeys := fs.Int("small-keys", 2, "small mode: max keys per set (0 = skip)")
	smallTriples := fs.Int("small-triples", 2, "small mode: number of concrete alphabets")
	nrand := fs.Int("rand", 60, "random rounds")
	randN := fs.Int("rand-n", 60, "random rounds: max keys")
	nbig := fs.Int("big", 1, "big rounds")
	nwide := fs.Int("wide", 1, "rounds of key sets with a wide node (63..256 labels)")
	bigN := fs.Int("big-n", 1500, "keys per big round")
	nkv := fs.Int("kv", 6, "kv store rounds")
	nseek := fs.Int("seek", 6, "seek rounds")
	nfind := fs.Int("findings", 3, "rounds per finding")
	scratch := fs.String("scratch", "", "scratch directory")
	_ = fs.Parse(args)
	if *scratch == "" {
		d, _ := os.MkdirTemp("", "vdrive-dict-")
		*scratch = d
		defer os.RemoveAll(d)
	}
	sum := &trace.Summary{Module: "SortedDict", Extra: map[string]any{}}
	counts := map[string]int{}
	rng := rand.New(rand.NewSource(*seed))
	files := map[string]any{}
	run := func(path string, fn func(r *dictRun)) {
		if path == "" {
			return
		}
		rec, err := trace.New(path)
		if err != nil {
			sum.Unresolved = append(sum.Unresolved, err.Error())
			return
		}
		r := &dictRun{rec: rec, sum: sum, rng: rand.New(rand.NewSource(rng.Int63())), counts: counts}
		fn(r)
		_ = rec.Close()
		t, e := rec.Counts()
		sum.Traces += t
		sum.Events += e
		files[filepath.Base(path)] = map[string]int{"traces": t, "events": e, "panics": r.panics}
	}
	// concrete alphabets: {0x00, 'a', 0xFF} always, the others rotate with the seed
	others := [][]byte{{'a', 'b', 'c'}, {0x00, 0x01, 0x02}, {0x7F, 0x80, 0xFF}, {0xFE, 0xFF, 0x00}}
	rot := int(*seed % int64(len(others)))
	if rot < 0 {
		rot = -rot
	}
	triples := append([][]byte{{0x00, 'a', 0xFF}}, append(others[rot:], others[:rot]...)...)
	if *smallTriples < len(triples) {
		triples = triples[:*smallTriples]
	}
	run(*out, func(r *dictRun) {
		if *smallKeys > 0 {
			r.modeSmall(*smallLen, *smallKeys, triples)
		}
		r.modeRand(*nrand, *randN)
		r.modeBig(*nbig, *bigN)
		r.modeWide(*nwide)
		r.modeKV(*nkv, *scratch, *randN)
	})
	run(*outSeek, func(r *dictRun) { r.modeSeek(*nseek) })
	run(*outFind, func(r *dictRun) { r.modeFindings(*nfind) })
	sum.Distinct = sum.Traces
	sum.Extra["files"] = files
	sum.Extra["event_counts"] = counts
	sum.Print()
	return 0
}
