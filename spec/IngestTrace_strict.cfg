CONSTANTS
  Deviation_FlatIgnoresRequestNamespace = FALSE
  Deviation_StaleEvictFlag = FALSE
SPECIFICATION TraceSpec
CONSTRAINT HighWater
POSTCONDITION TraceAccepted
CHECK_DEADLOCK FALSE
