"""XELECTION -- master election (module Election): an extension beyond the listed properties (DESIGN 0.8)."""
import json
import os

import vcore


def describe(sig, lines, rel, info):
    failed = any('"failover":"fail"' in ln for ln in lines[:rel])
    return "%s:%s" % (sig, "after-failed-failover" if failed else "no-failed-failover")


def run(ctx, replay):
    if replay:
        ok, info = ctx.validate_trace("ElectionTrace", "ElectionTrace.cfg", replay, dfs=False)
        if not ok:
            ctx.violation("Election:replay", "replayed trace rejected: %s" % info, replay_src=replay)
        return
    thorough = ctx.tier == "thorough"
    # M: three nodes, two lease losses, every delivery order of the watch events: when everything is handled there is
    # exactly one master, it owns the key, every node knows it; two nodes believe to be master only while the older one
    # has a delete event pending
    ctx.model_check("MCElection", "MCElection.cfg", timeout=1200)
    # observations (model level; the traces below show the real objects take the same steps):
    # a resigning node deletes the key even when another node owns it by now ...
    ctx.model_check("MCElection", "MCElection_resign.cfg", expect="violation", timeout=300)
    # ... and a failed OnFailOver leaves the node owning the key without being master: nobody is master
    ctx.model_check("MCElection", "MCElection_failover.cfg", expect="violation", timeout=300)
    tr = os.path.join(ctx.scratch, "election.ndjson")
    nh, steps = (400, 120) if thorough else (60, 80)
    summ, rc, _ = ctx.run_vdrive(["election", "--seed", ctx.seed, "--histories", nh, "--steps", steps, "--out", tr], timeout=1200)
    for u in summ["unresolved"]:
        raise vcore.Unresolved("election driver: %s" % u)
    for s in summ["samples"][:2]:
        ctx.sample(s)
    ctx.extra["events"] = summ["events"]
    vcore.validate_all(ctx, "ElectionTrace", "ElectionTrace_conf.cfg", tr, describe=describe, dfs=False, max_rejections=200)
    vcore.validate_all(ctx, "ElectionTrace", "ElectionTrace.cfg", ctx.accepted_path, describe=describe, dfs=False, max_rejections=200)

    def flip_master(ls):
        for i, ln in enumerate(ls):
            if '"ev":"Proj"' in ln and '"ismaster":[' in ln and "true" in ln:
                d = json.loads(ln)
                d["ismaster"] = [not x for x in d["ismaster"]]
                out = list(ls)
                out[i] = json.dumps(d, separators=(",", ":")) + "\n"
                return out
        return None

    def elect_result(ls):
        for i, ln in enumerate(ls):
            if '"ev":"Elect"' in ln:
                d = json.loads(ln)
                d["ok"] = not d["ok"]
                out = list(ls)
                out[i] = json.dumps(d, separators=(",", ":")) + "\n"
                return out
        return None
    clean = os.path.join(ctx.scratch, "election-clean.ndjson")
    with open(clean, "w") as f:
        for t in vcore.split_traces(vcore.read_lines(ctx.accepted_path))[:3]:
            f.write("".join(t))
    vcore.corrupt_selftest(ctx, "ElectionTrace", "ElectionTrace.cfg", clean, flip_master, "a node's belief to be master flipped")
    vcore.corrupt_selftest(ctx, "ElectionTrace", "ElectionTrace.cfg", clean, elect_result, "the result of repo.Elect flipped")
    ctx.assumptions += [
        "three real elect.Election objects over one in-memory repository (put-if-absent Elect, unconditional Delete, one watch channel per node); the driver decides when Elect runs and when each watch event is delivered",
        "a delete event is delivered to a node only when its elect loop waits for the retry signal (otherwise the handler blocks on the signal; the model has that state, the driver avoids it to stay deterministic)",
    ]
