--------------------------- MODULE TagIndexTrace ---------------------------
(* Trace validation (leg T of C10): TLC judges the answers the REAL query path  *)
(* (sql.Parse -> query.MetricDataSearch -> leaf task processor: tag value       *)
(* lookup, series filtering, grouping context build / collect over a real       *)
(* tsdb.Engine; harness `vdrive tagidx`) gave for logged series universes,      *)
(* index placements and conditions, against the reference of TagIndex.          *)
(* Strings are logged as arrays of byte values; series and values as small      *)
(* ints.  No event branches, validation is linear in the trace.                 *)
EXTENDS TagIndex, Json

Trace == ndJsonDeserialize("trace.ndjson")
VARIABLE l
tvars == <<vars, l>>
ASSUME TLCSet(1, 0)
Ev(e) == l <= Len(Trace) /\ Trace[l].ev = e /\ l' = l + 1
Line == Trace[l]

TraceInit == l = 1 /\ nk = 0 /\ Init
TReset == /\ Ev("Reset") /\ nk' = Line.nk
          /\ vals' = [k \in 1..Line.nk |-> << >>] /\ vloc' = [k \in 1..Line.nk |-> << >>]
          /\ series' = << >> /\ holders' = [k \in 1..Line.nk |-> {}] /\ msid' = << >> /\ sloc' = [st \in Stores |-> << >>] /\ dslot' = << >> /\ dplace' = << >>

\* ---- state changing events
\* listed series [metric, tags, id inside the metric, x], then `filler` series of metric 1 that have none of the judged keys
Rec(x) == [m |-> x[1], tags |-> x[2], x |-> x[4]]
Fill == [m |-> 1, tags |-> [k \in 1..nk |-> 0], x |-> 1]
TWrite == /\ Ev("Write")
          /\ WriteBatch(Line.newvals,
                        [i \in 1..(Len(Line.series) + Line.filler) |-> IF i <= Len(Line.series) THEN Rec(Line.series[i]) ELSE Fill],
                        [i \in 1..(Len(Line.series) + Line.filler) |->
                           IF i <= Len(Line.series) THEN Line.series[i][3] ELSE Line.fillsid + (i - Len(Line.series) - 1)],
                        Line.slot)
TPrepMeta == Ev("PrepMeta") /\ PrepMeta
TFlushMeta == Ev("FlushMeta") /\ FlushMeta
TCompactMeta == Ev("CompactMeta") /\ CompactMeta
TPrepIdx == Ev("PrepIdx") /\ PrepIdx
TFlushIdx == Ev("FlushIdx") /\ FlushIdx
TCompactIdx == Ev("CompactIdx") /\ CompactIdx
TFlushIdxFail == Ev("FlushIdxFail") /\ FlushIdxPartial({Line.done[i] : i \in 1..Len(Line.done)})
TFlushMetaFail == Ev("FlushMetaFail") /\ FlushMetaFailed
TReopen == Ev("Reopen") /\ Reopen
TRefresh == Ev("Refresh") /\ Refresh(Line.slot)

\* ---- a query: the logged answer must be the reference answer in the current state.
\* The judge is a state-level predicate meant to be EVALUATED (comparing with TRUE keeps TLC from expanding it).
Holds(b) == b = TRUE
QueryJudge ==
  LET gv == [i \in 1..Len(Line.groups) |-> Line.groups[i][1]]
      cnt == [i \in 1..Len(Line.groups) |-> Line.groups[i][2]] IN
  /\ \A i \in 1..Len(Line.g) : Line.g[i] \in Keys
  /\ AnswerOK(Line.m, Line.cond, Line.g, Line.slot, Line.res, gv, cnt)
TQuery == Ev("Query") /\ UNCHANGED vars /\ Holds(QueryJudge)
\* ---- a listing of the tag value dictionary of one key: a function value -> id over exactly the created values
TDict == Ev("Dict") /\ UNCHANGED vars /\ Holds(DictOK(Line.k, Line.entries))

TraceNext == TReset \/ TFlushIdxFail \/ TFlushMetaFail \/ TWrite \/ TPrepMeta \/ TFlushMeta \/ TCompactMeta \/ TPrepIdx \/ TFlushIdx \/ TCompactIdx
             \/ TReopen \/ TRefresh \/ TQuery \/ TDict
TraceSpec == TraceInit /\ [][TraceNext]_tvars

HighWater == TLCSet(1, IF l > TLCGet(1) THEN l ELSE TLCGet(1))
TraceAccepted ==
  LET hw == TLCGet(1) IN
  IF hw = Len(Trace) + 1 THEN TRUE
  ELSE /\ PrintT(<<"TRACE-REJECTED-AT-LINE", hw>>)
       /\ FALSE
=============================================================================
