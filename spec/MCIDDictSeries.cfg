CONSTANTS
  Series = {a, b, c}
  MaxFlush = 2
  MaxCrash = 2
  LoopPrepare = TRUE
  PostingsFirst = TRUE
SPECIFICATION Spec
INVARIANTS Stable Injective UsedDurable
CHECK_DEADLOCK FALSE
