CONSTANTS
  SwitchCurrentEarly = TRUE
  NoNextFileNumberLog = FALSE
  StoreSnapshotLogsManifest = FALSE
  Family = {1, 2}
  Key = {1}
  MaxFlush = 3
  MaxCompact = 1
  MaxCrash = 2
  MaxRollup = 1
SPECIFICATION MCSpec
INVARIANTS RecoveredIsCommitted NoPartialVisible ContentIsCommitted AlwaysReopens NoNumberReuse
CHECK_DEADLOCK FALSE
