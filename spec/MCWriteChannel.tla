-------------------------- MODULE MCWriteChannel --------------------------
(* Bounded instances of WriteChannel: MaxRow rows, MaxFaults failed stream creations / Sends, MaxLeader leader  *)
(* changes; Stop / Cancel / giving-up writers can be switched off per configuration.                             *)
EXTENDS WriteChannel
CONSTANTS MaxRow, MaxFaults, MaxLeader, AllowStop, AllowCancel, AllowAbort, AllowTimer, FaultsOnlyBeforeStop
VARIABLES nlead
mcvars == <<vars, nlead>>

FaultOK == faults < MaxFaults /\ (FaultsOnlyBeforeStop => ~closed /\ ~cancelled)
MCInit == Init /\ nlead = 0
MCTask ==
  \/ Take \/ NilTake \/ RetryTick \/ (AllowTimer /\ TimerFlush) \/ TimerUnblock \/ SigClose \/ SigNil
  \/ StopChunk \/ StopTake \/ StopRetry \/ StopDone \/ Dial
  \/ Created(TRUE) \/ Send("ok")
  \/ ((FaultOK \/ cancelled) /\ Created(FALSE))
  \/ ((FaultOK \/ cancelled) /\ \E res \in {"err", "eof"} : Send(res))
MCNext ==
  \/ /\ next <= MaxRow /\ (\E out \in {"ok", "block", "panic", "canceled"} : WriteRow(out)) /\ UNCHANGED nlead
  \/ WritePush /\ UNCHANGED nlead
  \/ AllowAbort /\ (\E why \in {"timeout", "canceled", "panic"} : WriteAbort(why)) /\ UNCHANGED nlead
  \/ nlead < MaxLeader /\ (\E n \in Node : LeaderChange(n)) /\ nlead' = nlead + 1
  \/ AllowStop /\ Stop /\ UNCHANGED nlead
  \/ AllowCancel /\ Cancel /\ UNCHANGED nlead
  \/ MCTask /\ UNCHANGED nlead
MCSpec == MCInit /\ [][MCNext]_mcvars

Sym == Permutations(Node)

\* liveness: with fair task steps (the ticker included) and finitely many faults, everything accepted is delivered.
\* The code (RetryOnTick = FALSE) re-sends a failed chunk only after a LATER chunk from ch was sent: with no later
\* write the chunk stays in the retry buffer for ever.
Fair == MCSpec /\ WF_mcvars(MCTask /\ UNCHANGED nlead) /\ WF_mcvars(WritePush /\ UNCHANGED nlead)
EventuallyDelivered == <>[](acked \subseteq Delivered)
=============================================================================
