SPECIFICATION TraceSpec
INVARIANTS LoadedBlocksKnown CursorsInRange
CONSTRAINT HighWater
POSTCONDITION TraceAccepted
CHECK_DEADLOCK FALSE
