package main

import (
	"context"
	"encoding/binary"
	"encoding/json"
	"errors"
	"flag"
	"fmt"
	"io"
	"math/rand"
	"os"
	"path/filepath"
	"runtime/debug"
	"strconv"
	"strings"
	"sync"
	"time"

	"google.golang.org/grpc"
	"google.golang.org/grpc/metadata"

	storagerpc "github.com/lindb/lindb/app/storage/rpc"

	"github.com/lindb/lindb/coordinator/storage"
	"github.com/lindb/lindb/models"
	"github.com/lindb/lindb/pkg/queue"
	"github.com/lindb/lindb/pkg/timeutil"
	protoReplicaV1 "github.com/lindb/lindb/proto/gen/v1/replica"
	"github.com/lindb/lindb/replica"
	"github.com/lindb/lindb/rpc"
	"github.com/lindb/lindb/tsdb"

	"verif/harness/internal/trace"
	"verif/harness/internal/walwrap"
)

func init() { register("repl", replMain) }

// ---- minimal stand-ins for the tsdb objects a partition only asks for names of
type fakeDB struct{ tsdb.Database }

func (fakeDB) Name() string { return "db" }

type fakeShard struct{ tsdb.Shard }

func (fakeShard) Database() tsdb.Database { return fakeDB{} }
func (fakeShard) ShardID() models.ShardID { return 1 }

type fakeFamily struct{ tsdb.DataFamily }

func (fakeFamily) TimeRange() timeutil.TimeRange { return timeutil.TimeRange{Start: 1000, End: 2000} }
func (fakeFamily) FamilyTime() int64             { return 1000 }

// the real ReplicaHandler builds the follower's local replicator when a stream starts (it is never stepped here)
func (fakeFamily) AckSequence(int32, func(int64)) {}
func (fakeFamily) Retain()                        {}
func (fakeFamily) Release()                       {}

type fakeStateMgr struct{ storage.StateManager }

func (fakeStateMgr) GetLiveNode(id models.NodeID) (models.StatefulNode, bool) {
	return models.StatefulNode{ID: id}, true
}
func (fakeStateMgr) WatchNodeStateChangeEvent(models.NodeID, func(models.NodeStateType)) {}

// ---- the follower node: a real Partition over a real FanOutQueue; the three RPC bodies are
// those of app/storage/rpc/replica.go (ReplicaHandler) applied to that partition
type followerNode struct {
	dir     string
	log     queue.FanOutQueue
	part    replica.Partition
	epoch   int
	failPut bool
	// the RPC handler of the follower PROCESS: it outlives a partition that the follower's own log GC destroys
	handler *storagerpc.ReplicaHandler
}

// a follower whose Queue.Put can be made to fail (disk full / page not acquirable): everything else is the real log
type failPutQueue struct {
	queue.Queue
	fail *bool
}

func (q failPutQueue) Put(b []byte) error {
	if *q.fail {
		return errors.New("injected: follower cannot append")
	}
	return q.Queue.Put(b)
}

type failPutFanOut struct {
	queue.FanOutQueue
	fail *bool
}

func (f failPutFanOut) Queue() queue.Queue {
	return failPutQueue{Queue: f.FanOutQueue.Queue(), fail: f.fail}
}

func (f *followerNode) open() error {
	q, err := queue.NewFanOutQueue(f.dir, 0)
	if err != nil {
		return err
	}
	f.log = q
	f.part = replica.NewPartition(context.Background(), fakeShard{}, fakeFamily{}, 2, failPutFanOut{FanOutQueue: q, fail: &f.failPut}, nil, nil)
	f.epoch++
	return nil
}

type replFaults struct {
	ack, reset, connect, send, recv bool
}

type replClient struct {
	f      *followerNode
	faults *replFaults
}

// the follower's RPC side is the REAL handler of the storage node (app/storage/rpc/replica.go, ReplicaHandler): the
// harness only stands in for the write ahead log manager (it hands out the follower's partition) and for the grpc
// transport (an in-process server stream whose context carries the metadata the leader's client context carries)
type replFakeWAL struct {
	replica.WriteAheadLog
	f *followerNode
}

func (w replFakeWAL) GetOrCreatePartition(models.ShardID, int64, models.NodeID) (replica.Partition, error) {
	return w.f.part, nil
}

type replFakeMgr struct {
	replica.WriteAheadLogManager
	f *followerNode
}

func (m replFakeMgr) GetOrCreateLog(string) replica.WriteAheadLog { return replFakeWAL{f: m.f} }

func (c *replClient) handler() *storagerpc.ReplicaHandler {
	if c.f.handler == nil {
		c.f.handler = storagerpc.NewReplicaHandler(replFakeMgr{f: c.f})
	}
	return c.f.handler
}

func (c *replClient) Reset(ctx context.Context, in *protoReplicaV1.ResetIndexRequest, _ ...grpc.CallOption) (*protoReplicaV1.ResetIndexResponse, error) {
	if c.faults.reset {
		return nil, errors.New("injected: reset failed")
	}
	return replGuard(func() (*protoReplicaV1.ResetIndexResponse, error) { return c.handler().Reset(ctx, in) })
}

func (c *replClient) GetReplicaAckIndex(ctx context.Context, in *protoReplicaV1.GetReplicaAckIndexRequest, _ ...grpc.CallOption) (*protoReplicaV1.GetReplicaAckIndexResponse, error) {
	if c.faults.ack {
		return nil, errors.New("injected: get ack index failed")
	}
	return replGuard(func() (*protoReplicaV1.GetReplicaAckIndexResponse, error) { return c.handler().GetReplicaAckIndex(ctx, in) })
}

// replGuard: a memory fault inside the handler (a partition whose log was closed and unmapped) is the failure of
// the RPC -- an observation about the code under test, not the end of the driver
func replGuard[T any](fn func() (T, error)) (res T, err error) {
	old := debug.SetPanicOnFault(true)
	defer debug.SetPanicOnFault(old)
	defer func() {
		if r := recover(); r != nil {
			err = fmt.Errorf("rpc handler fault: %v", r)
		}
	}()
	return fn()
}

// the server end of one replica stream
type replServerStream struct {
	grpc.ServerStream
	ctx context.Context
	in  chan *protoReplicaV1.ReplicaRequest
	out chan *protoReplicaV1.ReplicaResponse
	// closed at the first Recv: the handler finished its set-up (partition, local replicator of the follower)
	ready     chan struct{}
	readyOnce sync.Once
}

func (s *replServerStream) Context() context.Context { return s.ctx }
func (s *replServerStream) Recv() (*protoReplicaV1.ReplicaRequest, error) {
	s.readyOnce.Do(func() { close(s.ready) })
	r, ok := <-s.in
	if !ok {
		return nil, io.EOF
	}
	return r, nil
}
func (s *replServerStream) Send(r *protoReplicaV1.ReplicaResponse) error {
	s.out <- r
	return nil
}

func (c *replClient) Replica(ctx context.Context, _ ...grpc.CallOption) (protoReplicaV1.ReplicaService_ReplicaClient, error) {
	if c.faults.connect {
		return nil, errors.New("injected: create stream failed")
	}
	md, _ := metadata.FromOutgoingContext(ctx)
	ss := &replServerStream{ctx: metadata.NewIncomingContext(context.Background(), md),
		in: make(chan *protoReplicaV1.ReplicaRequest), out: make(chan *protoReplicaV1.ReplicaResponse), ready: make(chan struct{})}
	st := &replStream{c: c, epoch: c.f.epoch, ss: ss, done: make(chan error, 1)}
	h := c.handler()
	go func() {
		_, err := replGuard(func() (int, error) { return 0, h.Replica(ss) })
		ss.readyOnce.Do(func() { close(ss.ready) })
		st.done <- err
	}()
	// nothing of the handler runs beside the driver: wait until it stands at its first Recv (or gave up)
	select {
	case <-ss.ready:
	case err := <-st.done:
		st.done <- err
	}
	return st, nil
}

type replStream struct {
	grpc.ClientStream
	c      *replClient
	epoch  int
	ss     *replServerStream
	done   chan error
	closed bool
	resp   *protoReplicaV1.ReplicaResponse
}

func (s *replStream) Send(r *protoReplicaV1.ReplicaRequest) error {
	if s.c.faults.send {
		return errors.New("injected: send failed")
	}
	if s.epoch != s.c.f.epoch {
		return errors.New("stream broken: follower restarted")
	}
	select {
	case s.ss.in <- r:
	case err := <-s.done:
		s.done <- err
		return fmt.Errorf("stream ended by the handler: %v", err)
	}
	select {
	case s.resp = <-s.ss.out:
	case err := <-s.done:
		s.done <- err
		return fmt.Errorf("stream ended by the handler: %v", err)
	}
	return nil
}

func (s *replStream) Recv() (*protoReplicaV1.ReplicaResponse, error) {
	if s.c.faults.recv {
		return nil, errors.New("injected: receive failed")
	}
	return s.resp, nil
}
func (s *replStream) CloseSend() error {
	if !s.closed {
		s.closed = true
		close(s.ss.in)
	}
	return nil
}

type replFactory struct {
	rpc.ClientStreamFactory
	c *replClient
}

func (f *replFactory) CreateReplicaServiceClient(models.Node) (protoReplicaV1.ReplicaServiceClient, error) {
	return f.c, nil
}

type replRun struct {
	rec    *trace.Recorder
	ldir   string
	llog   queue.FanOutQueue
	lpart  replica.Partition
	fol    *followerNode
	faults *replFaults
	nextID int
}

func replPayload(id int) []byte {
	return []byte(fmt.Sprintf("m%06d-%s", id, strings.Repeat("x", id%13)))
}
func replID(b []byte) int {
	if len(b) < 7 || b[0] != 'm' {
		return -1
	}
	n, err := strconv.Atoi(string(b[1:7]))
	if err != nil || string(replPayload(n)) != string(b) {
		return -1
	}
	return n
}

func (r *replRun) openLeader() error {
	q, err := queue.NewFanOutQueue(r.ldir, 0)
	if err != nil {
		return err
	}
	r.llog = q
	r.lpart = replica.NewPartition(context.Background(), fakeShard{}, fakeFamily{}, 1, q,
		&replFactory{c: &replClient{f: r.fol, faults: r.faults}}, fakeStateMgr{})
	return r.lpart.BuildReplicaForLeader(1, []models.NodeID{2})
}

func liveIDs(q queue.Queue) []int {
	out := []int{}
	// (a live range of more than a few thousand positions is not a state these histories can reach on a conforming
	// tree; the positions are logged next to it, so the list may stop there)
	for s := q.AcknowledgedSeq() + 1; s <= q.AppendedSeq() && len(out) < 5000; s++ {
		b, err := q.Get(s)
		if err != nil {
			out = append(out, -2)
		} else {
			out = append(out, replID(b))
		}
	}
	return out
}

func (r *replRun) proj() {
	lq, fq := r.llog.Queue(), r.fol.log.Queue()
	g, _ := r.llog.GetOrCreateConsumerGroup("2")
	st, _, _ := replica.VerifReplicatorState(r.lpart, 2)
	stName := map[models.ReplicatorState]string{models.ReplicatorInitState: "init", models.ReplicatorReadyState: "ready", models.ReplicatorFailureState: "fail"}[st]
	r.rec.Emit("Proj", trace.F{"lA": lq.AppendedSeq(), "lQ": lq.AcknowledgedSeq(), "cons": g.ConsumedSeq(), "gack": g.AcknowledgedSeq(),
		"fA": fq.AppendedSeq(), "fQ": fq.AcknowledgedSeq(), "st": stName, "llive": liveIDs(lq), "flive": liveIDs(fq)})
}

func (r *replRun) ready() bool {
	st, _, _ := replica.VerifReplicatorState(r.lpart, 2)
	return st == models.ReplicatorReadyState
}

var replFirstTail int // index of the first tail-loss history

func replHistory(rec *trace.Recorder, dir string, rng *rand.Rand, steps int, tailLoss bool, h int, sum *trace.Summary, scripted []string) {
	faults := &replFaults{}
	fol := &followerNode{dir: filepath.Join(dir, "follower")}
	if err := fol.open(); err != nil {
		sum.Unresolved = append(sum.Unresolved, err.Error())
		return
	}
	run := &replRun{rec: rec, ldir: filepath.Join(dir, "leader"), fol: fol, faults: faults}
	if err := run.openLeader(); err != nil {
		sum.Unresolved = append(sum.Unresolved, err.Error())
		return
	}
	rec.Reset(trace.F{"mode": "repl", "h": h, "tailloss": tailLoss, "generated": scripted != nil})
	run.proj()
	if h%4 == 3 && scripted == nil {
		// a long-lived log: the leader's positions (and its group for the follower) start inside a LATER index page of
		// the queue (262144 entries per page), so that every reset of the follower / of the leader lands in the middle of
		// an index page other than the first one
		base := int64(262144*(1+rng.Intn(2)) + 3 + rng.Intn(200))
		run.llog.SetAppendedSeq(base)
		rec.Emit("Base", trace.F{"s": base})
		run.proj()
	}
	script := []string{}
	// every other tail-loss history keeps the follower caught up, so that the leader loses positions the
	// follower already holds (the handshake branch "follower ahead of the leader's append index")
	roundP := 55
	if tailLoss && h%2 == 1 {
		roundP = 80
	}
	// the first tail-loss histories start with a script: the follower is caught up, then the leader loses 2, 3,
	// 4 positions the follower holds, handshakes, appends and replicates again
	var forced []string
	if ti := h - replFirstTail; tailLoss && ti < 3 {
		forced = []string{"hs", "append", "append", "append", "append", "append", "append", "round", "round", "round", "round", "round", "round",
			fmt.Sprintf("losetail:%d", 2+ti), "hs", "append", "append", "round", "round", "round"}
	}
	// the first histories without tail loss: the follower is caught up, the leader comes back with an older image
	// of the follower's group meta (consumed / acknowledged rolled back by 1..3), handshakes, appends, replicates
	if !tailLoss && h < 3 {
		forced = []string{"hs", "append", "append", "append", "append", "round", "round", "round", "round",
			fmt.Sprintf("losegroup:%d", 1+h), "hs", "append", "append", "round", "round", "round", "round",
			// the follower's write fails once while the stream stays healthy; more appends and rounds follow
			"append", "append", "append", "roundfput", "round", "round", "hs", "round", "round", "round", "round"}
	}
	if scripted != nil {
		// leg R: a behaviour of the model chosen by TLC (ReplicationGen), executed step by step; nothing is random
		forced, steps = append([]string{}, scripted...), len(scripted)
	}
	for i := 0; i < steps; i++ {
		if scripted != nil && len(forced) == 0 {
			break
		}
		*faults = replFaults{}
		c := rng.Intn(100)
		pending := run.llog.Queue().AppendedSeq() > func() int64 { g, _ := run.llog.GetOrCreateConsumerGroup("2"); return g.ConsumedSeq() }()
		// the step: scripted (forced) or chosen at random
		op := ""
		forceFput := false
		forceFault := ""
		loseK := int64(1 + rng.Intn(3))
		if len(forced) > 0 {
			op, forced = forced[0], forced[1:]
			if strings.HasPrefix(op, "hs:") || strings.HasPrefix(op, "round:") {
				forceFault = op[strings.Index(op, ":")+1:]
				op = op[:strings.Index(op, ":")]
			}
			if strings.HasPrefix(op, "losetail:") {
				loseK = int64(op[len("losetail:")] - '0')
				op = "losetail"
			}
			if strings.HasPrefix(op, "losegroup:") {
				loseK = int64(op[len("losegroup:")] - '0')
				op = "losegroup"
			}
			forceFput = op == "roundfput"
			if forceFput {
				op = "round"
			}
			if scripted == nil && ((op == "hs" && run.ready()) || (op == "round" && (!run.ready() || !pending))) {
				continue
			}
		} else {
			switch {
			case !run.ready() && c < 70:
				op = "hs"
			case run.ready() && pending && c < roundP:
				op = "round"
			case c < 80:
				op = "append"
			case c < 84:
				op = "frestart"
			case c < 87:
				op = "flose"
			case c < 91:
				op = "gc"
			case c < 93:
				op = "lrestart"
			case c < 95:
				op = "losegroup"
			case tailLoss:
				op = "losetail"
			}
		}
		switch op {
		case "hs":
			f := "none"
			pick := rng.Intn(12)
			if forceFault != "" {
				pick = map[string]int{"ack": 0, "reset": 1, "connect": 2, "none": 11}[forceFault]
			}
			switch pick {
			case 0:
				f, faults.ack = "ack", true
			case 1:
				f, faults.reset = "reset", true
			case 2:
				f, faults.connect = "connect", true
			}
			rec.Emit("Handshake", trace.F{"rpcfail": f})
			replica.VerifReplicaHandshake(run.lpart, 2)
			script = append(script, "hs:"+f)
		case "round":
			f := "none"
			pick := rng.Intn(12)
			if forceFault != "" {
				pick = map[string]int{"send": 0, "recv": 1, "fput": 2, "none": 11}[forceFault]
			}
			switch pick {
			case 0:
				f, faults.send = "send", true
			case 1:
				f, faults.recv = "recv", true
			case 2:
				f, fol.failPut = "fput", true
			}
			if forceFput {
				*faults = replFaults{}
				f, fol.failPut = "fput", true
			}
			rec.Emit("Round", trace.F{"fault": f})
			replica.VerifReplicaRound(run.lpart, 2)
			fol.failPut = false
			script = append(script, "round:"+f)
		case "append":
			run.nextID++
			rec.Emit("Append", trace.F{"id": run.nextID})
			if err := run.lpart.WriteLog(replPayload(run.nextID)); err != nil {
				rec.Emit("Error", trace.F{"err": err.Error()})
			}
			script = append(script, "append")
		case "frestart":
			rec.Emit("FollowerRestart", trace.F{})
			fol.log.Close()
			fol.handler = nil // a new process
			_ = fol.open()
			script = append(script, "frestart")
		case "flose":
			rec.Emit("FollowerLoseLog", trace.F{})
			if rng.Intn(2) == 0 {
				// the disk was lost with the process
				fol.log.Close()
				fol.handler = nil
				script = append(script, "flose")
			} else {
				// the follower's OWN log GC destroyed the partition (writeAheadLog.destroy: stop, close, remove the
				// directory) -- same process, same RPC handler; the next RPC gets a new partition from the manager
				fol.part.Stop()
				_ = fol.part.Close()
				script = append(script, "flose-gc")
			}
			_ = os.RemoveAll(fol.dir)
			_ = fol.open()
		case "gc":
			rec.Emit("LeaderGC", trace.F{})
			run.llog.Sync()
			run.llog.Queue().GC()
			script = append(script, "gc")
		case "lrestart":
			rec.Emit("LeaderRestart", trace.F{})
			run.lpart.Stop()
			_ = run.lpart.Close()
			if err := run.openLeader(); err != nil {
				sum.Unresolved = append(sum.Unresolved, err.Error())
				return
			}
			script = append(script, "lrestart")
		case "losegroup":
			g, _ := run.llog.GetOrCreateConsumerGroup("2")
			k := loseK
			newCons := g.ConsumedSeq() - k
			if newCons < -1 || newCons < run.llog.Queue().AcknowledgedSeq() {
				continue
			}
			newAck := g.AcknowledgedSeq()
			if newAck > newCons {
				newAck = newCons
			}
			rec.Emit("LeaderLoseGroup", trace.F{"k": k})
			run.lpart.Stop()
			_ = run.lpart.Close()
			meta := filepath.Join(run.ldir, "cg", "2", "0.bat")
			b, err := os.ReadFile(meta)
			if err != nil {
				sum.Unresolved = append(sum.Unresolved, "group meta: "+err.Error())
				return
			}
			binary.LittleEndian.PutUint64(b[0:8], uint64(newCons))
			binary.LittleEndian.PutUint64(b[8:16], uint64(newAck))
			_ = os.WriteFile(meta, b, 0o644)
			if err := run.openLeader(); err != nil {
				sum.Unresolved = append(sum.Unresolved, err.Error())
				return
			}
			script = append(script, fmt.Sprintf("losegroup:%d", k))
		case "losetail":
			lq := run.llog.Queue()
			k := loseK
			if lq.AppendedSeq()-k < lq.AcknowledgedSeq() || lq.AppendedSeq()-k < -1 {
				continue
			}
			rec.Emit("LeaderLoseTail", trace.F{"k": k})
			newApp := lq.AppendedSeq() - k
			run.lpart.Stop()
			_ = run.lpart.Close()
			meta := filepath.Join(run.ldir, "meta", "0.bat")
			b, err := os.ReadFile(meta)
			if err == nil {
				binary.LittleEndian.PutUint64(b[0:8], uint64(newApp))
				_ = os.WriteFile(meta, b, 0o644)
			}
			if err := run.openLeader(); err != nil {
				sum.Unresolved = append(sum.Unresolved, err.Error())
				return
			}
			script = append(script, fmt.Sprintf("losetail:%d", k))
		default:
			continue
		}
		*faults = replFaults{}
		run.proj()
	}
	run.lpart.Stop()
	_ = run.lpart.Close()
	fol.log.Close()
	if len(sum.Samples) < 3 {
		sum.Samples = append(sum.Samples, map[string]any{"script": script})
	}
}

// replAppendUnderRound: the replica loop runs WHILE an append of the leader is in flight.  The appending goroutine is
// parked inside Put, right before the payload is copied into the data page (page-factory wrapper, gate `data-copy`);
// the driver runs replica rounds there.  An append that is not finished is not visible: the rounds find nothing to
// send (a round that does send something is a `Round` event the specification cannot take, because no `Append`
// happened); after the release the append returns, is logged, and the next rounds replicate exactly its bytes.
func replAppendUnderRound(rec *trace.Recorder, dir string, h int, sum *trace.Summary) {
	w := walwrap.NewWorld(filepath.Join(dir, "leader"), rec) // (the leader's log: its data page factory is the gated one)
	w.Suppress = 1 // the stores are not events of this module
	restore := w.Install()
	defer restore()
	faults := &replFaults{}
	fol := &followerNode{dir: filepath.Join(dir, "follower")}
	if err := fol.open(); err != nil {
		sum.Unresolved = append(sum.Unresolved, err.Error())
		return
	}
	run := &replRun{rec: rec, ldir: filepath.Join(dir, "leader"), fol: fol, faults: faults}
	if err := run.openLeader(); err != nil {
		sum.Unresolved = append(sum.Unresolved, err.Error())
		return
	}
	rec.Reset(trace.F{"mode": "repl", "h": h, "tailloss": false, "scenario": "append-under-round"})
	run.proj()
	pending := func() bool {
		g, _ := run.llog.GetOrCreateConsumerGroup("2")
		return run.llog.Queue().AppendedSeq() > g.ConsumedSeq()
	}
	round := func() {
		if run.ready() && pending() {
			rec.Emit("Round", trace.F{"fault": "none"})
		}
		replica.VerifReplicaRound(run.lpart, 2)
		run.proj()
	}
	appendNow := func() {
		run.nextID++
		rec.Emit("Append", trace.F{"id": run.nextID})
		if err := run.lpart.WriteLog(replPayload(run.nextID)); err != nil {
			rec.Emit("Error", trace.F{"err": err.Error()})
		}
		run.proj()
	}
	rec.Emit("Handshake", trace.F{"rpcfail": "none"})
	replica.VerifReplicaHandshake(run.lpart, 2)
	run.proj()
	for i := 0; i < 1+h%3; i++ {
		appendNow()
	}
	for i := 0; i < 1+h%3; i++ {
		round()
	}
	for k := 0; k < 2; k++ {
		parked, release, done := make(chan struct{}), make(chan struct{}), make(chan struct{})
		var once sync.Once
		w.Gate = func(t, label string) {
			if t == "w" && label == "data-copy" {
				once.Do(func() {
					close(parked)
					<-release
				})
			}
		}
		run.nextID++
		id := run.nextID
		var werr error
		go func() {
			w.BindThread("w")
			werr = run.lpart.WriteLog(replPayload(id))
			close(done)
		}()
		select {
		case <-parked:
		case <-done:
			sum.Unresolved = append(sum.Unresolved, "append-under-round: the append finished without passing the data-copy gate")
			return
		case <-time.After(5 * time.Second):
			sum.Unresolved = append(sum.Unresolved, "append-under-round: the append did not reach the copy of its payload")
			return
		}
		for i := 0; i < 2+k; i++ {
			round() // the append in flight must not be visible to the replica loop
		}
		close(release)
		<-done
		w.Gate = nil
		rec.Emit("Append", trace.F{"id": id})
		if werr != nil {
			rec.Emit("Error", trace.F{"err": werr.Error()})
		}
		run.proj()
		for i := 0; i < 3; i++ {
			round()
		}
	}
	run.lpart.Stop()
	_ = run.lpart.Close()
	fol.log.Close()
}

func replMain(args []string) int {
	fs := flag.NewFlagSet("repl", flag.ExitOnError)
	out := fs.String("out", "repl.ndjson", "trace output")
	seed := fs.Int64("seed", 1, "seed")
	nh := fs.Int("histories", 50, "histories without leader tail loss")
	nt := fs.Int("tailloss", 0, "histories with leader tail loss")
	nunder := fs.Int("underround", 0, "scenarios in which replica rounds run while an append of the leader is parked before the copy of its payload")
	scripts := fs.String("scripts", "", "leg R: JSON file with behaviours generated by TLC from ReplicationGen (list of lists of steps); replaces the random histories")
	steps := fs.Int("steps", 60, "steps per history")
	scratch := fs.String("scratch", "", "scratch directory")
	_ = fs.Parse(args)
	if *scratch == "" {
		d, _ := os.MkdirTemp("", "vdrive-repl-")
		*scratch = d
		defer os.RemoveAll(d)
	}
	rec, err := trace.New(*out)
	if err != nil {
		fmt.Println(err)
		return 2
	}
	rng := rand.New(rand.NewSource(*seed))
	sum := &trace.Summary{Module: "Replication", Extra: map[string]any{}}
	if *scripts != "" {
		var gen [][]string
		b, err := os.ReadFile(*scripts)
		if err == nil {
			err = json.Unmarshal(b, &gen)
		}
		if err != nil {
			fmt.Println("scripts:", err)
			return 2
		}
		replFirstTail = 1 << 30
		for h, sc := range gen {
			d := filepath.Join(*scratch, fmt.Sprintf("g%d", h))
			tail := false
			for _, op := range sc {
				tail = tail || strings.HasPrefix(op, "losetail")
			}
			replHistory(rec, d, rand.New(rand.NewSource(int64(h))), len(sc), tail, 1000+h, sum, sc)
			os.RemoveAll(d)
		}
		*nh, *nt = 0, 0
	}
	for h := 0; h < *nunder; h++ {
		d := filepath.Join(*scratch, fmt.Sprintf("u%d", h))
		replAppendUnderRound(rec, d, 2000+h, sum)
		os.RemoveAll(d)
	}
	for h := 0; h < *nh+*nt; h++ {
		d := filepath.Join(*scratch, fmt.Sprintf("r%d", h))
		replFirstTail = *nh
		replHistory(rec, d, rand.New(rand.NewSource(rng.Int63())), *steps, h >= *nh, h, sum, nil)
		os.RemoveAll(d)
	}
	_ = rec.Close()
	sum.Traces, sum.Events = rec.Counts()
	sum.Distinct = sum.Traces
	sum.Print()
	return 0
}
