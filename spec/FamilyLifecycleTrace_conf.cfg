\* conformance only: histories in which two memory databases were created in one clock tick (rows are lost, see UniqueStamp)
CONSTANTS
  Leader = {1, 2}
  MaxRow = 60
  MaxObj = 6
  MaxDb = 60
  DoubleWindow = TRUE
  CloseLocksFirst = TRUE
  RetryFailed = FALSE
  ClosedRejects = FALSE
  AtomicWrite = FALSE
  AtomicEvict = FALSE
  UniqueStamp = FALSE
  EvictChecksRef = TRUE
  EvictChecksMem = TRUE
  CloseFlushes = TRUE
  AckFrozen = TRUE
SPECIFICATION TraceSpec
INVARIANTS TypeOK FlushShape
CONSTRAINT HighWater
POSTCONDITION TraceAccepted
CHECK_DEADLOCK FALSE
