CONSTANTS
  DevLookup = TRUE
  FirstDay = 0
  FirstCivil <- Epoch
  LastDay = 0
  Groups = {}
  InstantsOf <- MCInstantsOf
  Intervals <- MCIntervals
  PlanInputsOf <- MCPlanInputsOf
  ShardInterval <- MCShardInterval
  ShardInstants <- MCShardInstants
  MCHours = {0, 12, 23}
  MCPool = {7, 10, 30, 300, 420, 3600, 18000, 86400}
SPECIFICATION Spec
INVARIANTS LookupMatchesOverlap
CHECK_DEADLOCK FALSE
