------------------------- MODULE MCFamilyLifecycle -------------------------
EXTENDS FamilyLifecycle
CONSTANTS MaxFail,    \* flush jobs that fail after the freeze
          MaxRef      \* bound of the reference count
VARIABLES nfail
mcvars == <<vars, nfail>>
MCInit == Init /\ nfail = 0
Same == UNCHANGED nfail
MCNext ==
  \/ Load /\ Same
  \/ (\E o \in Obj, l \in Leader, k \in Db : AtomicWrite /\ Write(o, l, k)) /\ Same
  \/ (\E o \in Obj, k \in Db : WriteGet(o, k)) /\ Same
  \/ (\E l \in Leader : WritePut(l)) /\ Same
  \/ (\E o \in Obj, l \in Leader, res \in {"ok", "err"} : WriteClosed(o, l, res)) /\ Same
  \/ (\E o \in Obj, l \in Leader, s \in Row : Commit(o, l, s)) /\ Same
  \/ (\E o \in Obj, l \in Leader : AckReg(o, l)) /\ Same
  \/ (\E o \in Obj : (Retain(o) /\ ref[o] < MaxRef) \/ Release(o)) /\ Same
  \/ (\E o \in Obj : FlushFreeze(o) \/ FlushRetry(o) \/ FlushNothing(o) \/ FlushCommit(o) \/ FlushRelease(o)
                      \/ FlushDrop(o)) /\ Same
  \/ (\E o \in Obj : FlushFail(o)) /\ nfail < MaxFail /\ nfail' = nfail + 1
  \/ (\E o \in Obj, l \in Leader : FlushAck(o, l)) /\ Same
  \/ (\E o \in Obj : CloseBegin(o) \/ CloseWait(o) \/ CloseCommit(o) \/ CloseNext(o) \/ CloseEnd(o)) /\ Same
  \/ (\E o \in Obj, l \in Leader : CloseAck(o, l)) /\ Same
  \/ (\E o \in Obj, res \in {"go", "ref"} : EvictRef(o, res)) /\ Same
  \/ (\E o \in Obj, res \in {"go", "mem", "young"} : EvictMem(o, res)) /\ Same
  \/ (\E o \in Obj : EvictAll(o)) /\ Same
MCSpec == MCInit /\ [][MCNext]_mcvars
=============================================================================
