------------------------ MODULE SegmentLifecycleTrace ------------------------
(* Trace validation of the real segments of a real shard (`vdrive seglife`):   *)
(* every event is one action of SegmentLifecycle (or, for an uninterrupted    *)
(* call that is several critical sections, their composition) with the       *)
(* results the driver observed: whether a new kv store was registered for     *)
(* the segment directory, whether a family handle came back, whether WriteRows *)
(* and Flush succeeded, whether EvictSegment / Evict closed something, and    *)
(* after every call how many stores of the segment directory are open.        *)
EXTENDS SegmentLifecycle, Json, Sequences

Trace == ndJsonDeserialize("trace.ndjson")
VARIABLES l
tvars == <<vars, l>>
ASSUME TLCSet(1, 0)
Ev(e) == l <= Len(Trace) /\ Trace[l].ev = e /\ l' = l + 1
Line == Trace[l]
W(s) == CHOOSE w \in Writer : ToString(w) = s

TraceInit == l = 1 /\ Init
TReset ==
  /\ Ev("Reset")
  /\ segMap' = 0 /\ nobj' = 0 /\ nfam' = 0
  /\ st' = [o \in Obj |-> "none"] /\ cached' = [o \in Obj |-> 0]
  /\ fseg' = [f \in Fam |-> 0] /\ fst' = [f \in Fam |-> "none"] /\ fmem' = [f \in Fam |-> {}] /\ stuck' = [f \in Fam |-> FALSE]
  /\ flushed' = {} /\ late' = {} /\ next' = 1
  /\ wpc' = [w \in Writer |-> "idle"] /\ wseg' = [w \in Writer |-> 0] /\ wfam' = [w \in Writer |-> 0]
  /\ imutex' = "free" /\ ev' = "idle" /\ failed' = FALSE

\* created: a new kv store was registered for the directory of the segment
TGetSeg == Ev("GetSeg") /\ Line.created = (segMap = 0) /\ GetSeg(W(Line.w))

\* the segment handed out a family ...
TGetFam == Ev("GetFam") /\ GetFam(W(Line.w), Line.res)
\* ... or, at the end of a Shard.GetOrCrateDataFamily call that met a CLOSED segment object and nothing else ran in
\* between: GetFam(w, "closed") ; GetSeg(w) ; GetFam(w, "ok") as one step (the retry of the repaired code is not
\* observable from outside).  Without the repair the family comes from the closed object.
TGetFamDone ==
  /\ Ev("GetFamDone")
  /\ LET w == W(Line.w)  o == wseg[w] IN
     /\ wpc[w] = "gotseg" /\ Line.ok
     /\ IF st[o] = "closed" /\ ClosedSegmentRejects
          THEN /\ imutex = "free"
               /\ LET n == IF segMap # 0 THEN segMap ELSE nobj + 1 IN
                  /\ (segMap = 0 => nobj < MaxObj)
                  /\ nobj' = IF segMap # 0 THEN nobj ELSE nobj + 1
                  /\ segMap' = n
                  /\ st' = [st EXCEPT ![n] = "open"]
                  /\ wseg' = [wseg EXCEPT ![w] = n]
                  /\ IF n = segMap /\ cached[n] # 0
                       THEN /\ wfam' = [wfam EXCEPT ![w] = cached[n]]
                            /\ UNCHANGED <<cached, nfam, fseg, fst>>
                       ELSE /\ nfam < MaxFam
                            /\ nfam' = nfam + 1 /\ cached' = [cached EXCEPT ![n] = nfam + 1]
                            /\ fseg' = [fseg EXCEPT ![nfam + 1] = n] /\ fst' = [fst EXCEPT ![nfam + 1] = "live"]
                            /\ wfam' = [wfam EXCEPT ![w] = nfam + 1]
                  /\ wpc' = [wpc EXCEPT ![w] = "gotfam"]
               /\ UNCHANGED <<fmem, stuck, flushed, late, next, imutex, ev, failed>>
          ELSE GetFam(w, "ok")

TWrite == Ev("Write") /\ next = Line.row /\ Write(W(Line.w), Line.res)
TDone == Ev("Done") /\ Done(W(Line.w))

\* DataFamily.Flush through the handle of the writer: the object has rows in memory (then the commit succeeds exactly
\* when its store is open, unless an earlier failure made it ignore flushes), or it has nothing to flush (nil)
TFlush ==
  /\ Ev("Flush")
  /\ LET w == W(Line.w)  f == wfam[w] IN
     /\ wpc[w] = "gotfam"
     /\ IF fmem[f] # {} THEN Flush(f, Line.ok) ELSE Line.ok /\ UNCHANGED vars

\* the TTL task: DataFamily.Evict of every family object of the family manager -- the live ones (an object leaves
\* the manager when it is closed); an object without rows in memory is closed and leaves its segment's map
InMgr == {f \in Fam : fst[f] = "live"}
Evictable == {f \in InMgr : fmem[f] = {} /\ cached[fseg[f]] = f}
TFamEvict ==
  /\ Ev("FamEvict")
  /\ Line.families = Cardinality(InMgr)
  /\ Line.closed = Cardinality(Evictable)
  /\ fst' = [f \in Fam |-> IF f \in Evictable THEN "closed" ELSE fst[f]]
  /\ cached' = [o \in Obj |-> IF cached[o] \in Evictable THEN 0 ELSE cached[o]]
  /\ UNCHANGED <<segMap, nobj, st, nfam, fseg, fmem, stuck, flushed, late, next, wpc, wseg, wfam, imutex, ev, failed>>

\* one uninterrupted Shard.EvictSegment: EvictBegin ; EvictCheck ; EvictClose (an object that passes the check has
\* no family in its map: Close has nothing to flush)
TEvictSeg ==
  /\ Ev("EvictSeg")
  /\ imutex = "free" /\ ev = "idle"
  /\ Line.closed = (segMap # 0 /\ cached[segMap] = 0)
  /\ IF Line.closed
       THEN /\ st' = [st EXCEPT ![segMap] = "closed"] /\ segMap' = 0
            /\ UNCHANGED <<nobj, cached, nfam, fseg, fst, fmem, stuck, flushed, late, next, wpc, wseg, wfam, imutex, ev, failed>>
       ELSE UNCHANGED vars
\* ... and its steps one by one (the gated scenario)
TEvictBegin == Ev("EvictBegin") /\ EvictBegin
TEvictCheck == Ev("EvictCheck") /\ EvictCheck(Line.go)
TEvictClose == Ev("EvictClose") /\ EvictClose

\* stores of the segment directory registered in the store manager
TProj ==
  /\ Ev("Proj")
  /\ Line.stores = Cardinality({o \in Obj : st[o] = "open"})
  /\ UNCHANGED vars

TraceNext ==
  \/ TReset \/ TGetSeg \/ TGetFam \/ TGetFamDone \/ TWrite \/ TDone \/ TFlush \/ TFamEvict \/ TEvictSeg
  \/ TEvictBegin \/ TEvictCheck \/ TEvictClose \/ TProj
TraceSpec == TraceInit /\ [][TraceNext]_tvars
HighWater == TLCSet(1, IF l > TLCGet(1) THEN l ELSE TLCGet(1))
TraceAccepted ==
  LET hw == TLCGet(1) IN
  IF hw = Len(Trace) + 1 THEN TRUE
  ELSE /\ PrintT(<<"TRACE-REJECTED-AT-LINE", hw>>)
       /\ FALSE
=============================================================================
