package main

// C09, scenario family "compaction": the name -> id dictionaries across the level-0 compaction of the kv families
// that hold them (metadata store: ns / metric / schema / tv; shard index store: series / metric / inverted / forward).
//
// The REAL index.NewMetricMetaDatabase (and, in every second history, index.NewMetricIndexDatabase on top of it) is
// driven through rounds of {new namespace, new metric, new field / tag key of existing metrics, new tag values of
// existing tag keys, new series -> PrepareFlush -> Flush}; every round leaves one level-0 file in each family.  Then
// the compaction of every family is started (the store's own check = what the kv job scheduler does once a minute,
// or Family.Compact()) and waited for, and every name is asked again: lookup and get-or-create in the running node
// (the schema store reads the compacted files at once, the index kv stores after the next flush has swapped their
// snapshot), after a further flush, after a second compaction that merges the level-1 output with new level-0 files,
// and after close + reopen; new names are created in each phase.  Everything is recorded as the Call / Ret events
// of the IDDict trace specification; the compaction itself is the event Compact (spec: merging files changes no
// name -> id mapping, IDDictTrace!TCompact / SchemaStore!Compact).  No gate is needed: the jobs are started and
// joined at quiescent points of the history (kv.VerifWaitFamily joins the family's background jobs).

import (
	"fmt"
	"math/rand"
	"path/filepath"
	"sort"
	"strings"

	"github.com/lindb/lindb/index"
	"github.com/lindb/lindb/kv"
	"github.com/lindb/lindb/series/metric"
	"github.com/lindb/lindb/series/tag"

	"verif/harness/internal/trace"
)

// cpMeta is the metadata database the shard index is built on: the tag key / tag value ids GenSeriesID creates on
// its way (buildInvertIndex) are recorded like every other get-or-create
type cpMeta struct {
	index.MetricMetaDatabase
	h *cpHist
}

func (m *cpMeta) GenTagKeyID(mid metric.ID, key []byte) (tag.KeyID, error) {
	id, ok := m.h.run.genTagKey(m.h.thread+".idx", mid, string(key))
	if !ok {
		return 0, fmt.Errorf("GenTagKeyID failed")
	}
	m.h.noteTagKey(int(mid), string(key), id)
	return id, nil
}

func (m *cpMeta) GenTagValueID(kid tag.KeyID, val []byte) (uint32, error) {
	id, ok := m.h.run.genTagValueID(m.h.thread+".idx", kid, string(val))
	if !ok {
		return 0, fmt.Errorf("GenTagValueID failed")
	}
	m.h.order(idKey{"tagvalue", int(kid), string(val)})
	return id, nil
}

type cpHist struct {
	rec     *trace.Recorder
	run     *idRun
	idx     index.MetricIndexDatabase // nil: metadata database only
	dir     string
	withIdx bool
	thread  string

	keys    []idKey        // every name asked so far, in creation order (deterministic re-ask order)
	seen    map[idKey]bool //
	metrics []string       // "ns/name" in creation order
	mids    map[string]metric.ID
	tagKeys []idKey // tag keys in creation order
	kids    map[idKey]tag.KeyID
	series  map[idKey]string // series key -> metric "ns/name"
	serial  int
	done    int // compaction jobs that ran (level 0 emptied)
	wanted  int // compaction jobs that were due
}

func (h *cpHist) order(k idKey) {
	if !h.seen[k] {
		h.seen[k] = true
		h.keys = append(h.keys, k)
	}
}

func (h *cpHist) noteTagKey(mid int, key string, id tag.KeyID) {
	k := idKey{"tagkey", mid, key}
	if _, ok := h.kids[k]; !ok {
		h.tagKeys = append(h.tagKeys, k)
	}
	h.kids[k] = id
	h.order(k)
}

func (h *cpHist) metaDir() string  { return filepath.Join(h.dir, "meta") }
func (h *cpHist) indexDir() string { return filepath.Join(h.dir, "shard-1", "index") }

func (h *cpHist) open() bool {
	db, err := index.NewMetricMetaDatabase("db", h.metaDir())
	if err != nil {
		h.rec.Emit("Error", trace.F{"op": "open", "err": err.Error()})
		return false
	}
	h.run.db = db
	if h.withIdx {
		idx, err := index.NewMetricIndexDatabase(h.indexDir(), &cpMeta{MetricMetaDatabase: db, h: h})
		if err != nil {
			h.rec.Emit("Error", trace.F{"op": "openIndex", "err": err.Error()})
			_ = db.Close()
			return false
		}
		h.idx = idx
	}
	return true
}

func (h *cpHist) close() {
	if h.idx != nil {
		if err := h.idx.Close(); err != nil {
			h.rec.Emit("Error", trace.F{"op": "closeIndex", "err": err.Error()})
		}
		h.idx = nil
	}
	if err := h.run.db.Close(); err != nil {
		h.rec.Emit("Error", trace.F{"op": "closeMeta", "err": err.Error()})
	}
}

// flush: metadata first, then the shard index (the order of a clean shutdown does not matter for this family:
// there is no crash in it)
func (h *cpHist) flush() {
	h.run.flush()
	if h.idx != nil {
		func() {
			defer func() {
				if p := recover(); p != nil {
					h.rec.Emit("Error", trace.F{"op": "IndexFlush", "err": fmt.Sprint("panic: ", p)})
				}
			}()
			h.idx.PrepareFlush()
			if err := h.idx.Flush(); err != nil {
				h.rec.Emit("Error", trace.F{"op": "IndexFlush", "err": err.Error()})
			}
			h.rec.Emit("Note", trace.F{"what": "IndexFlush"})
		}()
	}
}

func (h *cpHist) genMetric(name string) (metric.ID, bool) {
	mid, ok := h.run.genMetric(h.thread, name)
	if ok {
		if _, known := h.mids[name]; !known {
			h.metrics = append(h.metrics, name)
		}
		h.mids[name] = mid
		h.order(idKey{"metric", 0, name})
	}
	return mid, ok
}

func (h *cpHist) genTagKey(mid metric.ID, key string) {
	if id, ok := h.run.genTagKey(h.thread, mid, key); ok {
		h.noteTagKey(int(mid), key, id)
	}
}

func (h *cpHist) genField(mid metric.ID, name string) {
	h.run.genField(h.thread, mid, name)
	h.order(idKey{"field", int(mid), name})
}

func (h *cpHist) genTagValue(kid tag.KeyID, val string) {
	h.run.genTagValue(h.thread, kid, val)
	h.order(idKey{"tagvalue", int(kid), val})
}

func (h *cpHist) genSeries(metricName string, mid metric.ID, host string) {
	if h.idx == nil {
		return
	}
	_, name := splitNS(metricName)
	row := ilBuildRow(name, host)
	k := idKey{"series", int(mid), row.tags()}
	h.run.call(h.thread, k, true)
	var sid uint32
	var err error
	func() {
		defer func() {
			if p := recover(); p != nil {
				err = fmt.Errorf("panic: %v", p)
			}
		}()
		sid, err = h.idx.GenSeriesID(mid, row.row)
	}()
	if err != nil {
		h.rec.Emit("Error", trace.F{"op": "GenSeriesID", "err": err.Error()})
		return
	}
	h.run.ret(h.thread, true, int(sid))
	h.series[k] = metricName
	h.order(k)
}

// round: names that did not exist before, in every dictionary (so that every family gets a level-0 file from the
// flush that follows), next to names that exist
func (h *cpHist) round(rng *rand.Rand) {
	h.serial++
	i := h.serial
	// a new namespace with a new metric (ns and metric families); the namespaces share the bucket of their first
	// byte, so the merger has one bucket spread over all input files
	nsName := fmt.Sprintf("n%d", i)
	if rng.Intn(4) == 0 {
		nsName = fmt.Sprintf("%c%d", 'a'+rune(rng.Intn(3)), i)
	}
	newMetric := fmt.Sprintf("%s/m%d", nsName, i)
	h.genMetric(newMetric)
	if len(h.metrics) > 1 && rng.Intn(2) == 0 {
		// a second metric in a namespace that exists already
		ns0, _ := splitNS(h.metrics[rng.Intn(len(h.metrics)-1)])
		h.genMetric(fmt.Sprintf("%s/x%d", ns0, i))
	}
	// new fields / tag keys: always for the first metric (its schema is then spread over every input file), the new
	// one, and some others
	targets := []string{h.metrics[0], newMetric}
	for _, m := range h.metrics[1:] {
		if m != newMetric && rng.Intn(3) == 0 {
			targets = append(targets, m)
		}
	}
	for _, m := range targets {
		mid, ok := h.genMetric(m) // get-or-create of an existing name
		if !ok {
			continue
		}
		switch rng.Intn(3) {
		case 0:
			h.genField(mid, fmt.Sprintf("f%d", i))
		case 1:
			h.genTagKey(mid, fmt.Sprintf("k%d", i))
		default:
			h.genField(mid, fmt.Sprintf("f%d", i))
			h.genTagKey(mid, fmt.Sprintf("k%d", i))
		}
		if rng.Intn(3) == 0 && i > 1 {
			h.genField(mid, fmt.Sprintf("f%d", 1+rng.Intn(i-1))) // may exist
		}
	}
	// new tag values: under the first tag key (one bucket over every file) and some others
	if len(h.tagKeys) > 0 {
		tks := []idKey{h.tagKeys[0]}
		for _, k := range h.tagKeys[1:] {
			if rng.Intn(3) == 0 {
				tks = append(tks, k)
			}
		}
		for _, k := range tks {
			h.genTagValue(h.kids[k], fmt.Sprintf("v%d", i))
			if rng.Intn(3) == 0 && i > 1 {
				h.genTagValue(h.kids[k], fmt.Sprintf("v%d", 1+rng.Intn(i-1)))
			}
		}
	}
	// new series (shard index): the first metric gets one per round, others sometimes
	if h.idx != nil {
		h.genSeries(h.metrics[0], h.mids[h.metrics[0]], fmt.Sprintf("h%d", i))
		if rng.Intn(2) == 0 {
			m := h.metrics[rng.Intn(len(h.metrics))]
			h.genSeries(m, h.mids[m], fmt.Sprintf("h%d", 1+rng.Intn(i)))
		}
	}
}

// reask: lookup of every name, then get-or-create of every name (creation order)
func (h *cpHist) reask() {
	h.run.lookupAll(h.thread)
	for _, k := range append([]idKey{}, h.keys...) {
		switch k.kind {
		case "metric":
			h.genMetric(k.name)
		case "tagkey":
			h.genTagKey(metric.ID(k.scope), k.name)
		case "field":
			h.genField(metric.ID(k.scope), k.name)
		case "tagvalue":
			h.genTagValue(tag.KeyID(k.scope), k.name)
		case "series":
			if h.idx != nil {
				h.genSeries(h.series[k], metric.ID(k.scope), strings.TrimPrefix(k.name, "host="))
			}
		}
	}
	h.postings()
}

func (h *cpHist) postings() {
	if h.idx == nil {
		return
	}
	mids := map[int]bool{}
	for k := range h.series {
		mids[k.scope] = true
	}
	var order []int
	for m := range mids {
		order = append(order, m)
	}
	sort.Ints(order)
	for _, m := range order {
		bm, err := h.idx.GetSeriesIDsForMetric(metric.ID(m))
		if err != nil {
			h.rec.Emit("Error", trace.F{"op": "GetSeriesIDsForMetric", "err": err.Error()})
			continue
		}
		ids := []int{}
		for _, v := range bm.ToArray() {
			ids = append(ids, int(v))
		}
		h.rec.Emit("Postings", trace.F{"scope": m, "ids": ids})
	}
}

func cpLevel0(f kv.Family) int {
	s := f.GetSnapshot()
	defer s.Close()
	return s.GetCurrent().NumberOfFilesInLevel(0)
}

// compact starts the level-0 compaction of every family of the store and joins the jobs.  how = "store": the
// store's periodic check (needs the threshold of 4 files), "family": Family.Compact() (more than one file)
func (h *cpHist) compact(store, path, how string) {
	st, ok := kv.GetStoreManager().GetStoreByName(path)
	if !ok {
		h.rec.Emit("Note", trace.F{"what": "compact-skipped", "store": store, "why": "store not found"})
		h.wanted++
		return
	}
	names := st.ListFamilyNames()
	sort.Strings(names)
	before := map[string]int{}
	for _, n := range names {
		before[n] = cpLevel0(st.GetFamily(n))
	}
	func() {
		defer func() {
			if p := recover(); p != nil {
				h.rec.Emit("Error", trace.F{"op": "Compact", "err": fmt.Sprint("panic: ", p)})
			}
		}()
		if how == "store" {
			kv.VerifCompactStore(st)
		} else {
			for _, n := range names {
				st.GetFamily(n).Compact()
			}
		}
		for _, n := range names {
			kv.VerifWaitFamily(st.GetFamily(n))
		}
	}()
	after := map[string]int{}
	for _, n := range names {
		after[n] = cpLevel0(st.GetFamily(n))
		due := (how == "store" && before[n] >= 4) || (how == "family" && before[n] > 1)
		if due {
			h.wanted++
			if after[n] == 0 {
				h.done++
			}
		}
	}
	h.rec.Emit("Compact", trace.F{"store": store, "how": how, "level0_before": before, "level0_after": after})
}

func (h *cpHist) compactAll(how string) {
	h.compact("meta", filepath.Join(h.metaDir(), "kv"), how)
	if h.idx != nil {
		h.compact("index", h.indexDir(), how)
	}
}

func (h *cpHist) reopen(rng *rand.Rand) bool {
	h.close()
	h.rec.Emit("Reopen", trace.F{"how": "close"})
	if !h.open() {
		return false
	}
	return true
}

var cpScenarios = []string{"quiet", "dirty", "reopen", "twice"}

// idCompaction runs one history of the family; returns (compaction jobs due, jobs that emptied level 0)
func idCompaction(rec *trace.Recorder, dir string, rng *rand.Rand, hn int) (int, int) {
	scenario := cpScenarios[hn%len(cpScenarios)]
	withIdx := (hn/len(cpScenarios))%2 == 1 || hn%len(cpScenarios) == 3
	how := "store"
	rounds := 4 + rng.Intn(2)
	if rng.Intn(3) == 0 {
		how = "family"
		rounds = 2 + rng.Intn(4)
	}
	rec.Reset(trace.F{"mode": "compact", "scenario": scenario, "h": hn, "index": withIdx, "how": how, "rounds": rounds})
	h := &cpHist{rec: rec, dir: dir, withIdx: withIdx, thread: "main",
		run:  &idRun{rec: rec, dir: dir, known: map[idKey]bool{}},
		seen: map[idKey]bool{}, mids: map[string]metric.ID{}, kids: map[idKey]tag.KeyID{}, series: map[idKey]string{}}
	if !h.open() {
		return 0, 0
	}
	for i := 0; i < rounds; i++ {
		h.round(rng)
		h.flush()
	}
	switch scenario {
	case "quiet":
		// nothing in memory: every lookup after the compaction goes to the files
		h.compactAll(how)
		h.reask()
		h.round(rng) // new names next to the compacted ones
		h.flush()    // the index kv stores swap to the snapshot with the compacted file
		h.reask()
	case "dirty":
		// names in the mutable / immutable maps while the files are merged
		h.round(rng)
		if rng.Intn(2) == 0 {
			h.run.db.PrepareFlush()
			rec.Emit("Note", trace.F{"what": "PrepareFlush"})
		}
		h.compactAll(how)
		h.reask()
		h.flush()
		h.flush() // the schemas leave memory
		h.reask()
		h.round(rng)
	case "reopen":
		// the compacted files are first read by a new process
		h.compactAll(how)
		if !h.reopen(rng) {
			return h.wanted, h.done
		}
		h.reask()
		h.round(rng)
		h.flush()
		h.reask()
	case "twice":
		// the second compaction merges the output of the first one (level 1) with new level-0 files
		h.compactAll(how)
		h.reask()
		for i := 0; i < rounds; i++ {
			h.round(rng)
			h.flush()
		}
		h.compactAll(how)
		h.reask()
		h.flush()
		h.reask()
	}
	// close + reopen: every name keeps its id, new names get unused ids
	h.flush()
	if !h.reopen(rng) {
		return h.wanted, h.done
	}
	h.reask()
	h.round(rng)
	h.round(rng)
	h.reask()
	h.close()
	return h.wanted, h.done
}
