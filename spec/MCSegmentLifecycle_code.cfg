\* the code since the repair (a closed segment refuses; a closed family object still accepts rows): the properties that hold for the code
CONSTANTS
  Writer = {w1, w2}
  MaxObj = 3
  MaxFam = 3
  MaxRow = 3
  ClosedSegmentRejects = TRUE
  ClosedFamilyRejects = FALSE
SPECIFICATION Spec
INVARIANTS TypeOK OneOpenStore MapIsOpen NoOrphanFamily
CHECK_DEADLOCK FALSE
