CONSTANTS
  FixLostTail = FALSE
  MaxMsgs = 6
  MaxFaults = 6
  TailLoss = FALSE
  AppendOnlyWhenAligned = TRUE
SPECIFICATION MCSpec
INVARIANTS PositionalEquality NoHoles AckImpliesAppended NoSilentSkip
PROPERTIES Resync AckOnlyAppended
CHECK_DEADLOCK FALSE
