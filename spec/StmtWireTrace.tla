--------------------------- MODULE StmtWireTrace ---------------------------
(* Trace validation of the real parser and the real statement wire (harness `vdrive stmtwire`)       *)
(* against StmtWire.  The driver logs projections of the REAL trees: before the wire (a), after it   *)
(* (b), of a second parse (a2), and the real bytes of stmt.Marshal as a JSON value (w).  The wire    *)
(* events are pure; the judgement is the enabling condition of the event's action.                   *)
(* Overlapping parse calls (ParseRef / ParseBegin / ParseEnd): `ref` is the function text -> result  *)
(* as the sequential parses of the trace (no call in flight) have shown it, `open` the calls in      *)
(* flight; the result r of a call is the statement's projection or [k |-> "error"].                  *)
EXTENDS StmtWire, Json

Trace == ndJsonDeserialize("trace.ndjson")
VARIABLES l, ref
tvars == <<vars, l, ref>>
ASSUME TLCSet(1, 0)
Ev(e) == l <= Len(Trace) /\ Trace[l].ev = e /\ l' = l + 1
Line == Trace[l]
NoneAt(lvl) == {}

TraceInit == l = 1 /\ mode = "trace" /\ x = Nil /\ d = 0 /\ open = <<>> /\ pool = {} /\ lex = <<>> /\ ref = <<>>
\* a new trace: no call in flight, nothing known about any text
TReset == Ev("Reset") /\ open' = <<>> /\ ref' = <<>> /\ UNCHANGED <<mode, x, d, pool, lex>>

\* sql.Parse twice on the same text: equal statements (the clock is an input when no absolute range is given)
TParse == Ev("Parse") /\ SameModuloClock(Line.a, Line.a2, Line.abs) /\ UNCHANGED <<vars, ref>>
\* ... and a text the parser rejects is rejected both times
TParseError == Ev("ParseError") /\ Line.e1 = Line.e2 /\ UNCHANGED <<vars, ref>>

\* a sequential parse (no call in flight): the first one of a text shows what the text means, later ones agree
TParseRef ==
  /\ Ev("ParseRef") /\ DOMAIN open = {}
  /\ IF Line.text \in DOMAIN ref
     THEN ResultOf(ref, Line.text, Line.r, Line.abs) /\ UNCHANGED ref
     ELSE ref' = ref @@ (Line.text :> Line.r)
  /\ UNCHANGED vars
\* a call begins -- inside another call (nested through the parser seam) or next to others (goroutines)
TParseBegin == Ev("ParseBegin") /\ Begin(Line.call, Line.text) /\ UNCHANGED <<mode, x, d, pool, lex, ref>>
\* ... and ends: its result is the statement of ITS text, whatever began or ended since it began
TParseEnd ==
  /\ Ev("ParseEnd")
  /\ Line.call \in DOMAIN open /\ open[Line.call].text = Line.text
  /\ ResultOf(ref, Line.text, Line.r, Line.abs)
  /\ End(Line.call)
  /\ UNCHANGED <<mode, x, d, pool, lex, ref>>

\* stmt.Query / stmt.MetricMetadata: MarshalJSON -> UnmarshalJSON (what query/leaf_processor.go does)
StmtSurvives(e) == e.err = "" /\ WellFormedStmt(e.a) /\ Survives(e.a, e.b)
TWire == Ev("Wire") /\ StmtSurvives(Line) /\ UNCHANGED <<vars, ref>>
\* the payload RootMetricContext.MakePlan put into the task request, unmarshalled as the leaf does
TPlanWire == Ev("PlanWire") /\ StmtSurvives(Line) /\ UNCHANGED <<vars, ref>>

\* stmt.Marshal / stmt.Unmarshal on one expression tree: the real bytes are the specified envelope,
\* the real decoder returns the tree, and so does the specified decoder on the real bytes
TExprWire ==
  /\ Ev("ExprWire")
  /\ Line.err = ""
  /\ WellFormed(Line.a)
  /\ Line.w = Enc(Line.a)
  /\ Survives(Line.a, Line.b)
  /\ Dec(Line.w) = Line.a
  /\ UNCHANGED <<vars, ref>>

TraceNext == TReset \/ TParse \/ TParseError \/ TWire \/ TPlanWire \/ TExprWire \/ TParseRef \/ TParseBegin \/ TParseEnd
TraceSpec == TraceInit /\ [][TraceNext]_tvars

HighWater == TLCSet(1, IF l > TLCGet(1) THEN l ELSE TLCGet(1))
TraceAccepted ==
  LET hw == TLCGet(1) IN
  IF hw = Len(Trace) + 1 THEN TRUE
  ELSE /\ PrintT(<<"TRACE-REJECTED-AT-LINE", hw>>)
       /\ FALSE
=============================================================================
