-------------------------- MODULE BrokerViewTrace --------------------------
(* Trace validation of the real broker state manager + real channel manager  *)
(* (harness `vdrive brokerview`) against BrokerView.  The driver plays the    *)
(* three watchers; after every step it reads, at a quiescent point, what the  *)
(* broker answers.                                                            *)
EXTENDS BrokerView, Json

Trace == ndJsonDeserialize("trace.ndjson")
VARIABLE l
tvars == <<vars, l>>
ASSUME TLCSet(1, 0)
Ev(e) == l <= Len(Trace) /\ Trace[l].ev = e /\ l' = l + 1
Line == Trace[l]

TraceInit == l = 1 /\ Init
TReset == /\ Ev("Reset")
          /\ pendD' = << >> /\ pendN' = << >> /\ pendS' = << >>
          /\ bDbs' = {} /\ bNodes' = {} /\ bLive' = {} /\ bShards' = Empty /\ chans' = Empty

SeqToSet(q) == {q[i] : i \in 1..Len(q)}
\* JSON: {"db": {"<shard>": {state, leader}}}
ShardsOf(j) == [db \in DOMAIN j |-> [sid \in {x \in 0..63 : ToString(x) \in DOMAIN j[db]} |->
                   [state |-> j[db][ToString(sid)].state, leader |-> j[db][ToString(sid)].leader]]]

TPutDb == Ev("PutDb") /\ PutDb(Line.db)
TDropDb == Ev("DropDb") /\ DropDb(Line.db)
TBrokerUp == Ev("BrokerUp") /\ BrokerUp(Line.b)
TBrokerDown == Ev("BrokerDown") /\ BrokerDown(Line.b)
TPublish == Ev("Publish") /\ Publish([live |-> SeqToSet(Line.live), shards |-> ShardsOf(Line.shards)])
\* which databases a notification reached before a missing config ended it is not logged: some subset explains it
TProc == /\ Ev("Proc")
         /\ CASE Line.w = "D" -> ProcDb
              [] Line.w = "N" -> ProcNode
              [] Line.w = "S" -> \E done \in SUBSET (DOMAIN Head(pendS).shards) : ProcState(done)

QueryEq(j, db) ==
  IF QueryErr(db) # "ok" THEN j = QueryErr(db)
  ELSE LET q == Queryable(db) IN
       /\ DOMAIN j = {ToString(n) : n \in DOMAIN q}
       /\ \A n \in DOMAIN q : SeqToSet(j[ToString(n)]) = q[n] /\ Len(j[ToString(n)]) = Cardinality(q[n])

TProj ==
  /\ Ev("Proj")
  /\ SeqToSet(Line.dbs) = bDbs
  /\ Len(Line.brokers) = Cardinality(bNodes)
  /\ SeqToSet(Line.live) = bLive
  /\ ShardsOf(Line.shards) = bShards
  /\ \A db \in DOMAIN Line.query : QueryEq(Line.query[db], db)
  /\ \A db \in DOMAIN Line.writable : Line.writable[db] = (db \in DOMAIN chans)
  /\ UNCHANGED vars

\* over how many shards the rows of a batch of 64 series were hashed (the highest shard that received a chunk + 1; that
\* a shard of the routing count gets none of 64 series has probability below 2^-30)
TRoute == Ev("Route") /\ Line.db \in DOMAIN chans /\ Line.count = chans[Line.db].n /\ UNCHANGED vars

TraceNext == TReset \/ TPutDb \/ TDropDb \/ TBrokerUp \/ TBrokerDown \/ TPublish \/ TProc \/ TProj \/ TRoute
TraceSpec == TraceInit /\ [][TraceNext]_tvars

HighWater == TLCSet(1, IF l > TLCGet(1) THEN l ELSE TLCGet(1))
TraceAccepted ==
  LET hw == TLCGet(1) IN
  IF hw = Len(Trace) + 1 THEN TRUE
  ELSE /\ PrintT(<<"TRACE-REJECTED-AT-LINE", hw>>)
       /\ FALSE
=============================================================================
