---------------------------- MODULE NodeRecovery ----------------------------
(***************************************************************************)
(* One storage node, one shard, one data family, one write-ahead-log       *)
(* partition whose local replicator applies the log to the family          *)
(* (replica/replicator_local.go, partition.go, tsdb/data_family.go,        *)
(* data_flush_checker.go, database.go, shard.go, memdb/database.go,        *)
(* index/metric_meta_database.go) -- property C07 (and the crash part of   *)
(* C09).  The building blocks are abstracted at the level justified by the *)
(* other modules: a kv commit is atomic (C01, KVStore), the log keeps what *)
(* was appended and its group positions are durable store by store (C05 /  *)
(* C06, WALQueue), dictionaries are maps with durable counters (IDDict).   *)
(*                                                                         *)
(* An entry of the log carries one point of one metric name.  Steps:       *)
(*   Append            Partition.WriteLog                                  *)
(*   ReplicaStep       local replicator: consume, ValidateSequence,        *)
(*                     WriteRows (a new name gets an id in the MUTABLE     *)
(*                     dictionary), CommitSequence                         *)
(*   MetaFlush         Database.FlushMeta: prepare-flush, counters synced, *)
(*                     dictionaries committed                              *)
(*   FamilyCommit      DataFamily.Flush: freeze (captures the sequence),   *)
(*                     table written, file + sequence in ONE manifest      *)
(*                     record                                              *)
(*   FamilyAck         the ack callback: log group acknowledged            *)
(*   Crash / Recover   process death; reopen: family sequence := recorded  *)
(*                     sequence, replicator rewinds to ack + 1 (and        *)
(*                     re-acknowledges the recorded sequence)              *)
(* FreezeBeforeMetaFlush = FALSE is the order of the code (meta, index,    *)
(* data); TRUE is the order that would close the durability gap recorded   *)
(* as a known finding (a name created between the metadata prepare-flush   *)
(* and the family freeze is in the committed table but not in the durable  *)
(* dictionary).                                                            *)
(***************************************************************************)
EXTENDS Integers, Sequences, FiniteSets, TLC

CONSTANTS FreezeBeforeMetaFlush,
          CommitSeqBeforeWrite,  \* the replicator commits the sequence before it writes the rows (seeded change C07b)
          SeriesFirst,           \* the index flush commits the series family before the index families (seeded change C07c)
          ExpireOnConsumed,      \* the log of an expired family counts as empty once everything is CONSUMED (seeded change C07d)
          IgnoreOverGap,         \* IgnoreMessage acknowledges an undecodable entry whenever it lies above the acknowledged position (seeded change C07f)
          Writable               \* late data of the family is still accepted (not older than the option `behind`): its log never expires

VARIABLES
  \* ---- durable ----
  wal,        \* Seq(name): entry with sequence s is wal[s + 1]
  gAck,       \* acknowledged position of the local replicator's group
  qAck,       \* queue-wide acknowledged position (FanOutQueue.Sync; a reloaded group is clamped to it)
  dDict,      \* durable dictionary name -> id
  dCounter,   \* durable id counter
  dFiles,     \* set of [id, seq, gen]: points in committed data files (gen = which flush wrote it)
  dSeq,       \* sequence recorded with the data files
  \* ---- volatile ----
  up, gCons, fSeq,
  mDict, mCounter,      \* memory dictionary (mutable + immutable), memory counter
  mem, imm, immSeq,     \* mutable memdb: set of [id, seq]; frozen memdb and the sequence captured at freeze
  gen,
  ifl,                  \* the in-flight round of the local replicator: [seq, st, ok]
  dSer, dIdx,           \* durable: names whose series exists / whose index entries (metric, forward, inverted) exist
  mSer, mIdx, iSer, iIdx,  \* the same in the mutable and in the immutable (being flushed) stores of the shard index
  idxPhase,             \* "idle" | "prepared" | "half": progress of one index flush
  badIdx,               \* ghost: keys whose index entries survived a crash that their dictionary entry did not survive
  \* ---- ghost ----
  pendAck               \* a committed flush whose ack callback has not run yet

ixvars == <<dSer, dIdx, mSer, mIdx, iSer, iIdx, idxPhase, badIdx>>
vars == <<wal, gAck, qAck, dDict, dCounter, dFiles, dSeq, up, gCons, fSeq, mDict, mCounter, mem, imm, immSeq, gen, ifl, pendAck, ixvars>>

Empty == [n \in {} |-> 0]
Merge(f, g) == [n \in (DOMAIN f) \cup (DOMAIN g) |-> IF n \in DOMAIN f THEN f[n] ELSE g[n]]
AllDict == Merge(dDict, mDict)
AckTo(s, c, a) == IF s >= a /\ s <= c THEN s ELSE a
NoIfl == [seq |-> -1, st |-> "none", ok |-> FALSE]
\* GenSeriesID: the series of a row is looked up by (metric ID, tags hash) -- the tags are the same for every
\* entry here, so the key is the metric id.  An unknown key (in no store of the series family) gets a series AND
\* its index entries (metric inverted, forward, inverted index); a known series is not indexed again
AllSer == dSer \cup iSer \cup mSer
AllIdx == dIdx \cup iIdx \cup mIdx
IndexWrite(k) == IF k \in AllSer THEN UNCHANGED <<mSer, mIdx>>
                 ELSE mSer' = mSer \cup {k} /\ mIdx' = mIdx \cup {k}
IdUsed(n) == IF n \in DOMAIN AllDict THEN AllDict[n] ELSE mCounter

Init ==
  /\ wal = << >> /\ gAck = -1 /\ qAck = -1 /\ dDict = Empty /\ dCounter = 0 /\ dFiles = {} /\ dSeq = -1
  /\ up = TRUE /\ gCons = -1 /\ fSeq = -1
  /\ mDict = Empty /\ mCounter = 0 /\ mem = {} /\ imm = {} /\ immSeq = -1 /\ gen = 0 /\ ifl = NoIfl /\ pendAck = FALSE
  /\ dSer = {} /\ dIdx = {} /\ mSer = {} /\ mIdx = {} /\ iSer = {} /\ iIdx = {} /\ idxPhase = "idle" /\ badIdx = {}

AppendEntry(n) ==
  /\ up
  /\ wal' = Append(wal, n)
  /\ UNCHANGED <<gAck, qAck, dDict, dCounter, dFiles, dSeq, up, gCons, fSeq, mDict, mCounter, mem, imm, immSeq, gen, ifl, pendAck, ixvars>>

\* an entry whose payload cannot be decoded (not a compressed block): the replicator skips it (IgnoreMessage: acknowledged
\* only when it lies directly behind the acknowledged position, so that no good entry below it is acknowledged with it)
Bad(n) == n = "bad"
IgnoreAck(s) == IF IgnoreOverGap THEN (IF gAck < s THEN s ELSE gAck) ELSE (IF gAck + 1 = s THEN s ELSE gAck)

\* one round of the local replicator
ReplicaStep ==
  /\ up /\ ifl = NoIfl /\ gCons + 1 <= Len(wal) - 1
  /\ LET s == gCons + 1  n == wal[s + 1] IN
     /\ gCons' = s
     /\ IF s > fSeq /\ Bad(n)
          THEN \* the message cannot be decoded: nothing is written, the sequence is committed, IgnoreMessage
               /\ fSeq' = s /\ gAck' = IgnoreAck(s)
               /\ UNCHANGED <<mem, mDict, mCounter, mSer, mIdx>>
          ELSE IF s > fSeq
          THEN /\ IF n \in DOMAIN AllDict
                    THEN /\ mem' = mem \cup {[id |-> AllDict[n], seq |-> s]}
                         /\ UNCHANGED <<mDict, mCounter>>
                    ELSE /\ mDict' = Merge(mDict, [x \in {n} |-> mCounter])
                         /\ mCounter' = mCounter + 1
                         /\ mem' = mem \cup {[id |-> mCounter, seq |-> s]}
               /\ fSeq' = s /\ UNCHANGED gAck
               /\ IndexWrite(IdUsed(n))
          ELSE UNCHANGED <<mem, mDict, mCounter, fSeq, mSer, mIdx, gAck>>       \* ValidateSequence rejects: already persisted
  /\ UNCHANGED <<wal, qAck, dDict, dCounter, dFiles, dSeq, up, imm, immSeq, gen, ifl, pendAck, dSer, dIdx, iSer, iIdx, idxPhase, badIdx>>

\* The same round in the three steps of localReplicator.Replica, so that the flush job can fall between
\* them (the replicator and the flush checker are different goroutines; no lock spans the round):
\*   RBegin   consume + ValidateSequence          RWrite   family.WriteRows (ids for new names)
\*   RCommit  the deferred family.CommitSequence
RBegin ==
  /\ up /\ ifl = NoIfl /\ gCons + 1 <= Len(wal) - 1
  /\ LET s == gCons + 1 IN
     /\ gCons' = s
     /\ ifl' = [seq |-> s, st |-> "validated", ok |-> s > fSeq]
     /\ fSeq' = IF CommitSeqBeforeWrite /\ s > fSeq THEN s ELSE fSeq
  /\ UNCHANGED <<wal, gAck, qAck, dDict, dCounter, dFiles, dSeq, up, mDict, mCounter, mem, imm, immSeq, gen, pendAck, ixvars>>

RWrite ==
  /\ up /\ ifl.st = "validated"
  /\ ifl' = [ifl EXCEPT !.st = "written"]
  /\ LET s == ifl.seq  n == wal[s + 1] IN
     IF ifl.ok /\ Bad(n)
       THEN UNCHANGED <<mem, mDict, mCounter>>
       ELSE IF ifl.ok
       THEN IF n \in DOMAIN AllDict
              THEN /\ mem' = mem \cup {[id |-> AllDict[n], seq |-> s]}
                   /\ UNCHANGED <<mDict, mCounter>>
              ELSE /\ mDict' = Merge(mDict, [x \in {n} |-> mCounter])
                   /\ mCounter' = mCounter + 1
                   /\ mem' = mem \cup {[id |-> mCounter, seq |-> s]}
       ELSE UNCHANGED <<mem, mDict, mCounter>>
  /\ IF ifl.ok /\ ~Bad(wal[ifl.seq + 1]) THEN IndexWrite(IdUsed(wal[ifl.seq + 1])) ELSE UNCHANGED <<mSer, mIdx>>
  /\ UNCHANGED <<wal, gAck, qAck, dDict, dCounter, dFiles, dSeq, up, gCons, fSeq, imm, immSeq, gen, pendAck, dSer, dIdx, iSer, iIdx, idxPhase, badIdx>>

RCommit ==
  /\ up /\ ifl.st = "written"
  /\ ifl' = NoIfl
  /\ fSeq' = IF ifl.ok /\ ~CommitSeqBeforeWrite THEN ifl.seq ELSE fSeq
  /\ gAck' = IF ifl.ok /\ Bad(wal[ifl.seq + 1]) THEN IgnoreAck(ifl.seq) ELSE gAck
  /\ UNCHANGED <<wal, qAck, dDict, dCounter, dFiles, dSeq, up, gCons, mDict, mCounter, mem, imm, immSeq, gen, pendAck, ixvars>>

Freeze == imm' = mem /\ mem' = {} /\ immSeq' = fSeq

\* Database.FlushMeta (counter sync + dictionary commits; atomic per C01/C09)
MetaFlush ==
  /\ up /\ ~pendAck      \* the flush job runs its stages one after the other
  /\ (FreezeBeforeMetaFlush => (idxPhase = "idle" /\ imm = {}))   \* ... and, in the repaired order, one job at a time
  /\ dCounter' = mCounter
  /\ dDict' = Merge(dDict, mDict) /\ mDict' = Empty
  /\ IF FreezeBeforeMetaFlush /\ imm = {} THEN Freeze ELSE UNCHANGED <<imm, mem, immSeq>>
  \* (the order that closes the gap takes the prepare-flush of the shard index at the same point)
  /\ IF FreezeBeforeMetaFlush /\ idxPhase = "idle"
       THEN iSer' = mSer /\ iIdx' = mIdx /\ mSer' = {} /\ mIdx' = {} /\ idxPhase' = "prepared"
       ELSE UNCHANGED <<mSer, mIdx, iSer, iIdx, idxPhase>>
  /\ UNCHANGED <<wal, gAck, qAck, dFiles, dSeq, up, gCons, fSeq, mCounter, gen, ifl, pendAck, dSer, dIdx, badIdx>>

\* DataFamily.Flush, first half: the mutable memory database becomes immutable and the replica
\* sequence is captured (writes arriving later go to a new memory database)
FamilyFreeze ==
  /\ up /\ ~FreezeBeforeMetaFlush /\ imm = {} /\ mem # {} /\ ~pendAck
  /\ Freeze
  /\ UNCHANGED <<wal, gAck, qAck, dDict, dCounter, dFiles, dSeq, up, gCons, fSeq, mDict, mCounter, gen, ifl, pendAck, ixvars>>

\* ... second half: table written, file + captured sequence committed in ONE manifest record
FamilyCommit ==
  /\ up /\ ~pendAck /\ imm # {} /\ idxPhase = "idle"      \* the flush job: metadata, index, then the data
  /\ dFiles' = dFiles \cup {[id |-> b.id, seq |-> b.seq, gen |-> gen] : b \in imm}
  /\ dSeq' = IF immSeq > dSeq THEN immSeq ELSE dSeq
  /\ imm' = {}
  /\ gen' = gen + 1 /\ pendAck' = TRUE
  /\ UNCHANGED <<wal, gAck, qAck, dDict, dCounter, up, gCons, fSeq, mDict, mCounter, mem, immSeq, ifl, ixvars>>

\* both halves in one step (what a sequential driver observes of one DataFamily.Flush call)
FamilyFreezeAndCommit ==
  /\ up /\ ~FreezeBeforeMetaFlush /\ imm = {} /\ mem # {} /\ ~pendAck /\ idxPhase = "idle"
  /\ dFiles' = dFiles \cup {[id |-> b.id, seq |-> b.seq, gen |-> gen] : b \in mem}
  /\ dSeq' = IF fSeq > dSeq THEN fSeq ELSE dSeq
  /\ mem' = {} /\ immSeq' = fSeq
  /\ gen' = gen + 1 /\ pendAck' = TRUE
  /\ UNCHANGED <<wal, gAck, qAck, dDict, dCounter, up, gCons, fSeq, mDict, mCounter, imm, ifl, ixvars>>

\* ... the ack callbacks after the commit
FamilyAck ==
  /\ up /\ pendAck
  /\ gAck' = AckTo(immSeq, gCons, gAck)
  /\ pendAck' = FALSE
  /\ UNCHANGED <<wal, qAck, dDict, dCounter, dFiles, dSeq, up, gCons, fSeq, mDict, mCounter, mem, imm, immSeq, gen, ifl, ixvars>>

\* Shard.FlushIndex: prepare-flush of the four index families, then their commits one family after the other: the
\* three index families first, the series family LAST (so that a series is durable only with its index entries)
base == <<wal, gAck, qAck, dDict, dCounter, dFiles, dSeq, up, gCons, fSeq, mDict, mCounter, mem, imm, immSeq, gen, ifl, pendAck>>
IdxPrepare ==
  /\ up /\ idxPhase = "idle" /\ ~FreezeBeforeMetaFlush
  /\ iSer' = mSer /\ iIdx' = mIdx /\ mSer' = {} /\ mIdx' = {} /\ idxPhase' = "prepared"
  /\ UNCHANGED <<base, dSer, dIdx, badIdx>>
CommitIdxPart == dIdx' = dIdx \cup iIdx /\ iIdx' = {} /\ UNCHANGED <<dSer, iSer>>
CommitSerPart == dSer' = dSer \cup iSer /\ iSer' = {} /\ UNCHANGED <<dIdx, iIdx>>
IdxCommitA ==
  /\ up /\ idxPhase = "prepared" /\ idxPhase' = "half"
  /\ IF SeriesFirst THEN CommitSerPart ELSE CommitIdxPart
  /\ UNCHANGED <<base, mSer, mIdx, badIdx>>
IdxCommitB ==
  /\ up /\ idxPhase = "half" /\ idxPhase' = "idle"
  /\ IF SeriesFirst THEN CommitIdxPart ELSE CommitSerPart
  /\ UNCHANGED <<base, mSer, mIdx, badIdx>>
IdxCommitBoth ==      \* both parts in one step (a part with nothing to flush commits nothing and is not observed)
  /\ up /\ idxPhase = "prepared" /\ idxPhase' = "idle"
  /\ dIdx' = dIdx \cup iIdx /\ iIdx' = {} /\ dSer' = dSer \cup iSer /\ iSer' = {}
  /\ UNCHANGED <<base, mSer, mIdx, badIdx>>

\* Partition.IsExpire: FanOutQueue.Sync (queue-wide position := smallest group position) + GC
SyncGC ==
  /\ up
  /\ LET m == IF gAck < Len(wal) - 1 THEN gAck ELSE Len(wal) - 1 IN
     qAck' = IF m >= 0 /\ m > qAck THEN m ELSE qAck
  /\ UNCHANGED <<wal, gAck, dDict, dCounter, dFiles, dSeq, up, gCons, fSeq, mDict, mCounter, mem, imm, immSeq, gen, ifl, pendAck, ixvars>>

\* Partition.IsExpire of a family that left the writable window (the periodic WAL GC task): Sync + GC, then the
\* log counts as expired when no consumer group has data (appended <= acknowledged); an expired log is destroyed
\* by the task (partition stopped and closed, directory removed): nothing is in the log afterwards.  While late
\* data of the family is still accepted the log must not expire: a new log would restart at sequence 0 and the
\* family, which validates every entry against the sequence it recorded for the leader, would drop the entries
ExpireCheck(res) ==
  /\ up /\ ifl.st = "none"
  /\ res = (~Writable /\ Len(wal) - 1 <= (IF ExpireOnConsumed THEN gCons ELSE gAck))
  /\ IF res
       THEN qAck' = Len(wal) - 1 /\ gAck' = Len(wal) - 1 /\ gCons' = Len(wal) - 1
       ELSE /\ LET m == IF gAck < Len(wal) - 1 THEN gAck ELSE Len(wal) - 1 IN
               qAck' = IF m >= 0 /\ m > qAck THEN m ELSE qAck
            /\ UNCHANGED <<gAck, gCons>>
  /\ UNCHANGED <<wal, dDict, dCounter, dFiles, dSeq, up, fSeq, mDict, mCounter, mem, imm, immSeq, gen, ifl, pendAck, ixvars>>

Crash ==
  /\ up /\ up' = FALSE
  /\ mDict' = Empty /\ mem' = {} /\ imm' = {} /\ pendAck' = FALSE /\ ifl' = NoIfl
  /\ mSer' = {} /\ mIdx' = {} /\ iSer' = {} /\ iIdx' = {} /\ idxPhase' = "idle"
  \* index entries (they carry tag key ids of the schema) whose metric / schema entry is lost with the memory:
  \* the replayed write finds the series and indexes nothing, its new tag key id is not the indexed one
  /\ badIdx' = badIdx \cup {k \in dIdx : ~\E n \in DOMAIN dDict : dDict[n] = k}
  /\ UNCHANGED <<wal, gAck, qAck, dDict, dCounter, dFiles, dSeq, gCons, fSeq, mCounter, immSeq, gen, dSer, dIdx>>

\* Beyond a process kill: the consumer group's meta page (positions are stored without a sync on
\* consume) was not written back, the node restarts with older group positions.  The data files and
\* their recorded sequence are current.  ValidateSequence is what then prevents a second apply.
LogRollback(c, a) ==
  /\ ~up /\ a <= c /\ c <= gCons /\ a <= gAck /\ a >= -1
  /\ gCons' = c /\ gAck' = a
  /\ UNCHANGED <<wal, qAck, dDict, dCounter, dFiles, dSeq, up, fSeq, mDict, mCounter, mem, imm, immSeq, gen, ifl, pendAck, ixvars>>

\* reopen: NewLocalReplicator registers the ack callback (invoked at once with the recorded sequence)
\* and rewinds the replica index to ack + 1
Recover ==
  /\ ~up /\ up' = TRUE
  /\ fSeq' = dSeq /\ mCounter' = dCounter /\ immSeq' = -1
  \* the group is reloaded (acknowledged clamped up to the queue-wide position, consumed with it), then
  \* the recorded sequence is acknowledged if it lies in the window, and the cursor rewinds to ack + 1
  /\ LET a0 == IF gAck < qAck THEN qAck ELSE gAck
         c0 == IF gCons < a0 THEN a0 ELSE gCons
         a == AckTo(dSeq, c0, a0)
     IN gAck' = a /\ gCons' = a
  /\ UNCHANGED <<wal, qAck, dDict, dCounter, dFiles, dSeq, mDict, mem, imm, gen, ifl, pendAck, ixvars>>

\* ------------------------------------------------------------------ properties (C07)
\* the log's acknowledged position never runs ahead of the sequence stored durably with the data
AckNotAhead == \A s \in (dSeq + 1)..gAck : Bad(wal[s + 1])      \* (an undecodable entry is skipped for good)
\* every appended entry is in durably flushed data or still above the log's acknowledged position
NoLoss == \A s \in 0..(Len(wal) - 1) : (\E b \in dFiles : b.seq = s) \/ (s > gAck /\ s > qAck) \/ Bad(wal[s + 1])
\* an entry at or below the stored sequence is never applied again
NoReapply == /\ \A b \in mem \cup imm : b.seq > dSeq \/ ~up
             /\ \A a, b \in dFiles : (a.seq = b.seq) => a.gen = b.gen
\* flushed data resolves through the DURABLE dictionary
FlushedResolves == \A b \in dFiles : wal[b.seq + 1] \in DOMAIN dDict /\ dDict[wal[b.seq + 1]] = b.id
\* C09 (crash part): no name holds an id that data files use for another name
\* a series is never known without its index entries (else a replayed write does not index it again and the
\* data is unreachable by metric / tag)
SeriesIndexed == AllSer \subseteq AllIdx
\* durable index entries resolve through the durable dictionary (same durability gap as FlushedResolves, seen in the index)
IndexedResolves == badIdx = {}
\* data that is acknowledged to the log (never replayed) has durable index entries -- else a crash leaves it
\* unreachable by metric / tag for good (the same gap: a write between the index prepare-flush and the family freeze)
AckedDataIndexed == \A b \in dFiles : b.seq <= gAck => b.id \in dIdx
NoIdReuse == \A b \in dFiles : \A n \in DOMAIN AllDict : AllDict[n] = b.id => n = wal[b.seq + 1]
=============================================================================
