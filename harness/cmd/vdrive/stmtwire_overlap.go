package main

// vdrive stmtwire, scripted overlapping parse calls -- property C17 (module StmtWire: Begin / End / ResultOf).
//
// NEEDS the `verif` hook sql.VerifGetSQLParserFunc / sql.VerifSetSQLParserFunc (/repo/sql/zz_verif.go): this file
// is kept as stmtwire_overlap.go.pending until that hook is committed, and must get its real name together with it.
//
// sql.Parse obtains its parser through a package-level function variable, called when the token stream of the
// call exists and nothing has been read from it yet.  The driver puts a function there that, before handing
// over the real parser, runs further calls of sql.Parse: a second call begins INSIDE the first one (the
// interleaving a preempted goroutine produces), on the same goroutine or on another one the first call waits for.
// Every call is logged as ParseBegin ... ParseEnd with its result; the trace specification compares the result
// with what the sequential parses of the same trace (ParseRef) returned for that text.
//
// Histories over the fixed list of texts of the concurrent leg:
//   pair     Parse(A){ Parse(B) }             every ordered pair of the list, B = A included
//   deep     Parse(A){ Parse(B){ Parse(C) } }
//   twice    Parse(A){ Parse(B); Parse(C) }
//   handoff  Parse(A){ go Parse(B); wait }    the second call runs on another goroutine
// each set once with a single P and once with all Ps.

import (
	"math/rand"
	"runtime"
	"sync/atomic"

	"github.com/antlr4-go/antlr/v4"

	"github.com/lindb/lindb/sql"
	"github.com/lindb/lindb/sql/grammar"

	"verif/harness/internal/trace"
)

func init() { swOverlapLeg = swOverlap }

// one scripted call: the text, and the calls started inside its window
type swNest struct {
	text    int
	inside  []swNest
	handoff bool // runs on another goroutine while the enclosing call waits inside its window
}

type swOverlapRun struct {
	r       *swRun
	texts   []swText
	clock   atomic.Int64
	next    int
	arm     *swNest // the call that is about to reach the seam
	windows int     // windows in which at least one further call ran
}

func (o *swOverlapRun) call(n *swNest) {
	o.next++
	id, t := o.next, o.texts[n.text]
	o.r.rec.Emit("ParseBegin", trace.F{"call": id, "text": t.text})
	o.r.kind["ParseBegin"]++
	o.arm = n
	c := swCall{}
	c.run(t.text, &o.clock)
	o.arm = nil
	o.r.rec.Emit("ParseEnd", trace.F{"call": id, "text": t.text, "abs": t.abs, "r": swResult(c.s, c.err, c.panicked)})
	o.r.kind["ParseEnd"]++
}

// the window of the call that reached the seam: its token stream exists, the parser has not pulled a token yet
func (o *swOverlapRun) window() {
	n := o.arm
	o.arm = nil
	if n == nil || len(n.inside) == 0 {
		return
	}
	o.windows++
	for i := range n.inside {
		in := &n.inside[i]
		if !in.handoff {
			o.call(in)
			continue
		}
		done := make(chan struct{})
		go func() {
			defer close(done)
			o.call(in)
		}()
		<-done
	}
}

func swOverlap(r *swRun, texts []swText, rng *rand.Rand) {
	o := &swOverlapRun{r: r, texts: texts}
	real := sql.VerifGetSQLParserFunc()
	restore := sql.VerifSetSQLParserFunc(func(tokens *antlr.CommonTokenStream) *grammar.SQLParser {
		o.window()
		return real(tokens)
	})
	defer restore()
	n := len(texts)
	pick := func() int { return rng.Intn(n) }
	hist := []swNest{}
	for a := 0; a < n; a++ {
		for b := 0; b < n; b++ {
			hist = append(hist, swNest{text: a, inside: []swNest{{text: b}}})
		}
	}
	for i := 0; i < 3*n; i++ {
		hist = append(hist,
			swNest{text: pick(), inside: []swNest{{text: pick(), inside: []swNest{{text: pick()}}}}},
			swNest{text: pick(), inside: []swNest{{text: pick()}, {text: pick()}}},
			swNest{text: pick(), inside: []swNest{{text: pick(), handoff: true}}})
	}
	for _, procs := range []int{1, 0} {
		r.rec.Reset(trace.F{"kind": "overlap", "procs": procs})
		for i := range texts {
			r.parseRef(&texts[i])
			r.parseRef(&texts[i])
		}
		old := 0
		if procs > 0 {
			old = runtime.GOMAXPROCS(procs)
		}
		for i := range hist {
			o.call(&hist[i])
		}
		if procs > 0 {
			runtime.GOMAXPROCS(old)
		}
	}
	r.overlapWindows = o.windows
}
