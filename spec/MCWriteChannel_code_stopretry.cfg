CONSTANTS
  Node = {n1, n2}
  None = None
  K = 2
  ChCap = 2
  MaxRetry = 1
  RetryDup = FALSE
  StopDropsRetry = TRUE
  StickyNotify = FALSE
  StopChunkFirst = FALSE
  RetryOnTick = TRUE
  TimerPushUnguarded = FALSE
  CloseOnDrop = TRUE
  MaxRow = 4
  MaxFaults = 2
  MaxLeader = 2
  AllowStop = TRUE
  AllowCancel = FALSE
  AllowAbort = FALSE
  AllowTimer = TRUE
  FaultsOnlyBeforeStop = TRUE
SPECIFICATION MCSpec
SYMMETRY Sym
INVARIANTS StopDelivers
CHECK_DEADLOCK FALSE
