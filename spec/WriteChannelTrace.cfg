CONSTANTS
  Node = {1, 2, 3}
  None = None
  K = 3
  ChCap = 2
  MaxRetry = 100
  RetryDup = TRUE
  StopDropsRetry = TRUE
  StickyNotify = TRUE
  StopChunkFirst = TRUE
  RetryOnTick = FALSE
  TimerPushUnguarded = TRUE
  CloseOnDrop = FALSE
SPECIFICATION TraceSpec
INVARIANTS TypeOK Conservation ChunksAreRuns FaultFreeOnce
CONSTRAINT HighWater
POSTCONDITION TraceAccepted
CHECK_DEADLOCK FALSE
