\* the code (after the repairs of the creation time key, of Close and of the writer registration 81b03b7; WriteRows in its two steps): the properties that hold for the code
CONSTANTS
  Leader = {1}
  MaxRow = 2
  MaxObj = 2
  MaxDb = 3
  MaxFail = 1
  MaxRef = 1
  DoubleWindow = TRUE
  CloseLocksFirst = FALSE
  RetryFailed = FALSE
  ClosedRejects = FALSE
  AtomicWrite = FALSE
  RegisterAtGet = TRUE
  AtomicEvict = FALSE
  UniqueStamp = TRUE
  EvictChecksRef = TRUE
  EvictChecksMem = TRUE
  CloseFlushes = TRUE
  AckFrozen = TRUE
SPECIFICATION MCSpec
INVARIANTS TypeOK FlushShape FlushedOnce AckNotAhead AckedRowsDurable ClosedIsFlushed NoStuck
PROPERTIES FlushedNeverGrows NoWriteIntoClosed
CHECK_DEADLOCK FALSE
