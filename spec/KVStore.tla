------------------------------- MODULE KVStore -------------------------------
(***************************************************************************)
(* Durable part of lindb's kv store (kv/store.go, family.go, flusher.go,   *)
(* compact_job.go, version/version_set.go, version/edit_log.go, log.go) -- *)
(* property C01.  One action per file-system operation (the seams of the   *)
(* code): OPTIONS replace, MANIFEST create / append+sync, CURRENT.tmp      *)
(* write, rename, manifest / table removal, table create / close.  Crash   *)
(* is enabled between any two of them, also inside recovery.               *)
(*                                                                         *)
(* A manifest record is                                                    *)
(*   [fam, adds, dels, seq, nfn, madds, mdels]                             *)
(* fam = 0 is the store-level record; adds/dels are sets of <<level,num>>; *)
(* seq = -1 means "no sequence logged"; nfn = 0 means "no next file number *)
(* logged"; madds/mdels add and delete marks: rollup files <<"r",num,i>>   *)
(* and reference files <<"ref",store,fam,num>>.                            *)
(*                                                                         *)
(* Quirk of the code that is modelled, not idealised: a family edit log    *)
(* carries a next-file-number entry, and applying it (in recovery AND at a *)
(* live commit) sets manifestFileNumber := n, nextFileNumber := n + 1.     *)
(* Mutation switches (all FALSE for the real tree) exist only to show that *)
(* the model is sensitive to the orderings the property is about.          *)
(***************************************************************************)
EXTENDS Integers, Sequences, FiniteSets, TLC

CONSTANTS SwitchCurrentEarly,   \* CURRENT renamed before the snapshot is written
          NoNextFileNumberLog,  \* commits do not log the next file number
          StoreSnapshotLogsManifest \* snapshot store record logs the manifest number (seeded change C01a)

VARIABLES
  \* ---- disk ----
  optfams,      \* family ids recorded in OPTIONS
  manifests,    \* [number -> Seq(record)]
  current, currentTmp,   \* manifest number named by CURRENT / CURRENT.tmp (0 = file absent)
  tables,       \* set of [fam, num, st, content], st \in {"partial","complete"}
  \* ---- memory ----
  phase,        \* "down" "mkman" "snap" "store" "tmp" "rename" "gc" "ready" "failed"
  fams, nfn, mfn, openMan,
  ver,          \* [fam -> [files, seq, marks]]
  pending,      \* set of <<fam, num>>: outputs of unfinished writers
  snapTodo,
  snaps,        \* [reader -> [fam, files]]: open snapshots (each retains the version it was taken from)
  \* ---- ghost ----
  committed,    \* what the durably committed operations produced: same shape as ver
  ccontent      \* [fam -> set of <<key, atom>>]: content committed by flushes

vars == <<optfams, manifests, current, currentTmp, tables, phase, fams, nfn, mfn, openMan,
          ver, pending, snapTodo, snaps, committed, ccontent>>
disk == <<optfams, manifests, current, currentTmp, tables>>

EmptyV == [files |-> {}, seq |-> -1, marks |-> {}]
Empty == [x \in {} |-> 0]
Put1(f, k, v) == [x \in (DOMAIN f) \cup {k} |-> IF x = k THEN v ELSE f[x]]
Del1(f, k) == [x \in (DOMAIN f) \ {k} |-> f[x]]

Init ==
  /\ optfams = {} /\ manifests = Empty /\ current = 0 /\ currentTmp = 0 /\ tables = {}
  /\ phase = "down" /\ fams = {} /\ nfn = 2 /\ mfn = 1 /\ openMan = 0
  /\ ver = Empty /\ pending = {} /\ snapTodo = {} /\ snaps = Empty
  /\ committed = Empty /\ ccontent = Empty

Rec(f, adds, dels, seq, n, madds, mdels) ==
  [fam |-> f, adds |-> adds, dels |-> dels, seq |-> seq, nfn |-> n, madds |-> madds, mdels |-> mdels]

ApplyV(v, r) == [files |-> (v.files \ r.dels) \cup r.adds,
                 seq   |-> IF r.seq >= 0 THEN r.seq ELSE v.seq,
                 marks |-> (v.marks \ r.mdels) \cup r.madds]

\* replay of a manifest: st = [nfn, mfn, ver, ok]
RECURSIVE Replay(_, _)
Replay(recs, st) ==
  IF recs = << >> THEN st
  ELSE LET r == Head(recs)
           st1 == IF r.fam = 0
                    THEN IF r.nfn > 0 THEN [st EXCEPT !.mfn = r.nfn, !.nfn = r.nfn + 1] ELSE st
                  ELSE IF r.fam \notin DOMAIN st.ver
                    THEN [st EXCEPT !.ok = FALSE]       \* "cannot get family version by id"
                  ELSE LET v2 == [st EXCEPT !.ver[r.fam] = ApplyV(@, r)]
                       IN IF r.nfn > 0 THEN [v2 EXCEPT !.mfn = r.nfn, !.nfn = r.nfn + 1] ELSE v2
       IN Replay(Tail(recs), st1)

Recovered == {"mkman", "snap", "store", "tmp", "rename", "gc", "ready"}

\* ------------------------------------------------------------------ open / recovery
\* newStore: families of OPTIONS get their (empty) versions, Recover() replays CURRENT's manifest
OpenBegin ==
  /\ phase = "down"
  /\ fams' = optfams
  /\ LET st0 == [nfn |-> 2, mfn |-> 1, ver |-> [f \in optfams |-> EmptyV], ok |-> TRUE]
         st == IF current = 0 THEN st0
               ELSE IF current \notin DOMAIN manifests THEN [st0 EXCEPT !.ok = FALSE]
               ELSE Replay(manifests[current], st0)
     IN /\ nfn' = st.nfn /\ mfn' = st.mfn /\ ver' = st.ver
        /\ phase' = IF ~st.ok THEN "failed" ELSE IF SwitchCurrentEarly THEN "tmp" ELSE "mkman"
  /\ pending' = {} /\ snapTodo' = {} /\ openMan' = 0 /\ snaps' = Empty
  /\ UNCHANGED <<disk, committed, ccontent>>

\* dumpStoreInfo: OPTIONS is replaced atomically (tmp + rename inside lindb/common)
OptionsWrite(fs) ==
  /\ phase \in {"mkman", "ready"}
  /\ optfams' = fs
  /\ fams' = fams \cup fs
  /\ ver' = [f \in (DOMAIN ver) \cup fs |-> IF f \in DOMAIN ver THEN ver[f] ELSE EmptyV]
  /\ committed' = [f \in (DOMAIN committed) \cup fs |-> IF f \in DOMAIN committed THEN committed[f] ELSE EmptyV]
  /\ ccontent' = [f \in (DOMAIN ccontent) \cup fs |-> IF f \in DOMAIN ccontent THEN ccontent[f] ELSE {}]
  /\ UNCHANGED <<manifests, current, currentTmp, tables, phase, nfn, mfn, openMan, pending, snapTodo, snaps>>

\* initJournal: os.Create truncates an existing file of that name
ManifestCreate(n) ==
  /\ phase = "mkman" /\ n = mfn
  /\ manifests' = Put1(manifests, n, << >>)
  /\ snapTodo' = fams
  /\ phase' = IF fams = {} THEN "store" ELSE "snap"
  /\ UNCHANGED <<optfams, current, currentTmp, tables, fams, nfn, mfn, openMan, ver, pending, snaps, committed, ccontent>>

SnapRec(f) == Rec(f, ver[f].files, {}, ver[f].seq, 0, ver[f].marks, {})

\* createSnapshot + persistEditLogs: one write+sync per family, any order
SnapshotRecord(f) ==
  /\ phase = "snap" /\ f \in snapTodo
  /\ manifests' = [manifests EXCEPT ![mfn] = Append(@, SnapRec(f))]
  /\ snapTodo' = snapTodo \ {f}
  /\ phase' = IF snapTodo = {f} THEN "store" ELSE "snap"
  /\ UNCHANGED <<optfams, current, currentTmp, tables, fams, nfn, mfn, openMan, ver, pending, snaps, committed, ccontent>>

StoreRec == Rec(0, {}, {}, -1, IF StoreSnapshotLogsManifest THEN mfn ELSE nfn, {}, {})

StoreRecord ==
  /\ phase = "store"
  /\ manifests' = [manifests EXCEPT ![mfn] = Append(@, StoreRec)]
  /\ phase' = IF SwitchCurrentEarly THEN "gc" ELSE "tmp"
  /\ openMan' = IF SwitchCurrentEarly THEN mfn ELSE openMan
  /\ UNCHANGED <<optfams, current, currentTmp, tables, fams, nfn, mfn, ver, pending, snapTodo, snaps, committed, ccontent>>

CurrentTmpWrite(n) ==
  /\ phase = "tmp" /\ n = mfn
  /\ currentTmp' = n
  /\ phase' = "rename"
  /\ UNCHANGED <<optfams, manifests, current, tables, fams, nfn, mfn, openMan, ver, pending, snapTodo, snaps, committed, ccontent>>

CurrentRename ==
  /\ phase = "rename"
  /\ current' = currentTmp /\ currentTmp' = 0
  /\ IF SwitchCurrentEarly THEN phase' = "mkman" /\ UNCHANGED openMan
                           ELSE phase' = "gc" /\ openMan' = mfn
  /\ UNCHANGED <<optfams, manifests, tables, fams, nfn, mfn, ver, pending, snapTodo, snaps, committed, ccontent>>

\* store.deleteObsoleteFiles: every MANIFEST-* except the one named by ManifestFileNumber()
RemoveManifest(n) ==
  /\ phase = "gc" /\ n \in DOMAIN manifests /\ n # mfn
  /\ manifests' = Del1(manifests, n)
  /\ UNCHANGED <<optfams, current, currentTmp, tables, phase, fams, nfn, mfn, openMan, ver, pending, snapTodo, snaps, committed, ccontent>>

RollupNums(f) == {m[2] : m \in {x \in ver[f].marks : x[1] = "r"}}
FileNums(f) == {x[2] : x \in ver[f].files}
LiveNums(f) == FileNums(f) \cup RollupNums(f) \cup {p[2] : p \in {q \in pending : q[1] = f}}

\* files of the versions that open snapshots retain (GetAllActiveFiles covers them)
SnapNums(f) == UNION {{x[2] : x \in snaps[id].files} : id \in {i \in DOMAIN snaps : snaps[i].fam = f}}

\* family.deleteObsoleteFiles: a table that is in no active version, not pending, not a live rollup file
RemoveTable(f, n) ==
  /\ phase \in {"gc", "ready"}
  /\ \E t \in tables : t.fam = f /\ t.num = n
  /\ n \notin LiveNums(f)
  /\ n \notin SnapNums(f)
  /\ tables' = {t \in tables : ~(t.fam = f /\ t.num = n)}
  /\ UNCHANGED <<optfams, manifests, current, currentTmp, phase, fams, nfn, mfn, openMan, ver, pending, snapTodo, snaps, committed, ccontent>>

OpenEnd ==
  /\ phase = "gc"
  /\ phase' = "ready"
  /\ UNCHANGED <<disk, fams, nfn, mfn, openMan, ver, pending, snapTodo, snaps, committed, ccontent>>

\* ------------------------------------------------------------------ writers (flush / compaction / rollup)
\* family.newTableBuilder, first half: NextFileNumber() and addPendingOutput
TableAlloc(f, n) ==
  /\ phase = "ready" /\ f \in fams /\ n = nfn
  /\ nfn' = nfn + 1
  /\ pending' = pending \cup {<<f, n>>}
  /\ UNCHANGED <<disk, phase, fams, mfn, openMan, ver, snapTodo, snaps, committed, ccontent>>

\* ... second half: os.Create of the table file (another writer may allocate in between)
TableCreate(f, n) ==
  /\ phase = "ready" /\ <<f, n>> \in pending
  /\ ~\E t \in tables : t.fam = f /\ t.num = n /\ t.st = "complete"
  /\ tables' = {t \in tables : ~(t.fam = f /\ t.num = n)} \cup {[fam |-> f, num |-> n, st |-> "partial", content |-> {}]}
  /\ UNCHANGED <<optfams, manifests, current, currentTmp, phase, fams, nfn, mfn, openMan, ver, pending, snapTodo, snaps, committed, ccontent>>

\* both halves in one step (a store with one writer at a time)
TableAllocCreate(f, n) ==
  /\ phase = "ready" /\ f \in fams /\ n = nfn
  /\ nfn' = nfn + 1
  /\ pending' = pending \cup {<<f, n>>}
  /\ tables' = {t \in tables : ~(t.fam = f /\ t.num = n)} \cup {[fam |-> f, num |-> n, st |-> "partial", content |-> {}]}
  /\ UNCHANGED <<optfams, manifests, current, currentTmp, phase, fams, mfn, openMan, ver, snapTodo, snaps, committed, ccontent>>

\* builder.Close: data flushed, footer written, file closed
TableClose(f, n, c) ==
  /\ phase = "ready" /\ <<f, n>> \in pending
  /\ \E t \in tables : t.fam = f /\ t.num = n /\ t.st = "partial"
  /\ tables' = {t \in tables : ~(t.fam = f /\ t.num = n)} \cup {[fam |-> f, num |-> n, st |-> "complete", content |-> c]}
  /\ UNCHANGED <<optfams, manifests, current, currentTmp, phase, fams, nfn, mfn, openMan, ver, pending, snapTodo, snaps, committed, ccontent>>

\* CommitFamilyEditLog: the record (with the next file number) is appended and synced, the new
\* version becomes current; applying the next-file-number entry moves the counters
\* (CommitOn: base = the version the edit is applied to.  The code takes it INSIDE the version-set lock, after the
\* record is persisted, so it is the current version: Commit.  A base read earlier is stale as soon as another
\* commit of the family gets in between -- the concurrency instance MCKVReaders has a switch for that order.)
CommitOn(base, r, newcontent) ==
  /\ phase = "ready" /\ r.fam \in fams
  /\ r.nfn = (IF NoNextFileNumberLog THEN 0 ELSE nfn)
  \* a file enters a version only when its table is closed (or it already was in the version: move)
  /\ \A x \in r.adds : \/ x[2] \in {y[2] : y \in ver[r.fam].files}
                        \/ (<<r.fam, x[2]>> \in pending
                            /\ \E t \in tables : t.fam = r.fam /\ t.num = x[2] /\ t.st = "complete")
  /\ r.dels \subseteq ver[r.fam].files
  /\ manifests' = [manifests EXCEPT ![openMan] = Append(@, r)]
  /\ ver' = [ver EXCEPT ![r.fam] = ApplyV(base, r)]
  /\ committed' = [committed EXCEPT ![r.fam] = ApplyV(@, r)]
  /\ ccontent' = [ccontent EXCEPT ![r.fam] = @ \cup newcontent]
  /\ IF r.nfn > 0 THEN mfn' = r.nfn /\ nfn' = r.nfn + 1 ELSE UNCHANGED <<mfn, nfn>>
  /\ UNCHANGED <<optfams, current, currentTmp, tables, phase, fams, openMan, pending, snapTodo, snaps>>

Commit(r, newcontent) == CommitOn(IF r.fam \in DOMAIN ver THEN ver[r.fam] ELSE EmptyV, r, newcontent)

\* flusher.Commit / cleanupCompaction: the outputs stop being pending
Unpend(f, n) ==
  /\ phase = "ready" /\ <<f, n>> \in pending
  /\ pending' = pending \ {<<f, n>>}
  /\ UNCHANGED <<disk, phase, fams, nfn, mfn, openMan, ver, snapTodo, snaps, committed, ccontent>>

\* ------------------------------------------------------------------ readers
\* Family.GetSnapshot: the current version is retained
SnapAcquire(id, f) ==
  /\ phase = "ready" /\ f \in fams /\ id \notin DOMAIN snaps
  /\ snaps' = Put1(snaps, id, [fam |-> f, files |-> ver[f].files])
  /\ UNCHANGED <<disk, phase, fams, nfn, mfn, openMan, ver, pending, snapTodo, committed, ccontent>>

SnapClose(id) ==
  /\ id \in DOMAIN snaps
  /\ snaps' = Del1(snaps, id)
  /\ UNCHANGED <<disk, phase, fams, nfn, mfn, openMan, ver, pending, snapTodo, committed, ccontent>>

\* Snapshot.Close is idempotent: closing a closed snapshot releases nothing (in particular not the
\* retention another snapshot of the same version relies on)
SnapCloseAgain(id) ==
  /\ id \notin DOMAIN snaps
  /\ UNCHANGED vars

\* ------------------------------------------------------------------ process death / close
Crash ==
  /\ phase # "down"
  /\ phase' = "down"
  /\ fams' = {} /\ nfn' = 2 /\ mfn' = 1 /\ openMan' = 0 /\ ver' = Empty /\ pending' = {} /\ snapTodo' = {} /\ snaps' = Empty
  /\ UNCHANGED <<disk, committed, ccontent>>

\* ------------------------------------------------------------------ properties (C01)
TableOf(f, n) == CHOOSE t \in tables : t.fam = f /\ t.num = n
HasTable(f, n) == \E t \in tables : t.fam = f /\ t.num = n
Content(f) == UNION {TableOf(f, x[2]).content : x \in {y \in ver[f].files : HasTable(f, y[2])}}

SnapContent(id) == UNION {TableOf(snaps[id].fam, x[2]).content :
                            x \in {y \in snaps[id].files : HasTable(snaps[id].fam, y[2])}}

\* ------------------------------------------------------------------ properties (C02)
\* every file of a version retained by an open snapshot is on disk, complete
SnapshotFilesExist == \A id \in DOMAIN snaps : \A x \in snaps[id].files :
   HasTable(snaps[id].fam, x[2]) /\ TableOf(snaps[id].fam, x[2]).st = "complete"
\* files of the current version and live rollup files are on disk (outputs of unfinished writers are
\* protected by the guard of RemoveTable: an allocated number may not have its file yet)
NeededFilesExist == phase = "ready" =>
   \A f \in DOMAIN ver : \A n \in FileNums(f) \cup RollupNums(f) : HasTable(f, n)

\* ------------------------------------------------------------------ properties (C01)
\* the recovered versions are exactly what the durably committed operations produced
RecoveredIsCommitted == phase \in Recovered => \A f \in DOMAIN committed : f \in DOMAIN ver /\ ver[f] = committed[f]
\* no half-written table is referenced, every referenced table exists
NoPartialVisible == phase \in Recovered =>
   \A f \in DOMAIN ver : \A x \in ver[f].files : HasTable(f, x[2]) /\ TableOf(f, x[2]).st = "complete"
\* the key/value content is what the committed flushes wrote (compaction never changes it)
ContentIsCommitted == phase \in Recovered => \A f \in DOMAIN ver : Content(f) = ccontent[f]
\* a reachable disk never makes the store fail to open
AlwaysReopens == phase # "failed"
Referenced == UNION {FileNums(f) \cup RollupNums(f) : f \in DOMAIN ver}
\* a table created after recovery never reuses a referenced number; the new manifest never has
\* the number of the manifest CURRENT names (creating it would truncate the live manifest)
NoNumberReuse ==
  /\ (phase = "ready" => \A n \in Referenced : n < nfn)
  /\ ((phase = "mkman" /\ current # 0) => mfn # current)
=============================================================================
