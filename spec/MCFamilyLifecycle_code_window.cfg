\* code: file visible before the flushed memory database is dropped (C11-K8) -- must violate VisibleAtMostOnce
CONSTANTS
  Leader = {1}
  MaxRow = 2
  MaxObj = 2
  MaxDb = 3
  MaxFail = 1
  MaxRef = 1
  DoubleWindow = TRUE
  CloseLocksFirst = FALSE
  RetryFailed = TRUE
  ClosedRejects = TRUE
  AtomicWrite = TRUE
  RegisterAtGet = TRUE
  AtomicEvict = TRUE
  UniqueStamp = TRUE
  EvictChecksRef = TRUE
  EvictChecksMem = TRUE
  CloseFlushes = TRUE
  AckFrozen = TRUE
SPECIFICATION MCSpec
INVARIANTS VisibleAtMostOnce
CHECK_DEADLOCK FALSE
