------------------------------ MODULE MCMaster ------------------------------
EXTENDS Master
CONSTANTS Node, Db, MaxShards, MaxRf, MaxEnv
VARIABLE nenv
mcvars == <<vars, nenv>>
MCInit == Init /\ nenv = 0
Env == nenv < MaxEnv /\ nenv' = nenv + 1
MCNext ==
  \/ (\E n \in Node : NodeUp(n) \/ NodeDown(n)) /\ Env
  \/ (\E db \in Db, s \in 1..MaxShards, rf \in 1..MaxRf : PutDatabase(db, s, rf)) /\ Env
  \/ (\E db \in Db : DropDatabase(db)) /\ Env
  \/ (\E st \in 0..(Cardinality(Node) - 1), sh \in 0..(Cardinality(Node) - 1) : Process(st, sh)) /\ UNCHANGED nenv
  \* a transient repository fault while a database-config event is handled (counted like an environment step)
  \/ (\E f \in {"read", "put1", "put2"} : ProcessF(0, 0, f)) /\ Env
MCSpec == MCInit /\ [][MCNext]_mcvars
=============================================================================
