"""XFAMILY -- life cycle of a tsdb data family and its memory databases (module FamilyLifecycle): an extension beyond
the listed properties (DESIGN 0.8)."""
import concurrent.futures
import json
import os

import vcore

# configurations that MUST violate: the windows of the code (first group) and protective steps switched off (second)
DEVIATIONS = [
    "MCFamilyLifecycle_code_window.cfg", "MCFamilyLifecycle_code_closelock.cfg", "MCFamilyLifecycle_code_noretry.cfg",
    "MCFamilyLifecycle_code_latewrite.cfg", "MCFamilyLifecycle_code_writerace.cfg", "MCFamilyLifecycle_code_writerace2.cfg",
    "MCFamilyLifecycle_code_writerace3.cfg",
    "MCFamilyLifecycle_code_evictrace.cfg", "MCFamilyLifecycle_code_stamp.cfg", "MCFamilyLifecycle_code_stamp2.cfg",
    "MCFamilyLifecycle_dev_evictref.cfg", "MCFamilyLifecycle_dev_evictmem.cfg", "MCFamilyLifecycle_dev_closenoflush.cfg",
    "MCFamilyLifecycle_dev_ackcurrent.cfg",
]


def describe(sig, lines, rel, info):
    kind = "plain"
    head = "".join(lines[:rel])
    if '"ev":"Stuck"' in head or '"locked":true' in head:
        kind = "close-vs-flush"
    elif '"sametick":true' in head:
        kind = "same-tick"
    elif '"ev":"EvictRef"' in head:
        kind = "evict-vs-retain"
    elif '"ev":"WriteGet"' in head:
        kind = "write-vs-flush"
    elif '"ev":"FlushFail"' in head:
        kind = "after-failed-flush"
    return "%s:%s" % (sig, kind)


def run(ctx, replay):
    if replay:
        ok, info = ctx.validate_trace("FamilyLifecycleTrace", "FamilyLifecycleTrace.cfg", replay, dfs=False)
        if not ok:
            ctx.violation("FamilyLifecycle:replay", "replayed trace rejected: %s" % info, replay_src=replay)
        return
    family_leg(ctx, ctx.tier == "thorough")


def family_leg(ctx, thorough):
    """Everything the check does except replay handling; also callable as an additional leg of another property
    (C07: acknowledged rows are durable).  Counters go to ctx.extra under family_* keys."""
    # M: the design with every window closed satisfies all properties; the code (on histories the windows do not touch)
    # satisfies the core ones; every window of the code and every protective step switched off violates its property
    ctx.model_check("MCFamilyLifecycle", "MCFamilyLifecycle_thorough.cfg" if thorough else "MCFamilyLifecycle.cfg", timeout=3600)
    ctx.model_check("MCFamilyLifecycle", "MCFamilyLifecycle_twostep.cfg", timeout=1800)
    ctx.model_check("MCFamilyLifecycle", "MCFamilyLifecycle_code.cfg", timeout=1800)
    with concurrent.futures.ThreadPoolExecutor(max_workers=4) as ex:
        futs = [ex.submit(ctx.model_check, "MCFamilyLifecycle", c, expect="violation", timeout=900, workers=4) for c in DEVIATIONS]
        for f in futs:
            f.result()
    # T: the real family objects of a real engine
    tr = os.path.join(ctx.scratch, "famlife.ndjson")
    nh, steps = (400, 18) if thorough else (80, 14)
    summ, rc, _ = ctx.run_vdrive(["famlife", "--seed", ctx.seed, "--histories", nh, "--steps", steps, "--out", tr], timeout=3600)
    for u in summ["unresolved"]:
        raise vcore.Unresolved("famlife driver: %s" % u)
    for s in summ["samples"][:2]:
        ctx.sample(s)
    kinds = summ.get("extra", {}).get("events_by_kind", {})
    ctx.extra["family_events"] = summ["events"]
    ctx.extra["family_events_by_kind"] = kinds
    traces = vcore.split_traces(vcore.read_lines(tr))

    # every step is a step of the specification and the properties that hold for the code hold in every state -- also on
    # the histories whose memory databases were created in one tick of the fast clock (every accepted row stays
    # visible, AckedRowsDurable), on Close against a running flush (NoStuck) and on a writer parked between getting the
    # memory database and writing into it while a flush runs (the flush must wait for it: RegisterAtGet)
    vcore.validate_all(ctx, "FamilyLifecycleTrace", "FamilyLifecycleTrace.cfg", tr, describe=describe, dfs=False, max_rejections=60)
    accepted = ctx.accepted_path
    ctx.extra["family_histories_with_creations_in_one_tick"] = sum(1 for t in traces if any('"sametick":true' in ln for ln in t))
    # the scripted windows were really entered (otherwise the run says nothing about them)
    need = {"close-during-flush-completed": "Close against a running flush", "EvictRef": "Evict gated between its checks", "FlushFail": "failing flush",
            "FlushBusy": "second Flush during a flush", "WriteClosed": "write on a closed object", "CloseAck": "acknowledgement by Close",
            "memdbs-created-in-one-tick": "two memory databases created in one tick of the fast clock",
            "flush-waits-for-writer": "a flush that found a registered writer on the database it froze"}
    for k, what in need.items():
        if not kinds.get(k):
            raise vcore.Unresolved("the driver never exercised: %s (%s)" % (what, k))
    # vacuity: every trace action the driver can produce was taken
    cov = ctx.tlc("FamilyLifecycleTrace", "FamilyLifecycleTrace.cfg", workers=1, files={"trace.ndjson": accepted}, coverage=True, count=False)
    taken = {k.split("@")[0]: v for k, v in cov.coverage.items()}
    for a in ["TLoad", "TWrite", "TWriteGet", "TWritePut", "TWriteClosed", "TCommit", "TAckReg", "TRetain", "TRelease", "TFlushFreeze", "TFlushNothing",
              "TFlushBusy", "TFlushFail", "TFlushCommit", "TFlushAck", "TFlushRelease", "TFlushDrop", "TCloseBegin",
              "TCloseWait", "TCloseCommit", "TCloseAck", "TCloseNext", "TCloseEnd", "TEvictRef", "TEvictMem",
              "TEvict", "TRead", "TProj"]:
        if not taken.get(a):
            raise vcore.Unresolved("trace action %s never taken (coverage run)" % a)

    # binding self-tests: a corrupted copy of accepted traces must be rejected
    def corrupt(pred, change):
        def mutate(ls):
            for i, ln in enumerate(ls):
                if pred(ln):
                    d = json.loads(ln)
                    if change(d) is False:
                        continue
                    out = list(ls)
                    out[i] = json.dumps(d, separators=(",", ":")) + "\n"
                    return out
            return None
        return mutate

    def read_flip(d):
        if not d["vis"]:
            return False
        d["vis"][-1] = 1 - d["vis"][-1] if d["vis"][-1] in (0, 1) else 0

    def ack_later(d):
        d["seq"] += 1

    def evict_flip(d):
        d["closed"] = not d["closed"]

    def proj_imm(d):
        for o in d["objs"]:
            if not o["locked"] and o["imm"] > 0:
                o["imm"], o["mut"] = -1, o["imm"]
                return True
        return False

    clean = os.path.join(ctx.scratch, "famlife-clean.ndjson")
    with open(clean, "w") as f:
        for t in vcore.split_traces(vcore.read_lines(accepted))[:8]:
            f.write("".join(t))
    cfg = "FamilyLifecycleTrace.cfg"
    vcore.corrupt_selftest(ctx, "FamilyLifecycleTrace", cfg, clean, corrupt(lambda ln: '"ev":"Read"' in ln, read_flip), "visibility of the last row in a Read flipped")
    vcore.corrupt_selftest(ctx, "FamilyLifecycleTrace", cfg, clean, corrupt(lambda ln: '"ev":"FlushAck"' in ln, ack_later), "acknowledged sequence one later than the frozen one")
    vcore.corrupt_selftest(ctx, "FamilyLifecycleTrace", cfg, clean, corrupt(lambda ln: '"ev":"Evict"' in ln, evict_flip), "outcome of Evict flipped")
    vcore.corrupt_selftest(ctx, "FamilyLifecycleTrace", cfg, clean, corrupt(lambda ln: '"ev":"Proj"' in ln and '"flushing":true' in ln, proj_imm), "frozen database reported as the mutable one")
    ctx.assumptions += [
        "one real engine, one database / shard / family per history; family objects only through shard.GetOrCrateDataFamily and the exported DataFamily interface; reads through the real query path (sql -> leaf processor -> family.Filter), one series and one slot per row",
        "stages inside Flush are entered on the flushing goroutine through the table writer hook (after the freeze) and the AckSequence callback (after the kv commit, before the drop); Close-vs-Flush and Evict-vs-Retain use two goroutines whose parked state is read from the goroutine dump (no sleeps); Close against a flush must complete -- a flush parked at the family mutex or a wait of 30 s is recorded as the event Stuck, which the specification of the repaired code rejects",
        "the clock is not injectable: the age conditions of Evict are made true by setting the write window option of the database (ahead = -4h) after creation; the driver waits for the next 5 ms tick before a new memory database is created, except in the scenario that wants two creations in one tick (creation times less than 1 ms apart; retried up to 8 times until it happens)",
        "Close is called directly on the family only as the last step of a history (what segment.Close does at shutdown); a failing flush is injected at the creation / close of the table file only; WriteRows is one step except in the write-vs-flush scenarios, where the writer is parked at the gate hook `writerows.gotdb` (tsdb.VerifGate, 83539d8) and the flush is stopped at the creation and at the close of its table file",
    ]
