package main

import (
	"flag"
	"fmt"
	"math/rand"
	"os"
	"path/filepath"
	"runtime"
	"sort"
	"strconv"
	"strings"
	"sync"

	"github.com/lindb/roaring"

	"github.com/lindb/lindb/index"
	"github.com/lindb/lindb/series/field"
	"github.com/lindb/lindb/series/metric"
	"github.com/lindb/lindb/series/tag"
	"github.com/lindb/lindb/sql/stmt"

	"verif/harness/internal/kvwrap"
	"verif/harness/internal/trace"
)

func init() { register("iddict", iddictMain) }

type idKey struct {
	kind  string
	scope int
	name  string
}

type idRun struct {
	rec   *trace.Recorder
	db    index.MetricMetaDatabase
	dir   string
	mu    sync.Mutex
	known map[idKey]bool
	tvMax map[int]uint32 // tag key id -> greatest tag value id seen
}

func (r *idRun) note(k idKey) {
	r.mu.Lock()
	r.known[k] = true
	r.mu.Unlock()
}

func (r *idRun) call(t string, k idKey, create bool) {
	r.rec.Emit("Call", trace.F{"t": t, "kind": k.kind, "scope": k.scope, "name": k.name, "create": create})
}
func (r *idRun) ret(t string, found bool, id int) {
	r.rec.Emit("Ret", trace.F{"t": t, "found": found, "id": id})
}

const idNS = "ns"

// callerBuf: names are handed to the dictionary as slices of a buffer the caller REUSES (the write path passes
// slices of the row buffer, which is recycled between batches): the name is copied into a fresh-per-call view of a
// reused backing array and the array is scribbled over as soon as the call returns
type callerBuf struct{ b []byte }

func (c *callerBuf) of(name string) []byte {
	if cap(c.b) < len(name) {
		c.b = make([]byte, 0, 64)
	}
	c.b = append(c.b[:0], name...)
	return c.b
}
func (c *callerBuf) scribble() {
	for i := range c.b {
		c.b[i] = '#'
	}
}

// splitNS: a metric name written "namespace/name" lives in that namespace (compaction family: one namespace per
// round), any other name in the default one.  Metric ids come from one store-wide sequence whatever the namespace,
// the key of the trace is the full string.
func splitNS(name string) (string, string) {
	if i := strings.IndexByte(name, '/'); i > 0 {
		return name[:i], name[i+1:]
	}
	return idNS, name
}

func (r *idRun) genMetric(t, name string) (metric.ID, bool) {
	k := idKey{"metric", 0, name}
	r.call(t, k, true)
	var nsb, nb callerBuf
	ns, short := splitNS(name)
	id, err := r.db.GenMetricID(nsb.of(ns), nb.of(short))
	nsb.scribble()
	nb.scribble()
	if err != nil {
		r.rec.Emit("Error", trace.F{"op": "GenMetricID", "err": err.Error()})
		return 0, false
	}
	r.ret(t, true, int(id))
	r.note(k)
	return id, true
}

func (r *idRun) getMetric(t, name string) {
	k := idKey{"metric", 0, name}
	r.call(t, k, false)
	ns, short := splitNS(name)
	id, err := r.db.GetMetricID(ns, short)
	if err != nil {
		r.ret(t, false, -1)
		return
	}
	r.ret(t, true, int(id))
}

func (r *idRun) genTagKey(t string, mid metric.ID, key string) (tag.KeyID, bool) {
	k := idKey{"tagkey", int(mid), key}
	r.call(t, k, true)
	var kb callerBuf
	id, err := r.db.GenTagKeyID(mid, kb.of(key))
	kb.scribble()
	if err != nil {
		r.rec.Emit("Error", trace.F{"op": "GenTagKeyID", "err": err.Error()})
		return 0, false
	}
	r.ret(t, true, int(id))
	r.note(k)
	return id, true
}

func (r *idRun) genTagValue(t string, kid tag.KeyID, val string) { r.genTagValueID(t, kid, val) }

func (r *idRun) genTagValueID(t string, kid tag.KeyID, val string) (uint32, bool) {
	k := idKey{"tagvalue", int(kid), val}
	r.call(t, k, true)
	var vb callerBuf
	id, err := r.db.GenTagValueID(kid, vb.of(val))
	vb.scribble()
	if err != nil {
		r.rec.Emit("Error", trace.F{"op": "GenTagValueID", "err": err.Error()})
		return 0, false
	}
	r.ret(t, true, int(id))
	r.note(k)
	r.mu.Lock()
	if r.tvMax == nil {
		r.tvMax = map[int]uint32{}
	}
	if id > r.tvMax[int(kid)] {
		r.tvMax[int(kid)] = id
	}
	r.mu.Unlock()
	return id, true
}

// collect: the reverse lookup the group-by path uses (CollectTagValues: tag value ids -> names) for one tag key, asked
// for every id up to two beyond the greatest one seen.  Every pair it returns must be a pair of the dictionary, and
// every confirmed name whose id was asked for must be returned (only called while no create is in flight).
func (r *idRun) collect(kid int) {
	r.mu.Lock()
	max, ok := r.tvMax[kid]
	r.mu.Unlock()
	if !ok {
		return
	}
	bm := roaring.New()
	asked := []int{}
	for id := uint32(0); id <= max+2; id++ {
		bm.Add(id)
		asked = append(asked, int(id))
	}
	res := map[uint32]string{}
	if err := r.db.CollectTagValues(tag.KeyID(kid), bm, res); err != nil {
		r.rec.Emit("Error", trace.F{"op": "CollectTagValues", "err": err.Error()})
		return
	}
	pairs := map[string]string{}
	for id, name := range res {
		pairs[strconv.Itoa(int(id))] = name
	}
	r.rec.Emit("Collect", trace.F{"scope": kid, "asked": asked, "pairs": pairs})
}

func (r *idRun) collectAll() {
	r.mu.Lock()
	kids := make([]int, 0, len(r.tvMax))
	for k := range r.tvMax {
		kids = append(kids, k)
	}
	r.mu.Unlock()
	sort.Ints(kids)
	for _, k := range kids {
		r.collect(k)
	}
}

// idReverse: names of several tag keys are created and flushed; then, key by key: a persisted name of key A is looked up
// (its dictionary bucket is loaded and cached), the reverse lookup of A runs, persisted names of the OTHER keys are
// looked up (their buckets are loaded now), and every name of A is asked for again through get-or-create: it must
// still have its id.  Between rounds: more names, flush, sometimes reopen.
func idReverse(rec *trace.Recorder, dir string, rng *rand.Rand, h int) {
	rec.Reset(trace.F{"mode": "reverse", "h": h})
	db, err := index.NewMetricMetaDatabase("db", dir)
	if err != nil {
		rec.Emit("Error", trace.F{"op": "open", "err": err.Error()})
		return
	}
	run := &idRun{rec: rec, db: db, dir: dir, known: map[idKey]bool{}}
	defer func() { _ = run.db.Close() }()
	type tk struct {
		kid  tag.KeyID
		vals []string
	}
	var keys []*tk
	mid, ok := run.genMetric("main", "cpu")
	if !ok {
		return
	}
	for _, kn := range idKeyPool {
		kid, ok := run.genTagKey("main", mid, kn)
		if !ok {
			return
		}
		keys = append(keys, &tk{kid: kid})
	}
	nval := 0
	for round := 0; round < 2+rng.Intn(2); round++ {
		for _, k := range keys {
			for i := 0; i < 2+rng.Intn(4); i++ {
				nval++
				v := fmt.Sprintf("v%d-%s", nval, idValPool[rng.Intn(len(idValPool))])
				if _, ok := run.genTagValueID("main", k.kid, v); ok {
					k.vals = append(k.vals, v)
				}
			}
		}
		run.flush()
		if rng.Intn(3) == 0 {
			_ = run.db.Close()
			ndb, err := index.NewMetricMetaDatabase("db", dir)
			if err != nil {
				rec.Emit("Error", trace.F{"op": "reopen", "err": err.Error()})
				return
			}
			run.db = ndb
			rec.Emit("Reopen", trace.F{"how": "close"})
		}
		order := rng.Perm(len(keys))
		for _, ai := range order {
			a := keys[ai]
			run.genTagValueID("main", a.kid, a.vals[rng.Intn(len(a.vals))]) // loads (and caches) the bucket of A
			run.collect(int(a.kid))
			for _, bi := range rng.Perm(len(keys)) {
				if bi != ai {
					b := keys[bi]
					run.genTagValueID("main", b.kid, b.vals[rng.Intn(len(b.vals))])
				}
			}
			for _, v := range a.vals {
				run.genTagValueID("main", a.kid, v)
			}
			run.collect(int(a.kid))
		}
		run.collectAll()
	}
}

func (r *idRun) genField(t string, mid metric.ID, name string) {
	k := idKey{"field", int(mid), name}
	r.call(t, k, true)
	id, err := r.db.GenFieldID(mid, field.Meta{Name: field.Name(name), Type: field.SumField})
	if err != nil {
		r.rec.Emit("Error", trace.F{"op": "GenFieldID", "err": err.Error()})
		return
	}
	r.ret(t, true, int(id))
	r.note(k)
}

// lookupAll looks every known key up without creating (after a reopen: what was recovered)
func (r *idRun) lookupAll(t string) {
	r.mu.Lock()
	keys := make([]idKey, 0, len(r.known))
	for k := range r.known {
		keys = append(keys, k)
	}
	r.mu.Unlock()
	for _, k := range keys {
		switch k.kind {
		case "metric":
			r.getMetric(t, k.name)
		case "tagkey", "field":
			r.call(t, k, false)
			schema, err := r.db.GetSchema(metric.ID(k.scope))
			found, id := false, -1
			if err == nil && schema != nil {
				if k.kind == "tagkey" {
					if tm, ok := schema.TagKeys.Find(k.name); ok {
						found, id = true, int(tm.ID)
					}
				} else if fm, ok := schema.Fields.Find(field.Name(k.name)); ok {
					found, id = true, int(fm.ID)
				}
			}
			r.ret(t, found, id)
		case "tagvalue":
			r.call(t, k, false)
			bm, err := r.db.FindTagValueDsByExpr(tag.KeyID(k.scope), &stmt.EqualsExpr{Key: "k", Value: k.name})
			if err != nil || bm == nil || bm.IsEmpty() {
				r.ret(t, false, -1)
			} else {
				r.ret(t, true, int(bm.Minimum()))
			}
		}
	}
}

var (
	idMetricPool = []string{"cpu", "mem", "disk"}
	idKeyPool    = []string{"host", "zone", "ip"}
	idValPool    = []string{"a", "b", "ab", "c"}
	idFieldPool  = []string{"f1", "f2", "f3"}
)

func (r *idRun) script(t string, rng *rand.Rand, n int, fields bool) {
	for i := 0; i < n; i++ {
		runtime.Gosched()
		name := idMetricPool[rng.Intn(len(idMetricPool))]
		if rng.Intn(6) == 0 {
			r.getMetric(t, name)
			continue
		}
		mid, ok := r.genMetric(t, name)
		if !ok {
			continue
		}
		if fields && rng.Intn(2) == 0 {
			r.genField(t, mid, idFieldPool[rng.Intn(len(idFieldPool))])
		}
		if rng.Intn(4) != 0 {
			kid, ok := r.genTagKey(t, mid, idKeyPool[rng.Intn(len(idKeyPool))])
			if ok && rng.Intn(4) != 0 {
				r.genTagValue(t, kid, idValPool[rng.Intn(len(idValPool))])
			}
		}
	}
}

func (r *idRun) flush() {
	// a panic of the code under test is an observation the specification rejects, not a harness failure
	defer func() {
		if p := recover(); p != nil {
			r.rec.Emit("Error", trace.F{"op": "Flush", "err": fmt.Sprint("panic: ", p)})
		}
	}()
	r.db.PrepareFlush()
	r.rec.Emit("Note", trace.F{"what": "PrepareFlush"})
	if err := r.db.Flush(); err != nil {
		r.rec.Emit("Error", trace.F{"op": "Flush", "err": err.Error()})
	}
	r.rec.Emit("Note", trace.F{"what": "Flush"})
}

func idConcurrent(rec *trace.Recorder, dir string, rng *rand.Rand, h int) {
	db, err := index.NewMetricMetaDatabase("db", dir)
	if err != nil {
		rec.Emit("Error", trace.F{"op": "open", "err": err.Error()})
		return
	}
	run := &idRun{rec: rec, db: db, dir: dir, known: map[idKey]bool{}}
	rec.Reset(trace.F{"mode": "concurrent", "h": h})
	if rng.Intn(2) == 0 {
		// some names already persisted before the race starts
		run.script("main", rand.New(rand.NewSource(rng.Int63())), 3, true)
		run.flush()
	}
	nthreads := 2 + rng.Intn(6)
	var wg sync.WaitGroup
	start := make(chan struct{})
	for i := 0; i < nthreads; i++ {
		wg.Add(1)
		seed := rng.Int63()
		name := fmt.Sprintf("t%d", i+1)
		go func() {
			defer wg.Done()
			<-start
			run.script(name, rand.New(rand.NewSource(seed)), 3+int(seed%4), false)
		}()
	}
	nfl := rng.Intn(3)
	wg.Add(1)
	go func() {
		defer wg.Done()
		<-start
		for i := 0; i < nfl; i++ {
			runtime.Gosched()
			run.flush()
		}
	}()
	close(start)
	wg.Wait()
	run.lookupAll("main")
	_ = db.Close()
}

// gated scenarios: one goroutine is parked at a gate inside get-or-create while the main
// goroutine creates / flushes; the windows are the ones TLC's counterexamples of the
// implementation model (MCIDDict_dev_*) go through.
func idGated(rec *trace.Recorder, dir string, rng *rand.Rand, h int) {
	db, err := index.NewMetricMetaDatabase("db", dir)
	if err != nil {
		rec.Emit("Error", trace.F{"op": "open", "err": err.Error()})
		return
	}
	defer func() { index.VerifGate = nil }()
	run := &idRun{rec: rec, db: db, dir: dir, known: map[idKey]bool{}}
	scenario := []string{"recheck-mem", "recheck-disk", "stale-cache", "random", "schema-flush", "schema-stale"}[h%6]
	rec.Reset(trace.F{"mode": "gated", "scenario": scenario, "h": h})
	// a persisted base so that buckets exist on disk
	base, _ := run.genMetric("main", "base")
	kid, _ := run.genTagKey("main", base, "host")
	run.genTagValue("main", kid, "v0")
	run.flush()

	parked := make(chan struct{})
	release := make(chan struct{})
	var gatePoint string
	var once sync.Once
	bg := int64(0)
	index.VerifGate = func(point string) {
		if point == gatePoint && goid() == bg {
			once.Do(func() {
				close(parked)
				<-release
			})
		}
	}
	done := make(chan struct{})
	startBG := func(point string, body func()) {
		gatePoint = point
		ready := make(chan struct{})
		go func() {
			bg = goid()
			close(ready)
			body()
			close(done)
		}()
		<-ready
		<-parked
	}
	switch scenario {
	case "recheck-mem":
		// T parks before createValue; main creates the same name; T must return main's id
		startBG("kvstore.miss", func() { run.genTagValue("bg", kid, "x") })
		run.genTagValue("main", kid, "x")
		close(release)
	case "recheck-disk":
		// ... and a complete prepare-flush + flush moves the name to disk inside the window
		startBG("kvstore.miss", func() { run.genTagValue("bg", kid, "y") })
		run.genTagValue("main", kid, "y")
		run.flush()
		close(release)
	case "schema-stale":
		// bg loaded the schema of `base` from kv and parks before it is cached / used; main adds a tag key and a
		// field and two flushes persist them and drop the schema from memory; bg then continues with the
		// outdated schema.  Every name must keep its id.
		run.flush() // the base schema leaves memory
		startBG("schemastore.loaded", func() { run.genTagKey("bg", base, "x") })
		run.genTagKey("main", base, "y")
		run.genField("main", base, "fy")
		run.flush()
		run.flush()
		close(release)
		<-done
		run.genTagKey("main", base, "y")
		run.genField("main", base, "fy")
		run.genTagKey("main", base, "x")
		run.flush()
		run.flush()
		run.lookupAll("main")
		_ = db.Close()
		return
	case "schema-flush":
		// the flush wrote the immutable schemas and parks before it marks them persisted; main adds a tag key
		// and a field to a schema that is being flushed; after that flush and one more (the schema leaves memory)
		// both names must still have their ids
		run.genField("main", base, "f0")
		run.flush()
		run.genTagKey("main", base, "zone") // something to flush for this metric
		startBG("schemastore.flushed", func() { run.flush() })
		run.genTagKey("main", base, "late")
		run.genField("main", base, "flate")
		close(release)
		<-done
		run.genTagKey("main", base, "z2")
		run.flush()
		run.genTagKey("main", base, "late")
		run.genField("main", base, "flate")
		run.lookupAll("main")
		_ = db.Close()
		return
	case "stale-cache":
		// T loaded the bucket from the old snapshot and parks before caching it; a flush swaps the
		// snapshot and purges the cache; T then caches the stale bucket
		startBG("kvstore.load", func() { run.genTagValue("bg", kid, "z1") })
		run.genTagValue("main", kid, "z2")
		run.flush()
		close(release)
		<-done
		// z2 is persisted now; a later lookup must still find it with the same id
		run.genTagValue("main", kid, "z2")
		run.lookupAll("main")
		_ = db.Close()
		return
	default:
		pts := []string{"kvstore.miss", "kvstore.load"}
		names := []string{"p", "q"}
		n := names[rng.Intn(2)]
		startBG(pts[rng.Intn(2)], func() { run.genTagValue("bg", kid, n) })
		for i := 0; i < 1+rng.Intn(3); i++ {
			run.genTagValue("main", kid, names[rng.Intn(2)])
			if rng.Intn(2) == 0 {
				run.flush()
			}
		}
		close(release)
	}
	<-done
	run.lookupAll("main")
	_ = db.Close()
}

func goid() int64 {
	var buf [64]byte
	n := runtime.Stack(buf[:], false)
	var id int64
	fmt.Sscanf(string(buf[:n]), "goroutine %d ", &id)
	return id
}

// sequential history with flushes, reopen and crash images taken at every file-system
// operation of a metadata flush
func idSequential(rec *trace.Recorder, dir string, rng *rand.Rand, h int, images bool, nimg *int) {
	rec.Reset(trace.F{"mode": "seq", "h": h})
	db, err := index.NewMetricMetaDatabase("db", dir)
	if err != nil {
		rec.Emit("Error", trace.F{"op": "open", "err": err.Error()})
		return
	}
	run := &idRun{rec: rec, db: db, dir: dir, known: map[idKey]bool{}}
	var lines [][]byte
	rec.Tap = func(b []byte) { lines = append(lines, append([]byte{}, b...)) }
	type pt struct {
		dir   string
		lineN int
	}
	var pts []pt
	var w *kvwrap.World
	if images {
		w = kvwrap.NewWorld(dir, rec)
		w.Silent = true
		w.AfterOp = func(n int, ev string) {
			d := filepath.Join(filepath.Dir(dir), fmt.Sprintf("img-%d-%d", h, n))
			if err := kvwrap.CopyDir(dir, d); err == nil {
				pts = append(pts, pt{d, len(lines)})
			}
		}
	}
	rounds := 2 + rng.Intn(3)
	for i := 0; i < rounds; i++ {
		run.script("main", rng, 3+rng.Intn(4), true)
		switch rng.Intn(3) {
		case 0:
			run.flush()
		case 1:
			run.flush()
			_ = run.db.Close()
			ndb, err := index.NewMetricMetaDatabase("db", dir)
			if err != nil {
				rec.Emit("Error", trace.F{"op": "reopen", "err": err.Error()})
				return
			}
			run.db = ndb
			rec.Emit("Reopen", trace.F{"how": "close"})
			run.lookupAll("main")
			run.collectAll()
		}
		if rng.Intn(2) == 0 {
			run.collectAll()
		}
	}
	_ = run.db.Close()
	rec.Tap = nil
	if w != nil {
		w.AfterOp = nil
		w.Drop()
	}
	for _, p := range pts {
		// recovery of the image by the real code: everything found keeps its id, new names get unused ids
		rec.Reset(trace.F{"mode": "image", "h": h})
		rec.Raw(lines[:p.lineN])
		rec.Emit("Reopen", trace.F{"how": "kill"})
		rdb, err := index.NewMetricMetaDatabase("db", p.dir)
		if err != nil {
			rec.Emit("Error", trace.F{"op": "recover", "err": err.Error()})
			os.RemoveAll(p.dir)
			continue
		}
		r2 := &idRun{rec: rec, db: rdb, dir: p.dir, known: run.known}
		r2.lookupAll("main")
		r2.script("main", rand.New(rand.NewSource(int64(p.lineN))), 6, true)
		_ = rdb.Close()
		os.RemoveAll(p.dir)
		*nimg++
	}
}

func iddictMain(args []string) int {
	fs := flag.NewFlagSet("iddict", flag.ExitOnError)
	out := fs.String("out", "iddict.ndjson", "trace output")
	seed := fs.Int64("seed", 1, "seed")
	nc := fs.Int("concurrent", 100, "concurrent histories")
	ns := fs.Int("sequential", 20, "sequential histories with flush / reopen")
	ni := fs.Int("images", 3, "sequential histories with crash images inside the metadata flush")
	ng := fs.Int("gated", 40, "gated scenarios (a goroutine parked inside get-or-create)")
	nl := fs.Int("loop", 0, "index-loop histories (shard index event loop: rows / flush requests under gated schedules, crash, reopen)")
	nrev := fs.Int("reverse", 0, "reverse-lookup histories (CollectTagValues between lookups of several flushed tag keys)")
	ncp := fs.Int("compact", 0, "compaction histories (rounds of create + flush, level-0 compaction of every kv family, re-ask, reopen)")
	scratch := fs.String("scratch", "", "scratch directory")
	_ = fs.Parse(args)
	if *scratch == "" {
		d, _ := os.MkdirTemp("", "vdrive-iddict-")
		*scratch = d
		defer os.RemoveAll(d)
	}
	kvwrap.Install()
	rec, err := trace.New(*out)
	if err != nil {
		fmt.Println(err)
		return 2
	}
	rng := rand.New(rand.NewSource(*seed))
	sum := &trace.Summary{Module: "IDDict", Extra: map[string]any{}}
	for h := 0; h < *nc; h++ {
		d := filepath.Join(*scratch, fmt.Sprintf("c%d", h), "meta")
		_ = os.MkdirAll(filepath.Dir(d), 0o755)
		idConcurrent(rec, d, rand.New(rand.NewSource(rng.Int63())), h)
		os.RemoveAll(filepath.Dir(d))
	}
	for h := 0; h < *ng; h++ {
		d := filepath.Join(*scratch, fmt.Sprintf("g%d", h), "meta")
		_ = os.MkdirAll(filepath.Dir(d), 0o755)
		idGated(rec, d, rand.New(rand.NewSource(rng.Int63())), h)
		os.RemoveAll(filepath.Dir(d))
	}
	nimg := 0
	for h := 0; h < *ns; h++ {
		d := filepath.Join(*scratch, fmt.Sprintf("s%d", h), "meta")
		_ = os.MkdirAll(filepath.Dir(d), 0o755)
		idSequential(rec, d, rand.New(rand.NewSource(rng.Int63())), h, h < *ni, &nimg)
		os.RemoveAll(filepath.Dir(d))
	}
	for h := 0; h < *nrev; h++ {
		d := filepath.Join(*scratch, fmt.Sprintf("v%d", h), "meta")
		_ = os.MkdirAll(filepath.Dir(d), 0o755)
		idReverse(rec, d, rand.New(rand.NewSource(*seed*104729+int64(h))), h)
		os.RemoveAll(filepath.Dir(d))
	}
	// compaction histories (after the sequential ones, before the index-loop ones)
	// (their own generator: the histories of the other families do not depend on how many of these there are)
	cpDue, cpDone := 0, 0
	cprng := rand.New(rand.NewSource(*seed*7919 + 17))
	for h := 0; h < *ncp; h++ {
		d := filepath.Join(*scratch, fmt.Sprintf("k%d", h))
		_ = os.MkdirAll(d, 0o755)
		due, done := idCompaction(rec, d, rand.New(rand.NewSource(cprng.Int63())), h)
		cpDue += due
		cpDone += done
		os.RemoveAll(d)
	}
	// index-loop histories come last: the check addresses the other families by their position in the file
	stuck, blocked := 0, 0
	for h := 0; h < *nl; h++ {
		d := filepath.Join(*scratch, fmt.Sprintf("l%d", h))
		_ = os.MkdirAll(d, 0o755)
		ilRun(rec, d, rand.New(rand.NewSource(rng.Int63())), h, &stuck, &blocked)
		os.RemoveAll(d)
	}
	_ = rec.Close()
	sum.Traces, sum.Events = rec.Counts()
	sum.Distinct = sum.Traces
	sum.Extra["images"] = nimg
	sum.Extra["loop_histories"] = *nl
	sum.Extra["compact_histories"] = *ncp
	sum.Extra["compact_jobs_due"] = cpDue
	sum.Extra["compact_jobs_done"] = cpDone
	sum.Extra["loop_stuck"] = stuck
	sum.Extra["loop_blocked"] = blocked
	sum.Print()
	return 0
}
