CONSTANTS
  Deviation_FlatIgnoresRequestNamespace = TRUE
  Deviation_StaleEvictFlag = FALSE
  Keys = {1, 2}
  Vals = {1, 2}
  MaxTags = 2
  NShards = 3
  IType = "day"
  Slots = 2
  MaxBatches = 2
SPECIFICATION MCSpec
INVARIANTS PermutationInvariant IdentityDecidesShard ExactPartitionOnlyWindowEvicts
CHECK_DEADLOCK FALSE
