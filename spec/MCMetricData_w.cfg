CONSTANTS
  Series = {1}
  Slots = {0, 3999}
  Vals = {1, 2}
  Types <- TypesB
SPECIFICATION Spec
INVARIANTS OneStepOK RepeatedCompactionOK RollupAfterCompactOK
CHECK_DEADLOCK FALSE
