------------------------------ MODULE MCIngest ------------------------------
(* Leg M of C16: the ingestion reference on a tiny universe.                   *)
(* A pooled batch object with `Slots` row slots lives through several batches: *)
(* Append (canonicalise a tag list with duplicates / any order, keep the       *)
(* timestamp), Evict (write window), Route (shard x family groups), Release.   *)
(* TLC enumerates every tag list of <= MaxTags entries over Keys x Vals, every *)
(* choice among repeated keys, every timestamp of TS and every batch order.    *)
EXTENDS Ingest
CONSTANTS Keys, Vals, MaxTags, NShards, IType, Slots, MaxBatches
VARIABLES slots,      \* the pooled batch: sequence of [row, flag]; row = [rid, canon, ts] ; flag = IsOutOfTimeRange
          count,      \* rowCount of the current batch
          phase, nbatch, groups, appended
mcvars == <<slots, count, phase, nbatch, groups, appended>>

\* 2024-02-29 12:00:00.000 UTC; window: 40 days behind, 2 days ahead
Now == <<19782, 43200000>>
Behind == <<40, 0>>
Ahead == <<2, 0>>
TS == { <<19782, 43200000>>,        \* now, first millisecond of an hour
        <<19782, 43199999>>,        \* last millisecond of the hour before
        <<19781, 86399999>>,        \* last millisecond of the day before
        <<19751, 0>>,               \* 2024-01-29: another month, inside the window
        <<19783, 0>>,               \* 2024-03-01 00:00: day after the leap day, inside the window
        <<19700, 5>>,               \* 82 days behind: outside
        <<19790, 0>> }              \* 8 days ahead: outside

Pair == {<< <<k>>, <<v>> >> : k \in Keys, v \in Vals}      \* one-byte keys and values
RECURSIVE Lists(_)
Lists(n) == IF n = 0 THEN {<< >>} ELSE LET S == Lists(n - 1) IN S \cup {Append(s, p) : s \in {x \in S : Len(x) = n - 1}, p \in Pair}
TagLists == Lists(MaxTags)
Canons(tags) == {c \in Lists(Cardinality(Keys)) : CanonOK(tags, c)}
\* an arbitrary but fixed function of the canonical identity (the model only needs "a function of the identity")
RECURSIVE SumBytes(_)
SumBytes(c) == IF c = << >> THEN 0 ELSE Head(c)[1][1] * 3 + Head(c)[2][1] + SumBytes(Tail(c))
ShardOf(c) == SumBytes(c) % NShards

Perms(s) == {p \in [1..Len(s) -> 1..Len(s)] : \A i, j \in 1..Len(s) : p[i] = p[j] => i = j}
DistinctKeys(tags) == \A i, j \in 1..Len(tags) : tags[i][1] = tags[j][1] => i = j

\* time arithmetic and calendar sanity (constant level, checked once)
ASSUME Civil(0) = [y |-> 1970, m |-> 1, d |-> 1] /\ Civil(19723) = [y |-> 2024, m |-> 1, d |-> 1]
ASSUME Civil(19782) = [y |-> 2024, m |-> 2, d |-> 29] /\ Civil(11016) = [y |-> 2000, m |-> 2, d |-> 29]
ASSUME \A day \in 19700..20500 : LET c == Civil(day) IN DayOf(c.y, c.m, c.d) = day /\ c.m \in 1..12 /\ c.d \in 1..31
ASSUME \A day \in 19700..20500 : \A it \in {"day", "month", "year"} : \A ms \in {0, 1, 3599999, 3600000, 86399999} :
          LET t == <<day, ms>> fs == FamilyStart(it, t) IN
          /\ InFamily(it, fs, t) /\ FamilyStart(it, fs) = fs
          /\ FamilyStart(it, TAdd(FamilyEnd(it, fs), <<0, 1>>)) = TAdd(FamilyEnd(it, fs), <<0, 1>>)    \* families tile the axis
          /\ ~InFamily(it, fs, TAdd(FamilyEnd(it, fs), <<0, 1>>)) /\ ~InFamily(it, fs, TSub(fs, <<0, 1>>))
ASSUME TSub(<<10, 5>>, <<0, 6>>) = <<9, DayMs - 1>> /\ TAdd(<<9, DayMs - 1>>, <<1, 2>>) = <<11, 1>>

Outside(t) == MustEvict(t, Now, Now, Behind, Ahead)
ASSUME \A t \in TS : Outside(t) <=> ~MustKeep(t, Now, Now, Behind, Ahead)       \* with an exact clock there is no grey zone

MCInit == /\ slots = [i \in 1..Slots |-> [row |-> [rid |-> 0, canon |-> << >>, ts |-> <<0, 0>>], flag |-> FALSE]]
          /\ count = 0 /\ phase = "fill" /\ nbatch = 1 /\ groups = << >> /\ appended = << >>
\* TryAppend + ConvertTo: the row goes into the next slot; the slot's flag is cleared (intended) or kept (deviation)
DoAppend == /\ phase = "fill" /\ count < Slots
            /\ \E tags \in TagLists, t \in TS : \E c \in Canons(tags) :
                 /\ slots' = [slots EXCEPT ![count + 1] =
                                [row |-> [rid |-> 10 * nbatch + count + 1, canon |-> c, ts |-> t],
                                 flag |-> IF Deviation_StaleEvictFlag THEN slots[count + 1].flag ELSE FALSE]]
                 /\ appended' = Append(appended, [rid |-> 10 * nbatch + count + 1, tags |-> tags, canon |-> c, ts |-> t])
            /\ count' = count + 1
            /\ UNCHANGED <<phase, nbatch, groups>>
\* EvictOutOfTimeRange then NewShardGroupIterator / family iterator: what reaches the family channels
Live == {i \in 1..count : ~slots[i].flag}
GroupKeys == {<<ShardOf(slots[i].row.canon), FamilyStart(IType, slots[i].row.ts)>> : i \in 1..count}
RECURSIVE SeqOfSet(_)
SeqOfSet(S) == IF S = {} THEN << >> ELSE LET x == CHOOSE y \in S : TRUE IN <<x>> \o SeqOfSet(S \ {x})
DoEvictRoute ==
  /\ phase = "fill" /\ count > 0
  /\ LET flagged == [i \in 1..Slots |-> IF i <= count /\ Outside(slots[i].row.ts) THEN [slots[i] EXCEPT !.flag = TRUE] ELSE slots[i]]
         live == {i \in 1..count : ~flagged[i].flag}
         ks == SeqOfSet(GroupKeys)
     IN /\ slots' = flagged
        /\ groups' = [g \in 1..Len(ks) |->
                        [shard |-> ks[g][1], family |-> ks[g][2],
                         rids |-> SeqOfSet({flagged[i].row.rid : i \in {j \in live :
                                      <<ShardOf(flagged[j].row.canon), FamilyStart(IType, flagged[j].row.ts)>> = ks[g]}})]]
  /\ phase' = "routed" /\ UNCHANGED <<count, nbatch, appended>>
\* Release to the pool and NewBrokerBatchRows from the pool: only the row count is reset; the old row contents are
\* overwritten before they are read again, so the model forgets them (the flags are what survives)
DoReuse == /\ phase = "routed" /\ nbatch < MaxBatches
           /\ count' = 0 /\ phase' = "fill" /\ nbatch' = nbatch + 1 /\ groups' = << >> /\ appended' = << >>
           /\ slots' = [i \in 1..Slots |-> [row |-> [rid |-> 0, canon |-> << >>, ts |-> <<0, 0>>], flag |-> slots[i].flag]]
MCNext == DoAppend \/ DoEvictRoute \/ DoReuse
MCSpec == MCInit /\ [][MCNext]_mcvars

\* ---- invariants
Rows == [i \in 1..count |-> [rid |-> slots[i].row.rid, ts |-> slots[i].row.ts, kh |-> slots[i].row.canon]]
\* (1) canonical form: sorted, one value per key taken from the input; for distinct keys it does not depend on the order
PermutationInvariant ==
  \A i \in 1..Len(appended) :
     LET a == appended[i] IN
     /\ CanonOK(a.tags, a.canon) /\ Canons(a.tags) # {}
     /\ DistinctKeys(a.tags) =>
          /\ Cardinality(Canons(a.tags)) = 1
          /\ \A p \in Perms(a.tags) : Canons([j \in 1..Len(a.tags) |-> a.tags[p[j]]]) = Canons(a.tags)
\* (2) identity and shard do not depend on the other rows of the batch, the shard is below the shard count
IdentityDecidesShard ==
  phase = "routed" =>
     /\ IsFunction(ShardPairs(Rows, groups, NShards))
     /\ \A g \in 1..Len(groups) : \A rid \in ToSet(groups[g].rids) : groups[g].shard = ShardOf(RowOf(Rows, rid).kh)
\* (3) exact partition into shard x family groups, (4) only the window evicts: both are RouteOK with an exact clock
ExactPartitionOnlyWindowEvicts ==
  phase = "routed" => RouteOK(Rows, groups, NShards, IType, Now, Now, Behind, Ahead)
=============================================================================
