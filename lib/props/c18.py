"""C18 -- shard placement and shard leadership stay valid under any node churn (module Master)."""
import json
import os

import vcore


def describe(sig, lines, rel, info):
    return sig


def run(ctx, replay):
    if replay:
        ok, info = ctx.validate_trace("MasterTrace", "MasterTrace.cfg", replay, dfs=False)
        if not ok:
            ctx.violation("Master:replay", "replayed trace rejected: %s" % info, replay_src=replay)
        return
    thorough = ctx.tier == "thorough"
    # M part A: the transcribed assignment function for every n<=5, shards<=8, rf<=n, start, shift, growth
    ctx.model_check("MCMasterAssign", "MCMasterAssign.cfg", timeout=1200)
    # M part B: every sequence of node up/down, create/grow/drop and event processing within bounds
    ctx.model_check("MCMaster", "MCMaster_thorough.cfg" if thorough else "MCMaster.cfg", timeout=3000)
    # sensitivity: a handler that goes on after a failed read of the stored assignment (seeded change C18f) re-assigns
    # every shard of an existing database: must violate GrowKeepsExisting
    ctx.model_check("MCMaster", "MCMaster_dev_readfault.cfg", expect="violation", timeout=900)
    tr = os.path.join(ctx.scratch, "master.ndjson")
    nh, steps = (1500, 90) if thorough else (150, 70)
    summ, rc, _ = ctx.run_vdrive(["master", "--seed", ctx.seed, "--histories", nh, "--steps", steps, "--out", tr], timeout=3000)
    for s in summ["samples"][:3]:
        ctx.sample(s)
    ctx.extra["events"] = summ["events"]
    vcore.validate_all(ctx, "MasterTrace", "MasterTrace.cfg", tr, describe=describe, dfs=True)

    # leg R -- behaviours chosen by TLC from the event machine (MasterGen: 5 nodes, 2 databases, up to 6 shards,
    # replica factor up to 3) are executed step by step against the real StateManager; the recorded states are
    # validated like every other trace: the real state must be the state the model predicts after every step
    ng, depth = (1200, 200) if thorough else (200, 140)
    gen = ctx.generate_behaviours("MasterGen", "MasterGen.cfg", ng, depth)
    gpath = os.path.join(ctx.scratch, "master-gen.json")
    with open(gpath, "w") as f:
        json.dump(gen, f)
    trg = os.path.join(ctx.scratch, "master-gen.ndjson")
    gsumm, rc, _ = ctx.run_vdrive(["master", "--scripts", gpath, "--out", trg], timeout=3000)
    for u in gsumm.get("unresolved") or []:
        raise vcore.Unresolved("master driver (generated behaviours): %s" % u)
    ctx.extra["generated_behaviours_replayed"] = len(gen)
    ctx.extra["events_generated_behaviours"] = gsumm["events"]
    vcore.validate_all(ctx, "MasterTrace", "MasterTrace.cfg", trg, describe=describe, dfs=True)

    def wrong_leader(lines):
        for i, ln in enumerate(lines):
            if '"ev":"State"' in ln and '"state":"online"' in ln:
                d = json.loads(ln)
                for db in d["states"]:
                    for sid in d["states"][db]:
                        if d["states"][db][sid]["state"] == "online":
                            d["states"][db][sid]["leader"] += 1
                            out = list(lines)
                            out[i] = json.dumps(d, separators=(",", ":")) + "\n"
                            return out
        return None

    def duplicate_replica(lines):
        for i, ln in enumerate(lines):
            if '"ev":"State"' in ln and '"repoassign":{"' in ln:
                d = json.loads(ln)
                for db in d["repoassign"]:
                    for sid in d["repoassign"][db]:
                        r = d["repoassign"][db][sid]
                        if len(r) >= 2:
                            r[1] = r[0]
                            out = list(lines)
                            out[i] = json.dumps(d, separators=(",", ":")) + "\n"
                            return out
        return None
    vcore.corrupt_selftest(ctx, "MasterTrace", "MasterTrace.cfg", tr, wrong_leader, "an online shard reports another leader")
    vcore.corrupt_selftest(ctx, "MasterTrace", "MasterTrace.cfg", tr, duplicate_replica, "a shard's replicas are not distinct")
    ctx.assumptions += [
        "repository faults are transient and injected by the in-memory repository while ONE database-config event is handled: the read of the stored assignment fails, or the first / second write of the assignment fails (events `Process` with `fault`)",
        "the repository is an in-memory implementation; the harness plays the discovery watcher (one event per repository write, processed one at a time through the verif hook)",
        "the random start index / replica shift of the code are bound existentially: some pair must explain the stored assignment",
    ]
