"""XFLUSHCHK -- the data flush checker of a storage node (module FlushChecker): an extension beyond the listed properties
(DESIGN 0.8): requestFlushJob / flushWorker / doFlush of one database."""
import json
import os

import vcore


def describe(sig, lines, rel, info):
    head = "".join(lines[:rel])
    return "%s:%s" % (sig, "send-window" if '"ev":"Send"' in head else "sequential")


def run(ctx, replay):
    if replay:
        ok, info = ctx.validate_trace("FlushCheckerTrace", "FlushCheckerTrace.cfg", replay, dfs=False)
        if not ok:
            ctx.violation("FlushChecker:replay", "replayed trace rejected: %s" % info, replay_src=replay)
        return
    thorough = ctx.tier == "thorough"
    # M: the repaired order (mark stored with the check, before the request is handed over) never leaves a stale mark;
    # the order of the code before the repair (Send ; Mark) does
    ctx.model_check("MCFlushChecker", "MCFlushChecker.cfg", timeout=900)
    ctx.model_check("MCFlushChecker", "MCFlushChecker_dev_marklate.cfg", expect="violation", timeout=600)
    # ... and under fair requesters and workers data never waits for ever in the repaired order, while the order before the
    # repair lets it wait for ever (every request dropped at the stale mark)
    ctx.model_check("MCFlushChecker", "MCFlushChecker_live.cfg", timeout=900)
    ctx.model_check("MCFlushChecker", "MCFlushChecker_dev_marklate_live.cfg", expect="violation", timeout=900)
    # M, unbounded in the number of steps: an inductive invariant of the repaired order (6 requesters) discharged by Apalache
    ctx.apalache("FlushCheckerInd", "Init", "IndInv", 0)
    ctx.apalache("FlushCheckerInd", "IndInit", "IndInv", 1)
    ctx.apalache("FlushCheckerInd", "IndInit", "Safety", 0)
    ctx.apalache("FlushCheckerInd", "IndInit", "NotVacuous", 0, expect="violation")
    ctx.apalache("FlushCheckerInd", "IndInit", "IndInv", 1, cinit="CInitLate", expect="violation")
    tr = os.path.join(ctx.scratch, "flushchk.ndjson")
    nh, steps = (200, 16) if thorough else (30, 12)
    summ, rc, _ = ctx.run_vdrive(["flushchk", "--seed", ctx.seed, "--histories", nh, "--steps", steps, "--out", tr], timeout=3000)
    for u in summ["unresolved"]:
        raise vcore.Unresolved("flushchk driver: %s" % u)
    for s in summ["samples"][:2]:
        ctx.sample(s)
    kinds = summ.get("extra", {}).get("events_by_kind", {})
    ctx.extra["flushchecker_events"] = summ["events"]
    ctx.extra["flushchecker_events_by_kind"] = kinds
    vcore.validate_all(ctx, "FlushCheckerTrace", "FlushCheckerTrace.cfg", tr, describe=describe, dfs=False, max_rejections=20)
    accepted = ctx.accepted_path
    if not kinds.get("job-finished-behind-the-send"):
        raise vcore.Unresolved("the driver never parked a requester behind its send until the job was finished")
    cov = ctx.tlc("FlushCheckerTrace", "FlushCheckerTrace.cfg", workers=1, files={"trace.ndjson": accepted}, coverage=True, count=False)
    taken = {k.split("@")[0]: v for k, v in cov.coverage.items()}
    for a in ["TWrite", "TFlush", "TSend", "TTake", "TFinish", "TMark", "TProj"]:
        if not taken.get(a):
            raise vcore.Unresolved("trace action %s never taken (coverage run)" % a)

    def corrupt(pred, change):
        def mutate(ls):
            for i, ln in enumerate(ls):
                if pred(ln):
                    d = json.loads(ln)
                    change(d)
                    out = list(ls)
                    out[i] = json.dumps(d, separators=(",", ":")) + "\n"
                    return out
            return None
        return mutate

    def marked(d):
        d["mark"] = True

    def undirty(d):
        d["dirty"] = not d["dirty"]

    clean = os.path.join(ctx.scratch, "flushchk-clean.ndjson")
    with open(clean, "w") as f:
        for t in vcore.split_traces(vcore.read_lines(accepted))[:6]:
            f.write("".join(t))
    cfg = "FlushCheckerTrace.cfg"
    vcore.corrupt_selftest(ctx, "FlushCheckerTrace", cfg, clean, corrupt(lambda ln: '"ev":"Proj"' in ln and '"mark":false' in ln and '"inflight":0' in ln, marked), "a quiet database reported as marked")
    vcore.corrupt_selftest(ctx, "FlushCheckerTrace", cfg, clean, corrupt(lambda ln: '"ev":"Proj"' in ln, undirty), "unflushed data reported the other way round")
    ctx.assumptions += [
        "one real engine with its own data flush checker (workers as configured), one database / shard / family per history; the checker's state is read through the hooks tsdb.VerifFlushIdle (dbInFlushing) and VerifFlushInFlight (flushInFlight); the requester is parked at the gate hook `flushchecker.sent` (tsdb.VerifGate)",
        "an uninterrupted Database.Flush is one event (the driver waits until the checker is quiet); the periodic check() of the engine finds nothing to flush by itself (thresholds far above the data written)",
    ]
