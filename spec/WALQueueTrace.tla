--------------------------- MODULE WALQueueTrace ---------------------------
(* Trace validation of pkg/queue against WALQueue.  Events (harness `vdrive   *)
(* wal`): Op (an API call begins; for Put: emitted right before its first      *)
(* store, i.e. inside the append's critical section), Store (one store into a  *)
(* mapped page / page file created or removed, at the moment it happened),     *)
(* Proj (the full observable state read back through the public API), Get,     *)
(* Down (close or kill = the image after exactly the stores seen so far),      *)
(* Reopen (NewFanOutQueue by the real code on that directory / image).         *)
EXTENDS WALQueue, Json

Trace == ndJsonDeserialize("trace.ndjson")

VARIABLE l
tvars == <<vars, l>>

ASSUME TLCSet(1, 0)

Ev(e) == l <= Len(Trace) /\ Trace[l].ev = e /\ l' = l + 1
Line == Trace[l]
Has(f) == f \in DOMAIN Line

TraceInit == l = 1 /\ Init

TReset ==
  /\ Ev("Reset")
  /\ idx' = Empty /\ data' = {} /\ dpages' = {0}
  /\ meta' = [app |-> -1, ack |-> -1] /\ gd' = Empty /\ gdir' = {}
  /\ open' = TRUE /\ mApp' = -1 /\ mAck' = -1 /\ curPage' = 0 /\ curOff' = 0
  /\ gm' = Empty /\ ops' = Empty /\ truth' = Empty /\ res' = Empty

TOp ==
  /\ Ev("Op")
  /\ LET t == Line.t IN
     CASE Line.op = "Put"         -> PutStart(t, Line.len, Line.id)
       [] Line.op = "Consume"     -> ConsumeStart(t, Line.g)
       [] Line.op = "Ack"         -> AckStart(t, Line.g, Line.s)
       [] Line.op = "SetConsumed" -> SetConsumedStart(t, Line.g, Line.s)
       [] Line.op = "SetAck"      -> SetAckStart(t, Line.s)
       [] Line.op = "Sync"        -> SyncStart(t)
       [] Line.op = "GC"          -> GCStart(t)
       [] Line.op = "CreateGroup" -> CreateGroupStart(t, Line.g)
       [] Line.op = "CreateGroupFail" -> CreateGroupFailStart(t, Line.g)   \* injected: the meta page cannot be acquired
       [] Line.op = "StopGroup"   -> StopGroup(t, Line.g)
       [] Line.op = "SetAppended" -> SetAppendedStart(t, Line.s)

\* the logged store is the store the specification expects next
Match(st) ==
  /\ st.k = Line.k
  /\ CASE st.k = "data"    -> st.page = Line.page /\ st.off = Line.off /\ st.len = Line.len /\ st.id = Line.id
       [] st.k = "idx"     -> st.seq = Line.seq /\ st.f = Line.f /\ st.v = Line.v
       [] st.k = "meta"    -> st.f = Line.f /\ st.v = Line.v
       [] st.k = "g"       -> st.g = Line.g /\ st.f = Line.f /\ st.v = Line.v
       [] st.k = "mkgdir"  -> st.g = Line.g
       [] st.k = "mkgroup" -> st.g = Line.g /\ st.cons = Line.cons /\ st.ack = Line.ack
       [] st.k = "mkpage"  -> st.page = Line.page
       [] st.k = "rmpage"  -> st.page = Line.page

TStore ==
  /\ Ev("Store")
  /\ LET t == Line.t IN
     /\ t \in DOMAIN ops
     /\ \/ /\ ops[t].todo # << >>
           /\ Match(Head(ops[t].todo))
           /\ DoStoreOf(t, Head(ops[t].todo), Tail(ops[t].todo), ops[t].later)
        \/ /\ ops[t].todo = << >>
           /\ \E sq \in ops[t].later :
                Match(Head(sq)) /\ DoStoreOf(t, Head(sq), Tail(sq), ops[t].later \ {sq})

\* what the public API shows equals the model's state
ProjOK(p) ==
  /\ p.app = mApp /\ p.ack = mAck
  /\ DOMAIN p.groups = DOMAIN gm
  /\ \A g \in DOMAIN gm : p.groups[g].cons = gm[g].cons /\ p.groups[g].ack = gm[g].ack
  /\ Len(p.live) = (IF mApp > mAck THEN mApp - mAck ELSE 0)
  /\ \A i \in 1..Len(p.live) : p.live[i] = GetRes(mAck + i)

TProj ==
  /\ Ev("Proj")
  /\ Quiet /\ open
  /\ ProjOK(Line.proj)
  /\ (Has("res") => (Line.t \in DOMAIN res /\ res[Line.t] = Line.res))
  /\ UNCHANGED vars

TPutFail == Ev("PutFail") /\ PutFail(Line.t, Line.len)
TGet == Ev("Get") /\ open /\ GetRes(Line.s) = Line.res /\ UNCHANGED vars
TDown == Ev("Down") /\ Down
TReopen == Ev("Reopen") /\ Reopen

TraceNext == TReset \/ TOp \/ TStore \/ TProj \/ TGet \/ TPutFail \/ TDown \/ TReopen
TraceSpec == TraceInit /\ [][TraceNext]_tvars

\* the action properties of WALQueue, exempting the harness' own Reset lines
IsTraceReset == l <= Len(Trace) /\ Trace[l].ev = "Reset"
TQAckMonotone == [][IsTraceReset \/ IsReset \/ mAck' >= mAck]_tvars
TQAckMovesBelowMin == [][IsTraceReset \/ ((mAck' # mAck /\ ~IsReset /\ open /\ open')
                          => (\A g \in DOMAIN gm : mAck' <= gm[g].ack) /\ mAck' <= mApp)]_tvars

HighWater == TLCSet(1, IF l > TLCGet(1) THEN l ELSE TLCGet(1))
TraceAccepted ==
  LET hw == TLCGet(1) IN
  IF hw = Len(Trace) + 1 THEN TRUE
  ELSE /\ PrintT(<<"TRACE-REJECTED-AT-LINE", hw>>)
       /\ FALSE
=============================================================================
