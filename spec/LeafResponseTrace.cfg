CONSTANTS
  Receiver = {"r1", "r2"}
  FallThrough = FALSE
SPECIFICATION TraceSpec
INVARIANTS AtMostOne ExactlyOneAfterAnswer FailureIsReported
CONSTRAINT HighWater
POSTCONDITION TraceAccepted
CHECK_DEADLOCK FALSE
