// Command vdrive drives real lindb/lindb code for the /verif conformance checks.
// Every subcommand records ndjson traces (validated by TLC against /verif/spec) and
// prints one "SUMMARY {json}" line.
package main

import (
	"fmt"
	"os"

	"github.com/lindb/common/pkg/logger"
	"go.uber.org/zap/zapcore"
)

type cmdFn func(args []string) int

var commands = map[string]cmdFn{}

func register(name string, fn cmdFn) { commands[name] = fn }

func main() {
	// lindb logs to stdout; keep it quiet unless asked
	if os.Getenv("VERIF_LOG") == "" {
		logger.RunningAtomicLevel.SetLevel(zapcore.FatalLevel)
	}
	if len(os.Args) < 2 {
		fmt.Fprintln(os.Stderr, "usage: vdrive <module> [flags]")
		os.Exit(2)
	}
	fn, ok := commands[os.Args[1]]
	if !ok {
		fmt.Fprintln(os.Stderr, "unknown module", os.Args[1])
		os.Exit(2)
	}
	os.Exit(fn(os.Args[2:]))
}
