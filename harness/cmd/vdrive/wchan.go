package main

// vdrive wchan -- the broker's family write channel (module WriteChannel, check XWCHAN).
//
// A REAL replica.ChannelManager / shard channel / family channel (replica/channel_*.go, chunk.go) and the REAL
// rpc.NewWriteStream.  The harness implements what the code takes as interfaces: the shard state watcher (leader
// changes are delivered through the manager's own callback), the rpc.ClientStreamFactory, the WriteServiceClient
// and its stream.  Every call the writeTask goroutine makes into them (create the client, Send, CloseSend) parks
// the goroutine until the driver releases it with the result the driver chose, so that Write / leader change /
// Stop / cancel / the flush timer are placed exactly between two steps of the task.  The driver keeps a mirror of
// the counts it needs to know WHEN the task must arrive at a gate (never "sleep and look"); a task that does not
// arrive within a generous bound is recorded as a `Stuck` event, which no action of the specification matches.
//
// Private state is only READ through reflection (len of fc.ch / stoppedSignal, chunk size, notifyLeaderChange)
// for the Proj events; the one write is `lastFlushTime = 0`, which stands for "the batch timeout has expired"
// (checkFlush compares it with the wall clock; the ticker itself runs in real time, one tick per second).

import (
	"context"
	"encoding/json"
	"errors"
	"flag"
	"fmt"
	"io"
	"math/rand"
	"reflect"
	"sync"
	"sync/atomic"
	"time"
	"unsafe"

	"google.golang.org/grpc"
	"google.golang.org/grpc/metadata"

	"github.com/lindb/common/pkg/ltoml"
	protoMetricsV1 "github.com/lindb/common/proto/gen/v1/linmetrics"

	"github.com/lindb/lindb/config"
	"github.com/lindb/lindb/constants"
	"github.com/lindb/lindb/coordinator/broker"
	"github.com/lindb/lindb/models"
	"github.com/lindb/lindb/pkg/compress"
	"github.com/lindb/lindb/pkg/option"
	"github.com/lindb/lindb/pkg/timeutil"
	protoCommonV1 "github.com/lindb/lindb/proto/gen/v1/common"
	protoReplicaV1 "github.com/lindb/lindb/proto/gen/v1/replica"
	protoWriteV1 "github.com/lindb/lindb/proto/gen/v1/write"
	"github.com/lindb/lindb/replica"
	"github.com/lindb/lindb/series/metric"

	"verif/harness/internal/trace"
)

func init() { register("wchan", wchanMain) }

const (
	wcK        = 3   // rows per full chunk
	wcChCap    = 2   // cap(fc.ch)
	wcMaxRetry = 100 // fc.maxRetryBuf
	wcWait     = 25 * time.Second
)

type wcStateMgr struct {
	broker.StateManager
	fn func(models.Database, map[models.ShardID]models.ShardState, map[models.NodeID]models.StatefulNode)
}

func (f *wcStateMgr) WatchShardStateChangeEvent(fn func(models.Database, map[models.ShardID]models.ShardState, map[models.NodeID]models.StatefulNode)) {
	f.fn = fn
}

// wcArr is one call of the task goroutine into the harness, parked until `rel` carries the result to return
type wcArr struct {
	kind string // "dial", "send", "close"
	node int
	sid  int
	rows []int
	rel  chan string
	act  chan string // what the call really returned
}

type wcEvent struct {
	ev string
	f  trace.F
}

type wcHist struct {
	id     int
	kind   string
	rng    *rand.Rand
	events []wcEvent
	script []string

	fc      replica.FamilyChannel
	rv      reflect.Value
	sm      *wcStateMgr
	db      models.Database
	cancel  context.CancelFunc
	rows    []metric.BrokerRow
	rowSize int

	arr     chan *wcArr
	drainCh chan struct{}
	mu      sync.Mutex
	nopen   int
	ndeliv  int
	nsid    int
	cur     *wcStream // the stream created last
	all     []*wcStream
	staleTo int // chunks delivered to a node that was not the leader any more

	// mirror (exact while the channel runs; see settle)
	next, csize, chn, retryn, loopleft int
	src                                string
	stream                             int
	leader                             int
	parked                             *wcArr
	inSend                             bool
	wblocked                           bool
	wdone                              chan string
	wcancel                            context.CancelFunc
	notify                             bool
	sig                                int // 0 none, 1 pending for sure, 2 maybe (consumed unseen while there was no stream)
	armed                              bool
	stopping, stopReturned, afterTO    bool
	cancelled                          bool
	rem                                int // cancelled without Stop: send() invocations still to come
	taskDone                           bool
	stopRet                            chan struct{}
	stuck                              bool
	selfBlocked                        bool
	recvBroken                         bool // io.EOF was injected into Recv: the real stream marks itself closed (asynchronously)
}

// ------------------------------------------------------------------ the harness side of the stream interfaces
type wcFct struct{ h *wcHist }

func (wcFct) LogicNode() models.Node { return &models.StatelessNode{HostIP: "127.0.0.1", GRPCPort: 1} }
func (wcFct) CreateTaskClient(models.Node) (protoCommonV1.TaskService_HandleClient, error) {
	return nil, errors.New("no task client")
}
func (wcFct) CreateReplicaServiceClient(models.Node) (protoReplicaV1.ReplicaServiceClient, error) {
	return nil, errors.New("no replica client")
}

func wcNodeOf(n models.Node) int {
	var k int
	_, _ = fmt.Sscanf(n.Indicator(), "1.1.1.%d:", &k)
	return k
}

func wcDrainDefault(kind string) string {
	switch kind {
	case "dial":
		return "fail"
	case "send":
		return "eof"
	}
	return "ok"
}

func (h *wcHist) gate(a *wcArr) string {
	a.rel, a.act = make(chan string, 1), make(chan string, 1)
	select {
	case h.arr <- a:
	case <-h.drainCh:
		return wcDrainDefault(a.kind)
	}
	select {
	case r := <-a.rel:
		return r
	case <-h.drainCh:
		return wcDrainDefault(a.kind)
	}
}

func (f wcFct) CreateWriteServiceClient(target models.Node) (protoWriteV1.WriteServiceClient, error) {
	a := &wcArr{kind: "dial", node: wcNodeOf(target)}
	res := f.h.gate(a)
	if res == "fail" {
		a.act <- "fail"
		return nil, errors.New("cannot connect")
	}
	return &wcClient{h: f.h, a: a, res: res}, nil
}

type wcClient struct {
	h   *wcHist
	a   *wcArr
	res string
}

func (w *wcClient) Write(ctx context.Context, _ ...grpc.CallOption) (protoWriteV1.WriteService_WriteClient, error) {
	// a grpc stream cannot be opened on a finished context
	if ctx.Err() != nil {
		w.a.act <- "fail"
		return nil, ctx.Err()
	}
	md, _ := metadata.FromOutgoingContext(ctx)
	vals := md.Get(constants.RPCMetaKeyFamilyState)
	fs := models.FamilyState{}
	if len(vals) != 1 || json.Unmarshal([]byte(vals[0]), &fs) != nil || w.res == "openfail" {
		w.a.act <- "fail"
		return nil, errors.New("cannot open the write stream")
	}
	h := w.h
	h.mu.Lock()
	h.nsid++
	h.nopen++
	s := &wcStream{h: h, id: h.nsid, node: w.a.node, ctx: ctx, done: make(chan struct{}), recv: make(chan string, 4)}
	h.cur = s
	h.all = append(h.all, s)
	h.mu.Unlock()
	w.a.act <- "ok"
	return s, nil
}

type wcStream struct {
	grpc.ClientStream
	h    *wcHist
	id   int
	node int
	ctx  context.Context
	done chan struct{}
	once sync.Once
	recv chan string
}

func wcDecode(rec []byte) []int {
	rows := []int{}
	block, err := compress.NewSnappyReader().Uncompress(rec)
	if err != nil {
		return []int{-1}
	}
	sb := metric.NewStorageBatchRows()
	sb.UnmarshalRows(append([]byte{}, block...))
	for _, sr := range sb.Rows() {
		fi := sr.NewSimpleFieldIterator()
		if fi.HasNext() {
			rows = append(rows, int(fi.NextValue()))
		} else {
			rows = append(rows, -1)
		}
	}
	return rows
}

func (s *wcStream) Send(r *protoWriteV1.WriteRequest) error {
	a := &wcArr{kind: "send", node: s.node, sid: s.id, rows: wcDecode(r.Record)}
	res := s.h.gate(a)
	if s.ctx.Err() != nil {
		res = "eof" // the stream of a finished context is terminated: grpc answers Send with io.EOF
	}
	switch res {
	case "ok":
		s.h.mu.Lock()
		s.h.ndeliv++
		s.h.mu.Unlock()
		a.act <- "ok"
		return nil
	case "err":
		a.act <- "err"
		return errors.New("transport: send failed")
	}
	a.act <- "eof"
	return io.EOF
}

func (s *wcStream) CloseSend() error {
	a := &wcArr{kind: "close", node: s.node, sid: s.id}
	res := s.h.gate(a)
	s.once.Do(func() {
		close(s.done)
		s.h.mu.Lock()
		s.h.nopen--
		s.h.mu.Unlock()
	})
	a.act <- res
	if res == "fail" {
		return errors.New("close send failed")
	}
	return nil
}

func (s *wcStream) Recv() (*protoWriteV1.WriteResponse, error) {
	select {
	case c := <-s.recv:
		switch c {
		case "eof":
			return nil, io.EOF
		case "err":
			return nil, errors.New("transport: recv failed")
		}
		return &protoWriteV1.WriteResponse{Err: "storage rejected the chunk"}, nil
	case <-s.done:
		return nil, io.EOF
	}
}

// Context never ends: rpc.writeStream marks itself closed only when Recv answers io.EOF (injected by the driver or
// after CloseSend).  With the real transport the receive loop would ALSO notice a cancelled context at some moment
// and make writeStream.Send answer io.EOF before the transport is reached; here Send of a cancelled stream always
// reaches the harness, which answers io.EOF -- the same error for send(), at a point the driver can see
func (s *wcStream) Context() context.Context { return context.Background() }

// ------------------------------------------------------------------ reading the family channel's private state
func (h *wcHist) rf(name string) reflect.Value { return h.rv.FieldByName(name) }
func (h *wcHist) realChLen() int               { return h.rf("ch").Len() }
func (h *wcHist) realStopped() bool            { return h.rf("stoppedSignal").Len() == 1 }
func (h *wcHist) realCsize() int {
	return int(h.rf("chunk").Elem().Elem().FieldByName("size").Uint()) / h.rowSize
}

// Stop closes stoppingSignal and ch from the caller's goroutine; the driver must know that both are closed before it
// takes its next step.  A closed channel cannot be recognised without receiving from it, so the harness reads the
// `closed` word of the runtime's channel header; wcChanLayoutOK checks that reading on a channel of its own first
const wcHchanClosedOff = 28 // qcount uint, dataqsiz uint, buf unsafe.Pointer, elemsize uint16, closed uint32

func wcChanClosedWord(c unsafe.Pointer) uint32 {
	return atomic.LoadUint32((*uint32)(unsafe.Add(c, wcHchanClosedOff)))
}
func wcChanLayoutOK() bool {
	c := make(chan []byte, 2)
	p := *(*unsafe.Pointer)(unsafe.Pointer(&c))
	if wcChanClosedWord(p) != 0 || *(*uint)(p) != 0 {
		return false
	}
	c <- nil
	if wcChanClosedWord(p) != 0 || *(*uint)(p) != 1 {
		return false
	}
	close(c)
	return wcChanClosedWord(p) == 1
}
func (h *wcHist) realChClosed() bool {
	return wcChanClosedWord(*(*unsafe.Pointer)(unsafe.Pointer(h.rf("ch").UnsafeAddr()))) != 0
}

// innermost field `v` of a go.uber.org/atomic value behind a pointer field
func wcAtomicWord(v reflect.Value) reflect.Value {
	for v.Kind() == reflect.Ptr || v.Kind() == reflect.Struct {
		if v.Kind() == reflect.Ptr {
			v = v.Elem()
		} else {
			v = v.FieldByName("v")
		}
	}
	return v
}
func (h *wcHist) realNotify() bool {
	w := wcAtomicWord(h.rf("notifyLeaderChange"))
	return atomic.LoadUint32((*uint32)(unsafe.Pointer(w.UnsafeAddr()))) != 0
}

// the batch timeout has expired: the next tick of the one-second ticker flushes a non-empty chunk
func (h *wcHist) expireBatchTimeout() {
	w := wcAtomicWord(h.rf("lastFlushTime"))
	atomic.StoreInt64((*int64)(unsafe.Pointer(w.UnsafeAddr())), 0)
}

// ------------------------------------------------------------------ recording
func (h *wcHist) emit(ev string, f trace.F) {
	if f == nil {
		f = trace.F{}
	}
	h.events = append(h.events, wcEvent{ev, f})
}

func (h *wcHist) note(s string) { h.script = append(h.script, s) }

func (h *wcHist) stuckAt(what string) {
	if !h.stuck {
		h.stuck = true
		h.emit("Stuck", trace.F{"what": what})
	}
}

// Proj only where nothing moves: the task is parked at a gate, has returned, or idles with nothing to do
func (h *wcHist) proj() {
	if h.stuck || h.armed {
		return
	}
	idle := !h.inSend && h.loopleft == 0 && h.chn == 0 && !h.stopping && !h.cancelled && h.sig != 1
	if !(h.parked != nil || h.taskDone || idle || h.selfBlocked) {
		return
	}
	h.mu.Lock()
	nopen, ndeliv := h.nopen, h.ndeliv
	h.mu.Unlock()
	h.emit("Proj", trace.F{"chlen": h.realChLen(), "csize": h.realCsize(), "notify": h.realNotify(), "open": nopen, "ndeliv": ndeliv})
}

// ------------------------------------------------------------------ waiting for the task
// await returns the next arrival of the task, or stopRet = true when Stop() returned first (only when asked)
func (h *wcHist) await(withStop bool, what string) (a *wcArr, stopRet bool) {
	if h.stuck {
		return nil, false
	}
	var sr chan struct{}
	if withStop {
		sr = h.stopRet
	}
	t := time.NewTimer(wcWait)
	defer t.Stop()
	select {
	case a = <-h.arr:
		return a, false
	case <-sr:
		return nil, true
	case <-t.C:
		h.stuckAt("no arrival: " + what)
		return nil, false
	}
}

func (h *wcHist) waitAct(a *wcArr, what string) string {
	t := time.NewTimer(wcWait)
	defer t.Stop()
	select {
	case r := <-a.act:
		return r
	case <-t.C:
		h.stuckAt("call did not return: " + what)
		return "stuck"
	}
}

func (h *wcHist) waitWriter(what string) string {
	t := time.NewTimer(wcWait)
	defer t.Stop()
	select {
	case r := <-h.wdone:
		h.wblocked = false
		return r
	case <-t.C:
		h.stuckAt("writer did not return: " + what)
		return "stuck"
	}
}

// onArrival classifies an arrival that comes while the task was not parked
func (h *wcHist) onArrival(a *wcArr) {
	if a == nil {
		return
	}
	if a.kind == "close" && !(h.recvBroken && !h.stopping && !h.cancelled) {
		h.parked = a
		if h.stopping || h.cancelled {
			// the deferred Close of a task that has left sendBeforeStop tells what the task decided BEFORE it arrived
			// (the chunk was empty): recorded at once, no driver step in between
			h.release(map[bool]string{true: "fail", false: "ok"}[h.rng.Intn(6) == 0])
		}
		return
	}
	// a new send(chunk) invocation of the task
	if h.armed && h.csize > 0 && h.realCsize() == 0 {
		// the tick flushed the open chunk before this chunk was taken (the task is parked: the read is stable)
		h.emit("TimerFlush", trace.F{"blocked": false})
		h.chn++
		h.csize = 0
		h.armed = false
	}
	h.emit("Begin", nil)
	switch {
	case h.stopping || h.cancelled:
		h.src = "amb" // taken by the select loop or by sendBeforeStop: the specification tries both
		if h.rem > 0 {
			h.rem--
		}
	case h.loopleft > 0:
		h.src = "loop"
		h.loopleft--
	default:
		h.src = "ch"
		h.chn--
		if h.wblocked {
			// a slot of ch is free: the blocked writer gets it
			if r := h.waitWriter("push after a slot was freed"); r == "ok" {
				h.emit("WritePush", nil)
				h.chn++
			} else {
				h.emit("WriteAbort", trace.F{"why": r})
			}
		}
	}
	h.inSend = true
	if a.kind == "close" {
		// rpc.writeStream.Send answered io.EOF itself (its receive loop saw the end of the stream) and send() closes
		// the stream: the chunk never reached the harness
		a.rel <- "ok"
		h.waitAct(a, "CloseSend of a stream that was closed by its peer")
		h.emit("Send", trace.F{"res": "eof", "rows": []int{}, "known": false, "node": a.node})
		h.recvBroken = false
		h.afterFail("eof")
		return
	}
	h.parked = a
	if a.kind == "dial" {
		h.emit("Dial", trace.F{"node": a.node})
	}
}

func (h *wcHist) retryAdd() {
	if h.retryn <= wcMaxRetry {
		h.retryn++
	}
}

func (h *wcHist) afterFail(kind string) {
	switch h.src {
	case "ch":
		h.retryAdd()
		h.stream = 0 // `stream = nil`; for an error other than io.EOF the stream object is not closed
	case "loop":
		h.retryAdd()
		h.retryAdd()
		if kind != "err" {
			h.stream = 0
		}
	default:
		h.retryAdd()
		if kind != "err" {
			h.stream = 0
		}
	}
	h.inSend = false
}

func (h *wcHist) afterOk() {
	if h.src == "ch" && h.retryn > 0 {
		h.loopleft, h.retryn = h.retryn, 0
	}
	h.inSend = false
}

// release lets the parked call return `res` and records the step it completes
func (h *wcHist) release(res string) {
	a := h.parked
	if a == nil || h.stuck {
		return
	}
	h.parked = nil
	a.rel <- res
	switch a.kind {
	case "close":
		h.waitAct(a, "CloseSend")
		if h.stopping || h.cancelled {
			h.emit("Close", nil)
		} else {
			h.emit("SigClose", nil)
			for d := time.Now().Add(wcWait); h.realNotify() && time.Now().Before(d); {
				time.Sleep(200 * time.Microsecond)
			}
			h.notify = false
		}
		h.stream, h.sig = 0, 0
	case "dial":
		act := h.waitAct(a, "create the write stream")
		h.emit("Created", trace.F{"ok": act == "ok"})
		if act == "ok" {
			h.stream = a.node
			b, _ := h.await(false, "Send on the new stream")
			if b != nil && b.kind != "send" {
				h.stuckAt("expected Send on the new stream, got " + b.kind)
			}
			h.parked = b
		} else {
			h.afterFail("dialfail")
		}
	case "send":
		act := h.waitAct(a, "Send")
		if act == "eof" {
			// send() closes the stream it got io.EOF from
			c, _ := h.await(false, "Close after io.EOF")
			if c != nil {
				if c.kind != "close" {
					h.stuckAt("expected Close after io.EOF, got " + c.kind)
				} else {
					c.rel <- map[bool]string{true: "fail", false: "ok"}[h.rng.Intn(5) == 0]
					h.waitAct(c, "CloseSend after io.EOF")
				}
			}
		}
		if act == "ok" && a.node != h.leader {
			h.staleTo++
		}
		h.emit("Send", trace.F{"res": act, "rows": a.rows, "known": true, "node": a.node})
		if act == "ok" {
			h.afterOk()
		} else {
			h.afterFail(act)
		}
	}
}

// finish: the task has left sendBeforeStop (Stop returned, or stoppedSignal is set after a timed-out Stop)
func (h *wcHist) finish() {
	if h.stream != 0 {
		a, _ := h.await(false, "deferred Close of the returning task")
		if a != nil {
			if a.kind != "close" {
				h.stuckAt("expected the deferred Close, got " + a.kind)
				return
			}
			a.rel <- "ok"
			h.waitAct(a, "deferred CloseSend")
			h.emit("Close", nil)
			h.stream = 0
		}
	}
	if h.stuck {
		return
	}
	h.emit("Stopped", nil)
	if !h.cancelled {
		h.emit("Cancel", nil) // Stop() cancels the channel's context before it returns
		h.cancelled = true
	}
	h.taskDone = true
}

// settle waits for every arrival that MUST come in the current state, so that the driver decides its next step
// with the task parked at a gate, idle, or finished
func (h *wcHist) settle() {
	for !h.stuck && h.parked == nil && !h.taskDone && !h.selfBlocked {
		switch {
		case h.afterTO:
			// Stop timed out and cancelled: the task still runs sendBeforeStop; its end is the stopped signal
			var a *wcArr
			for d := time.Now().Add(wcWait); a == nil; {
				select {
				case a = <-h.arr:
				default:
				}
				if a != nil || h.realStopped() {
					break
				}
				if time.Now().After(d) {
					h.stuckAt("neither an arrival nor the stopped signal after a timed-out Stop")
					return
				}
				time.Sleep(200 * time.Microsecond)
			}
			if a == nil {
				select { // the signal is sent after the last arrival was released: nothing can be in flight
				case a = <-h.arr:
				default:
				}
			}
			if a == nil {
				h.finish()
				return
			}
			h.onArrival(a)
		case h.stopping && !h.stopReturned:
			a, sr := h.await(true, "arrival or return of Stop")
			if sr {
				h.stopReturned = true
				h.finish()
				return
			}
			h.onArrival(a)
		case h.cancelled:
			// context cancelled, Stop not called yet: the task sends what it has and then waits for ch to be closed
			if h.rem == 0 {
				return
			}
			a, _ := h.await(false, "chunk after cancel")
			h.onArrival(a)
		default:
			if h.sig == 1 && h.stream == 0 {
				h.sig = 2 // the task passes its select without a stream: the signal may be consumed unseen
			}
			if h.loopleft > 0 || h.chn > 0 || (h.sig == 1 && h.stream != 0) || (h.armed && h.csize > 0) {
				a, _ := h.await(false, "next chunk / signal")
				h.onArrival(a)
			} else {
				select {
				case a := <-h.arr:
					h.onArrival(a)
				default:
				}
				return
			}
		}
	}
}

// ------------------------------------------------------------------ driver steps
func wcOutcome(err error, p any) string {
	switch {
	case p != nil:
		return "panic"
	case err == nil:
		return "ok"
	case errors.Is(err, replica.ErrFamilyChannelCanceled):
		return "canceled"
	case errors.Is(err, replica.ErrIngestTimeout):
		return "timeout"
	}
	return "error:" + err.Error()
}

func (h *wcHist) callWrite(ctx context.Context, from, n int) (out string) {
	defer func() {
		if p := recover(); p != nil {
			out = wcOutcome(nil, p)
		}
	}()
	return wcOutcome(h.fc.Write(ctx, h.rows[from-1:from-1+n]), nil)
}

// writeRows hands n rows to the family channel in ONE Write call (n > 1 only when no row of it can block)
func (h *wcHist) writeRows(n int) {
	if h.stuck || h.wblocked || h.armed || h.selfBlocked || h.next+n-1 > len(h.rows) || (h.cancelled && !h.stopping) {
		return
	}
	if h.stopping || h.cancelled {
		// ch is closed and / or the context is cancelled: the call cannot block; record what it returns, row by row
		for i := 0; i < n; i++ {
			out := h.callWrite(context.Background(), h.next, 1)
			h.emit("WriteRow", trace.F{"r": h.next, "out": out})
			h.next++
		}
		return
	}
	flushes := (h.csize + n) / wcK
	if h.chn+flushes > wcChCap {
		n = 1
		flushes = (h.csize + 1) / wcK
	}
	if flushes == 1 && h.chn == wcChCap {
		// the row fills the chunk and ch is full (the task is parked): this writer blocks, holding lock4write
		ctx, cancel := context.WithCancel(context.Background())
		h.wcancel = cancel
		h.wblocked = true
		from := h.next
		go func() { h.wdone <- h.callWrite(ctx, from, 1) }()
		h.emit("WriteRow", trace.F{"r": h.next, "out": "block"})
		h.next++
		h.csize = 0
		// the writer has compressed the chunk (size reset) before it blocks on ch
		for d := time.Now().Add(wcWait); h.realCsize() != 0; time.Sleep(200 * time.Microsecond) {
			if time.Now().After(d) {
				h.stuckAt("the writer did not reach the push into ch")
				break
			}
		}
		return
	}
	out := h.callWrite(context.Background(), h.next, n)
	for i := 0; i < n; i++ {
		o := "ok"
		if out != "ok" && i == n-1 {
			o = out
		}
		h.emit("WriteRow", trace.F{"r": h.next, "out": o})
		h.next++
	}
	h.csize = (h.csize + n) % wcK
	h.chn += flushes
	h.settle()
}

func (h *wcHist) abortWriter() {
	if !h.wblocked || h.stuck {
		return
	}
	h.wcancel() // the ingestion request's context ends
	h.emit("WriteAbort", trace.F{"why": h.waitWriter("ingest timeout")})
}

func (h *wcHist) shardStates(leader int) (map[models.ShardID]models.ShardState, map[models.NodeID]models.StatefulNode) {
	live := map[models.NodeID]models.StatefulNode{}
	for i := 1; i <= 3; i++ {
		live[models.NodeID(i)] = models.StatefulNode{ID: models.NodeID(i),
			StatelessNode: models.StatelessNode{HostIP: fmt.Sprintf("1.1.1.%d", i), GRPCPort: 2891}}
	}
	return map[models.ShardID]models.ShardState{0: {ID: 0, State: models.OnlineShard, Leader: models.NodeID(leader),
		Replica: models.Replica{Replicas: []models.NodeID{1, 2, 3}}}}, live
}

func (h *wcHist) leaderChange(n int) {
	if h.stuck || n == h.leader {
		return
	}
	h.emit("LeaderChange", trace.F{"node": n})
	shards, live := h.shardStates(n)
	h.sm.fn(h.db, shards, live) // channelManager.handleShardStateChangeEvent -> SyncShardState -> leaderChanged
	h.leader = n
	if !h.notify {
		h.notify = true
		if h.parked != nil || h.stream != 0 {
			h.sig = 1
		} else {
			h.sig = 2
		}
	}
	h.settle()
}

func (h *wcHist) stop(timeoutMs int64) {
	if h.stuck || h.stopping || h.selfBlocked {
		return
	}
	h.emit("Stop", nil)
	h.stopping = true
	go func() {
		h.fc.Stop(timeoutMs)
		close(h.stopRet)
	}()
	for d := time.Now().Add(wcWait); !h.realChClosed(); time.Sleep(100 * time.Microsecond) {
		if time.Now().After(d) {
			h.stuckAt("Stop did not close ch")
			return
		}
	}
	if h.wblocked {
		// close(fc.ch) under a blocked sender: the writer panics (or sees its cancelled context)
		h.emit("WriteAbort", trace.F{"why": h.waitWriter("Stop under a blocked writer")})
	}
}

// stopTimeout: Stop(1 ms) while the task is parked at a gate -- it cannot answer, Stop gives up and cancels
func (h *wcHist) stopTimeout() {
	if h.parked == nil {
		h.stop(600000)
		h.settle()
		return
	}
	h.stop(1)
	t := time.NewTimer(wcWait)
	defer t.Stop()
	select {
	case <-h.stopRet:
	case <-t.C:
		h.stuckAt("Stop(1ms) did not return")
		return
	}
	h.stopReturned, h.afterTO = true, true
	h.emit("Cancel", nil)
	h.cancelled = true
}

// cancelCtx: the manager's context ends (channelManager.Close cancels before it stops the families)
func (h *wcHist) cancelCtx() {
	if h.stuck || h.cancelled || h.stopping {
		return
	}
	h.emit("Cancel", nil)
	h.cancel()
	h.cancelled = true
	if h.wblocked {
		h.emit("WriteAbort", trace.F{"why": h.waitWriter("cancel under a blocked writer")})
	}
	if h.selfBlocked {
		h.emit("TimerUnblock", nil)
		h.selfBlocked = false
	}
	h.rem = h.chn + h.loopleft
	if h.csize > 0 {
		h.rem++
	}
	h.chn, h.loopleft = 0, 0
}

// timer: the batch timeout expires while the task idles with a non-empty chunk and room in ch
func (h *wcHist) timer() {
	if h.stuck || h.stopping || h.cancelled || h.wblocked || h.parked != nil || h.inSend || h.chn != 0 || h.loopleft != 0 || h.csize == 0 || h.sig == 1 {
		return
	}
	h.expireBatchTimeout()
	h.armed = true
	h.settle() // the next tick (within a second) flushes; the chunk arrives at a gate
	if h.armed && !h.stuck {
		// the arrival was a signal close (sig = maybe): the flush is still to come
		return
	}
}

func (h *wcHist) pickRelease(stopSafe bool) string {
	a := h.parked
	c := h.rng.Intn(100)
	switch a.kind {
	case "dial":
		switch {
		case c < 72:
			return "ok"
		case c < 88:
			return "fail"
		}
		return "openfail"
	case "send":
		switch {
		case c < 68:
			return "ok"
		case c < 84:
			if stopSafe && h.src == "amb" {
				return "eof" // after Stop the harness cannot tell whether send() keeps the stream: only io.EOF
			}
			return "err"
		}
		return "eof"
	}
	if c < 85 {
		return "ok"
	}
	return "fail"
}

// recvEOF: the storage side ends the stream (Recv answers io.EOF); the next Send on it fails with io.EOF, either
// inside rpc.writeStream (closed flag, set asynchronously) or from the transport.  One compound step: the chunk that
// shows the effect is forced at once, so that a CloseSend seen meanwhile cannot be mistaken for the leader signal
func (h *wcHist) recvEOF() {
	if h.stuck || h.stopping || h.cancelled || h.wblocked || h.parked != nil || h.inSend || h.chn != 0 || h.loopleft != 0 ||
		h.stream == 0 || h.sig != 0 || h.notify || h.armed || h.next+wcK > len(h.rows) {
		return
	}
	h.mu.Lock()
	s := h.cur
	h.mu.Unlock()
	h.note("recv-eof")
	s.recv <- "eof"
	h.recvBroken = true
	for h.parked == nil && h.recvBroken && !h.stuck {
		h.writeRows(1)
	}
	if h.parked != nil && h.parked.kind == "send" {
		h.recvBroken = false
		h.release("eof")
		h.settle()
	}
}

// recvNoise: an error other than io.EOF from Recv, or a response carrying a storage-side error: the broker only logs
func (h *wcHist) recvNoise() {
	h.mu.Lock()
	s := h.cur
	h.mu.Unlock()
	if s == nil || h.stopping || h.cancelled {
		return
	}
	select {
	case s.recv <- []string{"err", "resp"}[h.rng.Intn(2)]:
	default:
	}
}

// ------------------------------------------------------------------ one history
const wcFamilyTime = int64(1700000000000)

func wcRows(n int) ([]metric.BrokerRow, error) {
	conv, release := metric.NewBrokerRowProtoConverter([]byte("default-ns"), nil, models.NewDefaultLimits())
	defer release(conv)
	bb := metric.NewBrokerBatchRows()
	for i := 1; i <= n; i++ {
		m := &protoMetricsV1.Metric{Name: "wchan", Timestamp: wcFamilyTime + int64(i),
			Tags:         []*protoMetricsV1.KeyValue{{Key: "host", Value: "a"}},
			SimpleFields: []*protoMetricsV1.SimpleField{{Name: "f", Type: protoMetricsV1.SimpleFieldType_DELTA_SUM, Value: float64(i)}}}
		if err := bb.TryAppend(func(row *metric.BrokerRow) error { return conv.ConvertTo(m, row) }); err != nil {
			return nil, err
		}
	}
	rows := bb.Rows()
	for i := range rows {
		if rows[i].Size() != rows[0].Size() {
			return nil, fmt.Errorf("row %d has size %d, row 1 has %d: chunks would not hold a fixed number of rows", i+1, rows[i].Size(), rows[0].Size())
		}
	}
	return rows, nil
}

func wcNewHist(id int, kind string, seed int64, leader, nrows int) (*wcHist, error) {
	h := &wcHist{id: id, kind: kind, rng: rand.New(rand.NewSource(seed)), arr: make(chan *wcArr), drainCh: make(chan struct{}),
		wdone: make(chan string, 1), stopRet: make(chan struct{}), next: 1, leader: leader}
	rows, err := wcRows(nrows)
	if err != nil {
		return nil, err
	}
	h.rows, h.rowSize = rows, rows[0].Size()
	ctx, cancel := context.WithCancel(context.Background())
	h.cancel = cancel
	h.sm = &wcStateMgr{}
	cm := replica.NewChannelManager(ctx, wcFct{h}, h.sm)
	if h.sm.fn == nil {
		return nil, errors.New("the channel manager does not watch shard states")
	}
	h.db = models.Database{Name: "db", NumOfShard: 1, ReplicaFactor: 3,
		Option: &option.DatabaseOption{Intervals: option.Intervals{{Interval: timeutil.Interval(10000), Retention: timeutil.Interval(10000 * 100000)}},
			Behind: "1h", Ahead: "1h"}}
	shards, live := h.shardStates(leader)
	h.sm.fn(h.db, shards, live)
	creator, ok := cm.(interface {
		CreateChannel(models.Database, int32, models.ShardID) (replica.ShardChannel, error)
	})
	if !ok {
		return nil, errors.New("the channel manager has no CreateChannel")
	}
	sc, err := creator.CreateChannel(h.db, 1, 0)
	if err != nil {
		return nil, err
	}
	h.fc = sc.GetOrCreateFamilyChannel(wcFamilyTime)
	h.rv = reflect.ValueOf(h.fc).Elem()
	if h.rv.Kind() != reflect.Struct || !h.rf("ch").IsValid() || h.rf("ch").Cap() != wcChCap || !h.rf("stoppedSignal").IsValid() ||
		!h.rf("chunk").IsValid() || !h.rf("notifyLeaderChange").IsValid() || !h.rf("lastFlushTime").IsValid() {
		return nil, errors.New("the family channel does not have the fields the harness reads (ch of capacity 2, chunk, stoppedSignal, notifyLeaderChange, lastFlushTime)")
	}
	if mr := h.rf("maxRetryBuf"); !mr.IsValid() || mr.Int() != wcMaxRetry {
		return nil, errors.New("maxRetryBuf is not 100: MaxRetry of WriteChannelTrace.cfg does not describe this code")
	}
	h.emit("Reset", trace.F{"h": id, "kind": kind, "leader": leader})
	return h, nil
}

func (h *wcHist) cleanup() {
	close(h.drainCh)
	if h.wblocked {
		h.wcancel()
	}
	h.cancel()
	if !h.stopping {
		go func() {
			defer func() { _ = recover() }()
			h.fc.Stop(20)
		}()
	}
	h.mu.Lock()
	all := append([]*wcStream{}, h.all...)
	h.mu.Unlock()
	for _, s := range all {
		s.once.Do(func() { close(s.done) }) // ends the receive loops of streams the channel never closed
	}
}

func (h *wcHist) other() int {
	n := 1 + h.rng.Intn(3)
	if n == h.leader {
		n = n%3 + 1
	}
	return n
}

// releaseAll: every parked call returns what pick chooses, until the task idles / has returned
func (h *wcHist) releaseAll(pick func() string) {
	for h.parked != nil && !h.stuck {
		h.release(pick())
		h.settle()
	}
}

func (h *wcHist) w(n int) {
	for i := 0; i < n; i++ {
		h.writeRows(1)
	}
}

func (h *wcHist) random(steps int) {
	for s := 0; s < steps && !h.stuck; s++ {
		c := h.rng.Intn(100)
		switch {
		case h.parked != nil && c < 38:
			h.release(h.pickRelease(false))
			h.settle()
		case c < 70:
			n := 1
			if h.rng.Intn(4) == 0 {
				n = 2 + h.rng.Intn(3)
			}
			h.writeRows(n)
		case c < 79:
			h.leaderChange(h.other())
		case c < 83:
			h.timer()
		case c < 86:
			h.recvEOF()
		case c < 90:
			h.abortWriter()
		case c < 93:
			h.recvNoise()
		}
		h.proj()
	}
	e := h.rng.Intn(100)
	switch {
	case e < 35:
		h.note("end:stop")
		h.stop(600000)
		h.settle()
	case e < 50:
		h.note("end:stop-timeout")
		h.stopTimeout()
	case e < 65:
		h.note("end:cancel-then-stop")
		h.cancelCtx()
		h.settle()
		h.proj()
		h.releaseAll(func() string { return h.pickRelease(true) })
		h.stop(600000)
		h.settle()
	default:
		h.note("end:none")
		return
	}
	for !h.taskDone && !h.stuck && h.parked != nil {
		switch c := h.rng.Intn(100); {
		case c < 15:
			h.writeRows(1)
		case c < 22:
			h.leaderChange(h.other())
		}
		h.proj()
		h.release(h.pickRelease(true))
		h.settle()
	}
	h.proj()
	if h.taskDone {
		h.writeRows(h.rng.Intn(5))
		h.proj()
	}
}

func wcOK() string { return "ok" }

// scripted histories: the interleavings the deviation configurations of MCWriteChannel point at
func (h *wcHist) scripted() {
	switch h.kind {
	case "retry-later": // a failed chunk waits until a LATER chunk from ch was sent; a failed re-send is kept twice
		h.w(3)
		h.release("ok")
		h.release("err") // retry = [A], stream dropped without Close
		h.settle()
		h.proj()
		h.w(3)
		h.release("ok")
		h.release("ok") // B sent: the retry loop begins
		h.settle()
		h.release("err") // A again: retry = [A, A]
		h.settle()
		h.proj()
		h.w(3)
		h.releaseAll(wcOK) // C, A, A
		h.proj()
	case "stop-drops-retry":
		h.w(3)
		h.release("ok")
		h.release("err")
		h.settle()
		h.proj()
		h.stop(600000)
		h.settle()
		h.releaseAll(wcOK)
		h.proj()
	case "sticky-notify": // a leader change while there is no stream: later changes are never signalled
		h.leaderChange(h.other())
		h.w(3)
		h.releaseAll(wcOK)
		h.proj()
		h.leaderChange(h.other())
		h.w(3)
		h.releaseAll(wcOK)
		h.proj()
		h.leaderChange(h.other())
		h.w(3)
		h.releaseAll(wcOK)
		h.proj()
	case "stop-order", "stop-timeout", "cancel-then-stop", "writer-stop", "writer-timeout", "writer-push":
		h.w(3) // A: the task parks creating the stream
		h.w(3) // B
		h.w(3) // C: ch is full
		h.w(2) // d, e in the open chunk
		h.proj()
		switch h.kind {
		case "stop-order":
			h.stop(600000)
			h.settle()
			h.releaseAll(wcOK)
		case "stop-timeout":
			h.stopTimeout()
			h.releaseAll(wcOK)
		case "cancel-then-stop":
			h.cancelCtx()
			h.releaseAll(wcOK)
			h.proj()
			h.stop(600000)
			h.settle()
			h.releaseAll(wcOK)
		case "writer-stop":
			h.w(1) // blocks
			h.proj()
			h.stop(600000)
			h.settle()
			h.releaseAll(wcOK)
		case "writer-timeout":
			h.w(1)
			h.abortWriter()
			h.proj()
			h.releaseAll(wcOK)
		case "writer-push":
			h.w(1)
			h.releaseAll(wcOK)
		}
		h.proj()
		if h.taskDone {
			h.w(4)
		}
	case "write-after-stop":
		h.w(1)
		h.stop(600000)
		h.settle()
		h.releaseAll(wcOK)
		h.proj()
		h.w(5)
		h.proj()
	case "overflow": // the stream cannot be created: the retry buffer fills to 101 chunks, then chunks are dropped
		for i := 0; i < wcMaxRetry+3 && !h.stuck; i++ {
			h.w(3)
			h.release([]string{"fail", "openfail"}[i%2])
			h.settle()
		}
		h.proj()
		h.w(3)
		h.releaseAll(wcOK)
		h.proj()
	case "timer":
		h.w(1)
		h.timer()
		h.releaseAll(wcOK)
		h.proj()
		h.w(2)
		h.timer()
		h.releaseAll(wcOK)
		h.proj()
	case "self-block":
		// the batch timeout expires while ch is full and the task is busy: if the task's select takes the tick before
		// it takes a chunk, checkFlush pushes into the full ch from the only goroutine that drains it
		h.w(3)
		h.release("ok") // the task parks in Send(A)
		h.w(3)
		h.w(3)
		h.w(1)
		h.proj()
		h.expireBatchTimeout()
		h.armed = true
		time.Sleep(1200 * time.Millisecond) // one period of the ticker: a tick is pending when the task returns to its select
		a := h.parked
		h.parked = nil
		a.rel <- "ok"
		h.waitAct(a, "Send")
		h.emit("Send", trace.F{"res": "ok", "rows": a.rows, "known": true, "node": a.node})
		h.afterOk()
		var b *wcArr
		for d := time.Now().Add(wcWait); b == nil && !h.selfBlocked; {
			select {
			case b = <-h.arr:
			default:
				if h.realCsize() == 0 {
					h.selfBlocked = true // the chunk was compressed (size reset) and ch is still full: the push blocks
				} else if time.Now().After(d) {
					h.stuckAt("neither a chunk nor the flush after the tick")
					return
				} else {
					time.Sleep(300 * time.Microsecond)
				}
			}
		}
		if h.selfBlocked {
			h.note("self-blocked")
			h.armed = false
			h.emit("TimerFlush", trace.F{"blocked": true})
			h.csize = 0
			h.proj()
			h.cancelCtx() // the only way out short of a panic
			h.settle()
			h.releaseAll(wcOK)
			h.stop(600000)
			h.settle()
			h.releaseAll(wcOK)
		} else {
			h.note("chunk-first")
			h.onArrival(b)
			h.releaseAll(wcOK)
		}
		h.proj()
	}
}

var wcScripts = []string{"retry-later", "stop-drops-retry", "sticky-notify", "stop-order", "stop-timeout", "cancel-then-stop",
	"writer-stop", "writer-timeout", "writer-push", "write-after-stop", "overflow", "timer", "self-block", "self-block", "self-block", "self-block"}

func wchanMain(args []string) int {
	fs := flag.NewFlagSet("wchan", flag.ExitOnError)
	out := fs.String("out", "wchan.ndjson", "trace output")
	seed := fs.Int64("seed", 1, "seed")
	nh := fs.Int("histories", 48, "random histories")
	steps := fs.Int("steps", 40, "steps per random history")
	par := fs.Int("parallel", 12, "histories run concurrently")
	_ = fs.Parse(args)
	rec, err := trace.New(*out)
	if err != nil {
		fmt.Println(err)
		return 2
	}
	sum := &trace.Summary{Module: "WriteChannel", Extra: map[string]any{}}
	probe, err := wcRows(4)
	if err == nil && !wcChanLayoutOK() {
		err = errors.New("the runtime's channel header is not laid out as the harness assumes (closed flag)")
	}
	if err != nil {
		sum.Unresolved = append(sum.Unresolved, err.Error())
		sum.Print()
		return 2
	}
	bc := config.NewDefaultBrokerBase()
	bc.Write.BatchTimeout = ltoml.Duration(time.Hour) // the timer flushes only when the driver lets the timeout expire
	bc.Write.BatchBlockSize = ltoml.Size((wcK-1)*probe[0].Size() + 1)
	bc.Write.GCTaskInterval = ltoml.Duration(time.Hour)
	config.SetGlobalBrokerConfig(bc)

	rng := rand.New(rand.NewSource(*seed))
	type job struct {
		kind string
		seed int64
	}
	jobs := []job{}
	for _, k := range wcScripts {
		jobs = append(jobs, job{k, rng.Int63()})
	}
	for i := 0; i < *nh; i++ {
		jobs = append(jobs, job{"random", rng.Int63()})
	}
	hs := make([]*wcHist, len(jobs))
	errs := make([]error, len(jobs))
	sem := make(chan struct{}, *par)
	var wg sync.WaitGroup
	for i := range jobs {
		wg.Add(1)
		sem <- struct{}{}
		go func(i int) {
			defer wg.Done()
			defer func() { <-sem }()
			nrows := 160
			if jobs[i].kind == "overflow" {
				nrows = 3*(wcMaxRetry+3) + 8
			}
			h, err := wcNewHist(i, jobs[i].kind, jobs[i].seed, 1+int(jobs[i].seed%3), nrows)
			if err != nil {
				errs[i] = err
				return
			}
			hs[i] = h
			func() {
				defer func() {
					if p := recover(); p != nil {
						h.stuckAt(fmt.Sprintf("driver panic: %v", p))
						errs[i] = fmt.Errorf("driver panic in history %d (%s): %v", i, jobs[i].kind, p)
					}
				}()
				if jobs[i].kind == "random" {
					h.random(*steps)
				} else {
					h.scripted()
				}
			}()
			h.cleanup()
		}(i)
	}
	wg.Wait()
	stale, selfBlocked, stuck := 0, 0, 0
	for i, h := range hs {
		if errs[i] != nil {
			sum.Unresolved = append(sum.Unresolved, errs[i].Error())
		}
		if h == nil {
			continue
		}
		for k, e := range h.events {
			if k == 0 {
				rec.Reset(e.f)
			} else {
				rec.Emit(e.ev, e.f)
			}
		}
		stale += h.staleTo
		for _, n := range h.script {
			if n == "self-blocked" {
				selfBlocked++
			}
		}
		if h.stuck {
			stuck++
		}
		if len(sum.Samples) < 3 && h.kind == "random" {
			sum.Samples = append(sum.Samples, map[string]any{"history": i, "events": len(h.events), "notes": h.script})
		}
	}
	_ = rec.Close()
	sum.Traces, sum.Events = rec.Counts()
	sum.Distinct = sum.Traces
	sum.Extra["chunks_sent_to_a_former_leader"] = stale
	sum.Extra["timer_self_blocks_observed"] = selfBlocked
	sum.Extra["stuck_histories"] = stuck
	sum.Print()
	return 0
}
