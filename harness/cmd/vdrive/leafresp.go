package main

// The answer of a leaf to one request: a real query.ExecutePipeline (one scripted root stage) whose completion
// callback calls the real LeafExecuteContext.SendResponse, as query/leaf_processor.go does; the receivers'
// streams record what is sent upstream.

import (
	"context"
	"errors"
	"flag"
	"fmt"
	"math/rand"
	"sync"

	"github.com/lindb/roaring"
	"google.golang.org/grpc"

	commonmodels "github.com/lindb/common/models"

	"github.com/lindb/lindb/flow"
	"github.com/lindb/lindb/models"
	protoCommonV1 "github.com/lindb/lindb/proto/gen/v1/common"
	"github.com/lindb/lindb/query"
	queryctx "github.com/lindb/lindb/query/context"
	stagepkg "github.com/lindb/lindb/query/stage"
	trackerpkg "github.com/lindb/lindb/query/tracker"
	"github.com/lindb/lindb/sql/stmt"

	"verif/harness/internal/trace"
)

func init() { register("leafresp", leafRespMain) }

type lrStage struct{ err error }

func (lrStage) Identifier() string                   { return "leaf-root" }
func (lrStage) Stats() []*commonmodels.OperatorStats { return nil }
func (lrStage) Type() stagepkg.Type                  { return stagepkg.Unknown }
func (lrStage) Plan() stagepkg.PlanNode              { return nil }
func (lrStage) NextStages() []stagepkg.Stage         { return nil }
func (s lrStage) Execute(_ stagepkg.PlanNode, completeHandle func(), errHandle func(err error)) {
	if s.err != nil {
		errHandle(s.err)
		return
	}
	completeHandle()
}
func (lrStage) Complete()     {}
func (lrStage) IsAsync() bool { return false }

type lrStream struct {
	grpc.ServerStream
	mu    sync.Mutex
	kinds []string
}

func (s *lrStream) Send(resp *protoCommonV1.TaskResponse) error {
	s.mu.Lock()
	defer s.mu.Unlock()
	if resp.ErrMsg != "" {
		s.kinds = append(s.kinds, "error")
	} else {
		s.kinds = append(s.kinds, "result")
	}
	return nil
}
func (s *lrStream) Recv() (*protoCommonV1.TaskRequest, error) { return nil, nil }

type lrFactory struct{ streams map[string]*lrStream }

func (f *lrFactory) GetStream(node string) protoCommonV1.TaskService_HandleServer {
	if s, ok := f.streams[node]; ok {
		return s
	}
	return nil
}
func (f *lrFactory) Register(string, protoCommonV1.TaskService_HandleServer) int64 { return 0 }
func (f *lrFactory) Deregister(int64, string) bool                                { return true }
func (f *lrFactory) Nodes() []models.Node                                         { return nil }

func leafRespCase(rec *trace.Recorder, grouping, cancelled, stageErr bool, extraCalls []bool, h int) {
	c, cancel := context.WithCancel(context.Background())
	defer cancel()
	taskCtx := &flow.TaskContext{Ctx: c, Cancel: cancel}
	tracker := trackerpkg.NewStageTracker(taskCtx)
	fct := &lrFactory{streams: map[string]*lrStream{"r1": {}, "r2": {}}}
	req := &protoCommonV1.TaskRequest{RequestID: fmt.Sprintf("req-%d", h), RequestType: protoCommonV1.RequestType_Data}
	q := &stmt.Query{MetricName: "cpu"}
	if grouping {
		q.GroupBy = []string{"host"}
	}
	leafCtx := queryctx.NewLeafExecuteContext(taskCtx, tracker, q, req, fct, &models.Target{Indicator: "leaf"}, []string{"r1", "r2"}, nil)
	if grouping {
		// grouping found tag value ids: collecting their tag values is pending and never completes in this
		// history, so the answer is only defined when the request context ends first
		leafCtx.StorageExecuteCtx.GroupingTagValueIDs = []*roaring.Bitmap{roaring.BitmapOf(1)}
	}
	if cancelled {
		cancel()
	}
	rec.Reset(trace.F{"mode": "leafresp", "h": h, "grouping": grouping, "cancelled": cancelled})
	proj := func() {
		sent := map[string][]string{}
		for r, s := range fct.streams {
			s.mu.Lock()
			sent[r] = append([]string{}, s.kinds...)
			s.mu.Unlock()
		}
		rec.Emit("Proj", trace.F{"sent": sent})
	}
	word := func(b bool) string {
		if b {
			return "err"
		}
		return "ok"
	}
	var se error
	if stageErr {
		se = errors.New("stage failed")
	}
	pipeline := query.NewExecutePipeline(tracker, func(err error) {
		rec.Emit("Complete", trace.F{"err": word(err != nil)})
		rec.Emit("SendResponse", trace.F{"err": word(err != nil)})
		leafCtx.SendResponse(err)
		proj()
	})
	pipeline.Execute(lrStage{err: se})
	// later calls (a timeout path, a second completion): only the first call answers
	for _, e := range extraCalls {
		rec.Emit("SendResponse", trace.F{"err": word(e)})
		if e {
			leafCtx.SendResponse(errors.New("late"))
		} else {
			leafCtx.SendResponse(nil)
		}
		proj()
	}
}

func leafRespMain(args []string) int {
	fs := flag.NewFlagSet("leafresp", flag.ExitOnError)
	out := fs.String("out", "leafresp.ndjson", "trace output")
	seed := fs.Int64("seed", 1, "seed")
	extra := fs.Int("random", 20, "random repetitions of the cases (with random later calls)")
	_ = fs.Parse(args)
	rec, err := trace.New(*out)
	if err != nil {
		fmt.Println(err)
		return 2
	}
	rng := rand.New(rand.NewSource(*seed))
	sum := &trace.Summary{Module: "LeafResponse", Extra: map[string]any{}}
	h := 0
	run := func(grouping, cancelled, stageErr bool, extraCalls []bool) {
		if grouping && !cancelled && !stageErr {
			return // the wait would never end: the collection of the grouping tag values is not driven here
		}
		leafRespCase(rec, grouping, cancelled, stageErr, extraCalls, h)
		h++
	}
	for _, g := range []bool{false, true} {
		for _, c := range []bool{false, true} {
			for _, e := range []bool{false, true} {
				run(g, c, e, nil)
				run(g, c, e, []bool{false})
				run(g, c, e, []bool{true, false})
			}
		}
	}
	for i := 0; i < *extra; i++ {
		var calls []bool
		for k := rng.Intn(3); k > 0; k-- {
			calls = append(calls, rng.Intn(2) == 0)
		}
		run(rng.Intn(2) == 0, rng.Intn(2) == 0, rng.Intn(2) == 0, calls)
	}
	_ = rec.Close()
	sum.Traces, sum.Events = rec.Counts()
	sum.Distinct = sum.Traces
	sum.Print()
	return 0
}
