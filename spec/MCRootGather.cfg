CONSTANTS
  Leaves = {"l1", "l2", "l3"}
  CountAtSend = FALSE
  CountThenMerge = FALSE
SPECIFICATION MCSpec
INVARIANTS CompleteAfterAll ResultComplete NoSilentError ErrorHasCause TimeoutOnlyIfMissing
PROPERTIES ResultIsFinal
CHECK_DEADLOCK FALSE
