"""C07 -- node crash recovery loses no logged write, never replays a persisted one (module NodeRecovery)."""
import json
import os

import vcore


def describe(sig, lines, rel, info):
    # did replication race with the flush job (a replica step between the last metadata flush and the data commit)?
    # ... and did a data commit fall between the write and the sequence commit of one replica round?
    racing = False
    since_meta = False
    done = False
    inround = False
    window = False
    for ln in lines[:rel]:
        if '"ev":"MetaFlush"' in ln and not done:
            since_meta = True
            racing = False
        elif ('"ev":"ReplicaStep"' in ln or '"ev":"RWrite"' in ln) and since_meta and not done:
            racing = True
        elif '"ev":"FamilyCommit"' in ln or '"ev":"IdxCommit"' in ln:
            if racing:
                done = True
            if inround and '"ev":"FamilyCommit"' in ln:
                window = True
        if '"ev":"RWrite"' in ln:
            inround = True
        elif '"ev":"RCommit"' in ln or '"ev":"Crash"' in ln:
            inround = False
    return "%s:%s%s" % (sig, "racing-flush" if racing else "no-race", ":commit-window" if window else "")


def run(ctx, replay):
    if replay:
        ok, info = ctx.validate_trace("NodeRecoveryTrace", "NodeRecoveryTrace.cfg", replay, dfs=False)
        if not ok:
            ctx.violation("NodeRecovery:replay", "replayed trace rejected: %s" % info, replay_src=replay)
        return
    thorough = ctx.tier == "thorough"
    # M: the code's stage order keeps the log/sequence invariants under every crash point ...
    ctx.model_check("MCNodeRecovery", "MCNodeRecovery_code_core_thorough.cfg" if thorough else "MCNodeRecovery_code_core.cfg", timeout=1800)
    # ... the order that freezes the memory database before the metadata prepare-flush satisfies all five ...
    ctx.model_check("MCNodeRecovery", "MCNodeRecovery.cfg", timeout=1200)
    # ... and the code's order does not (the known finding, re-confirmed in the model)
    ctx.model_check("MCNodeRecovery", "MCNodeRecovery_code.cfg", expect="violation", timeout=600)
    # a data commit between WriteRows and CommitSequence of one replica round: the entry is in the data
    # file, the recorded sequence is below it -> applied again after a crash (known finding, model side)
    ctx.model_check("MCNodeRecovery", "MCNodeRecovery_code_reapply.cfg", expect="violation", timeout=600)
    # the opposite order (sequence committed before the rows are written) loses the entry instead
    ctx.model_check("MCNodeRecovery", "MCNodeRecovery_dev_commitfirst.cfg", expect="violation", timeout=600)
    # the index flush committing the series family before the index families leaves a series without index entries
    ctx.model_check("MCNodeRecovery", "MCNodeRecovery_dev_seriesfirst.cfg", expect="violation", timeout=600)
    # ... and the log of an expired family destroyed once everything is consumed instead of acknowledged loses entries
    ctx.model_check("MCNodeRecovery", "MCNodeRecovery_dev_expire.cfg", expect="violation", timeout=600)
    # undecodable log entries: skipped by IgnoreMessage only directly behind the acknowledged position ...
    ctx.model_check("MCNodeRecovery", "MCNodeRecovery_code_bad.cfg", timeout=1200)
    # ... acknowledging one over a gap of good, unflushed entries loses them at the next crash
    ctx.model_check("MCNodeRecovery", "MCNodeRecovery_dev_ignoregap.cfg", expect="violation", timeout=600)
    tr = os.path.join(ctx.scratch, "node.ndjson")
    scr = os.path.join(ctx.scratch, "scr-node")
    os.makedirs(scr, exist_ok=True)
    nh, ni = (200, 60) if thorough else (10, 4)
    summ, rc, _ = ctx.run_vdrive(["node", "--seed", ctx.seed, "--histories", nh, "--images", ni, "--out", tr, "--scratch", scr], timeout=3000)
    for u in summ["unresolved"]:
        raise vcore.Unresolved("node driver: %s" % u)
    for s in summ["samples"][:3]:
        ctx.sample(s)
    ctx.extra["events"] = summ["events"]
    ctx.extra["crash_images_recovered"] = summ["extra"]["images"]
    # pass 1 -- conformance: every recorded step is a step of the specification and the invariants that hold for
    # the code's order hold on every state (a trace is examined to its end, no known finding can mask a later step)
    vcore.validate_all(ctx, "NodeRecoveryTrace", "NodeRecoveryTrace_conf.cfg", tr, describe=describe, dfs=False, max_rejections=400)
    # pass 2 -- all five invariants on the traces that conform
    vcore.validate_all(ctx, "NodeRecoveryTrace", "NodeRecoveryTrace.cfg", ctx.accepted_path, describe=describe, dfs=False, max_rejections=400)

    # late data: a family outside `ahead` + 15 minutes but inside `behind` (late data still accepted): the WAL GC task
    # must leave its log alone (Writable = TRUE), late entries are applied, flushed and read back
    trl = os.path.join(ctx.scratch, "node-late.ndjson")
    summ, rc, _ = ctx.run_vdrive(["node", "--seed", ctx.seed, "--histories", 0, "--images", 0, "--late", 6 if thorough else 2,
                                  "--out", trl, "--scratch", scr], timeout=1200)
    for u in summ["unresolved"]:
        raise vcore.Unresolved("node driver (late): %s" % u)
    ctx.extra["late_write_histories"] = summ["traces"]

    def describe_late(sig, lines, rel, info):
        return describe(sig, lines, rel, info) + ":late-data"
    vcore.validate_all(ctx, "NodeRecoveryTrace", "NodeRecoveryTrace_late.cfg", trl, describe=describe_late, dfs=False, max_rejections=20)

    # a FOLLOWER-side node whose partition is created and recovered by the real write ahead log manager (directory
    # layout database / shard / family time / leader; Recovery() rebuilds the replicators of every partition from the
    # consumer groups of its log, under the leader named by the path): entries arrive through Partition.ReplicaLog, the
    # local replicator applies them under the leader's sequence key; every step and the commit / ack gap imaged and
    # recovered through the manager; same specification, same two passes
    trm = os.path.join(ctx.scratch, "node-mgr.ndjson")
    nhm, nim = (60, 20) if thorough else (6, 3)
    summ, rc, _ = ctx.run_vdrive(["node", "--mgr", "--seed", ctx.seed, "--histories", nhm, "--images", nim, "--out", trm, "--scratch", scr], timeout=3000)
    for u in summ["unresolved"]:
        raise vcore.Unresolved("node driver (manager mode): %s" % u)
    ctx.extra["follower_side_histories"] = nhm
    ctx.extra["follower_side_crash_images_recovered_through_the_wal_manager"] = summ["extra"]["images"]

    def describe_mgr(sig, lines, rel, info):
        return describe(sig, lines, rel, info) + ":follower-side"
    vcore.validate_all(ctx, "NodeRecoveryTrace", "NodeRecoveryTrace_conf.cfg", trm, describe=describe_mgr, dfs=False, max_rejections=200)
    vcore.validate_all(ctx, "NodeRecoveryTrace", "NodeRecoveryTrace.cfg", ctx.accepted_path, describe=describe_mgr, dfs=False, max_rejections=200)

    # the data family between the log and the kv store (module FamilyLifecycle): rows accepted by a family whose sequences are
    # acknowledged are durable and visible -- freeze / commit / ack / drop of the flush against writes, a second memory
    # database, Close, Evict, Retain / Release (extension XFAMILY, also part of this property since the fixes 9e8b7d0 / 7adde7c)
    from props import xfamily
    xfamily.family_leg(ctx, thorough)

    lines = vcore.read_lines(tr)
    clean = os.path.join(ctx.scratch, "node-clean.ndjson")
    with open(clean, "w") as f:
        n = 0
        for t in vcore.split_traces(lines):
            # a history without a racing flush job: accepted entirely
            if describe("x", t, len(t), {}).endswith("no-race") and any('"ev":"FamilyCommit"' in x for x in t):
                f.write("".join(t))
                n += 1
                if n >= 3:
                    break

    def ack_ahead(ls):
        for i, ln in enumerate(ls):
            if '"ev":"Proj"' in ln and '"dseq":-1' in ln and '"gcons":' in ln:
                d = json.loads(ln)
                if d["gcons"] >= 0:
                    d["gack"] = d["gcons"]
                    out = list(ls)
                    out[i] = json.dumps(d, separators=(",", ":")) + "\n"
                    return out
        return None

    def doubled(ls):
        for i, ln in enumerate(ls):
            if '"ev":"Final"' in ln:
                d = json.loads(ln)
                for e in d["entries"]:
                    if e[2] == 1:
                        e[2] = 2
                        out = list(ls)
                        out[i] = json.dumps(d, separators=(",", ":")) + "\n"
                        return out
        return None
    vcore.corrupt_selftest(ctx, "NodeRecoveryTrace", "NodeRecoveryTrace.cfg", clean, ack_ahead, "log acknowledged ahead of the sequence stored with the data")
    vcore.corrupt_selftest(ctx, "NodeRecoveryTrace", "NodeRecoveryTrace.cfg", clean, doubled, "an entry is applied twice after recovery")
    ctx.assumptions += [
        "one node, one shard, one family, one leader (the node itself, or -- manager mode -- node 1 while the node under test is the follower 2: partition created / recovered by the real WriteAheadLogManager, replication stepped through the hooks VerifStepwise / VerifPartitionLog; no gated flush inside a round and no expiry check in that mode); a kv commit is atomic (C01), the log keeps its positions store by store (C05/C06)",
        "kill points: after every driver step and between the data-file manifest commit and the log acknowledgement (kv seam); the directory copy skips the memory database's temp buffers (volatile state)",
        "the flush job is run in the order of the engine (metadata, index, family data) with replication steps interleaved between its stages",
    ]
