\* a failed read of the stored assignment does not end the handling of the event (seeded change C18f): must violate
CONSTANTS
  ReadFaultGivesUp = FALSE
  Node = {1, 2, 3}
  Db = {"d1"}
  MaxShards = 2
  MaxRf = 2
  MaxEnv = 5
SPECIFICATION MCSpec
INVARIANTS ViewsAgree OnlineIffSomeReplicaAlive LeaderIsAliveReplica AssignmentsWellFormed
PROPERTIES GrowKeepsExisting
CHECK_DEADLOCK FALSE
