"""C11 -- a query returns what a naive model computes from the written points (module Query)."""
import vcore
from props import querycommon as qc


def run(ctx, replay):
    if replay:
        # the replayed trace is judged like a fresh one: deviations -> known findings, anything else -> violation
        acc, stats, _ = qc.judge(ctx, replay)
        ctx.extra["judged"] = stats
        return
    thorough = ctx.tier == "thorough"
    # ---- leg M: placement independence of the reference's algebra; the code's named deviations break it
    qc.model_legs(ctx, "C11", thorough)

    # ---- leg T: real engine + real query path (one shard, one leaf), TLC judges every answer
    hist, steps, nq = (220, 18, 3) if thorough else (36, 16, 3)
    tr = qc.run_driver(ctx, "c11", "c11", ["--hist", hist, "--steps", steps, "--queries", nq])
    acc, stats, marked = qc.judge(ctx, tr)
    ctx.extra["judged"] = stats
    ctx.log("judged %d queries of %d histories: %d equal to the reference, deviations %s, rejected %d" % (
        stats["queries"], stats["subtraces"], stats["clean"], stats["by_class"], stats["rejected"]))
    qc.samples(ctx, tr)
    if stats["queries"] < 50 or stats["clean"] < 20:
        raise vcore.Unresolved("too few judged queries (%s)" % stats)
    # ---- repaired sub-cases of the arrival-order finding stay repaired: one series, slots written out of order
    # inside and across the memory write window, then flushed -- judged with DevOrder switched OFF
    import os
    # (the probe `memfile` -- the same slot in a file and in the memory database -- stays under the known finding:
    # reading the family oldest-first was tried and withdrawn, see DESIGN 0.6)
    for probe, what in (("window", "last / first of one series, out-of-order slots, window compaction, flush"),):
        pr = os.path.join(ctx.scratch, "probe-%s.ndjson" % probe)
        scrp = os.path.join(ctx.scratch, "scr-probe-%s" % probe)
        os.makedirs(scrp, exist_ok=True)
        ctx.run_vdrive(["query", "--mode", "probe2", "--hist", 1, "--out", pr, "--scratch", scrp], env_extra={"PROBE": probe}, timeout=300)
        ok, info = ctx.validate_trace("QueryTrace", "QueryTrace_orderstrict.cfg", pr, dfs=False)
        if not ok:
            ctx.violation("QueryTrace:probe:%s:order" % probe, "the probe (%s) is rejected with DevOrder off: %s" % (what, info), replay_src=pr)
    # ---- the flush window (known finding C11-K8), entered deterministically through the family's sequence
    # acknowledgement callback: judged like every other answer
    pw = os.path.join(ctx.scratch, "probe-flushwindow.ndjson")
    scrw = os.path.join(ctx.scratch, "scr-probe-flushwindow")
    os.makedirs(scrw, exist_ok=True)
    ctx.run_vdrive(["query", "--mode", "probe2", "--hist", 1, "--out", pw, "--scratch", scrw], env_extra={"PROBE": "flushwindow"}, timeout=300)
    qc.judge(ctx, pw)
    # ---- binding self-tests and action coverage
    qc.selftests(ctx, tr, marked, thorough)
    qc.coverage(ctx, [tr])
    ctx.assumptions += qc.ASSUMPTIONS + [
        "histories: 2-5 series, five field types, rows with field subsets, duplicate and out-of-order slots (inside and beyond the 15-slot write window), "
        "two hour families (also across a day / month / year edge), flush / kv compaction / clean restart at random points, "
        "queries at random points and queries running concurrently with a flush (expected: everything written before they started)",
    ]
