\* the code as it is (since the repair: the mark is stored with the check)
CONSTANTS
  Req = {r1}
  MarkBeforeSend = TRUE
SPECIFICATION TraceSpec
INVARIANTS NoStaleMark InFlightExact
CONSTRAINT HighWater
POSTCONDITION TraceAccepted
CHECK_DEADLOCK FALSE
