CONSTANTS
  CommitSeqBeforeWrite = FALSE
  FreezeBeforeMetaFlush = FALSE
SPECIFICATION TraceSpec
INVARIANTS AckNotAhead NoLoss
CONSTRAINT HighWater
POSTCONDITION TraceAccepted
CHECK_DEADLOCK FALSE
