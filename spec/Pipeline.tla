------------------------------ MODULE Pipeline ------------------------------
(***************************************************************************)
(* Query pipeline of lindb (query/pipeline.go, pipeline_state_matchine.go, *)
(* stage/base_stage.go, internal/concurrent/pool.go)  --  property C19.    *)
(*                                                                         *)
(* One thread per goroutine: "main" (the caller of Pipeline.Execute) and   *)
(* one per asynchronous stage (the pool worker that runs it).  A thread is *)
(* a stack of frames; one action per step of the code:                     *)
(*   chk   pipeline.executeStage: isCompleted() test                       *)
(*   reg   stateMachine.executeStage: pending++, stage recorded            *)
(*   plan  stage.Plan() on the caller's goroutine, then inline / pool       *)
(*   op    baseStage.execute(node): the node's operator runs (plan tree of  *)
(*         the stage, walked in pre-order; the stage body)                 *)
(*   kids  baseStage.execute(node): the loop over the node's children      *)
(*   next  completeHandle: NextStages(), one executeStage per child, then  *)
(*         completeStage(stage, nil) as the LAST statement of the callback  *)
(*   fin   completeStage, part under the mutex (state, first error)        *)
(*   unl   completeStage, the mutex is released                            *)
(*   dec   completeStage, pending.Dec()                                    *)
(*   cmp   completeStage of the stage that brought pending to zero: the    *)
(*         first error is read (under the mutex again) and complete(err)   *)
(*   end   the handler returns                                             *)
(*   mainc Pipeline.Execute's recover: complete(err)                       *)
(* Plan tree of a stage (stage.Plan(): PlanNode with Children()): a node   *)
(* has an operator or none (stage.NewEmptyPlanNode); the operator returns  *)
(* nil ("ok"), an error ("err"), panics ("panic"), or returns ErrNotFound  *)
(* on a node built with NewPlanNodeWithIgnore ("ign": the node returns nil *)
(* without running its children).  The walk is pre-order, the first        *)
(* failing operator ends it and its error is the outcome of the stage.     *)
(* Deviation switches (all TRUE on the repaired tree):                     *)
(*   KeepFirstError   the state machine remembers the first stage error    *)
(*   RecoverPerStage  executeStage recovers a panic of its own stage       *)
(*   FirstErrorWins   the child loop of baseStage.execute returns at the   *)
(*                    first failing child (FALSE: the result of the last   *)
(*                    child is returned, later siblings still run)         *)
(*   ErrReadAtCompletion  the error handed to complete() is read AFTER      *)
(*                    pending reached zero (FALSE: it is sampled inside    *)
(*                    the stage's own lock section, before pending.Dec():  *)
(*                    a stage that fails between the sample and the        *)
(*                    decrement of the last stage is not reported)         *)
(* A panic while a stage (whose own plan succeeded) plans / registers its    *)
(* next stages, i.e. inside the complete-callback (npanic[s]: -1 none,       *)
(* 0 NextStages() itself panics, k >= 1 the Identifier() of the k-th next    *)
(* stage panics inside stateMachine.executeStage, before that stage's own     *)
(* recover exists): the next stages registered before it stay registered and *)
(* keep running, the panic unwinds the callback to the recover of the stage   *)
(* (executeStage's for an inline stage, the pool's -> errHandle for a pooled *)
(* one) which completes the stage ONCE, with the error.                      *)
(*   SuccessOnlyAtEnd  completeStage(stage, nil) is the last statement of    *)
(*                    the complete-callback (FALSE: it is deferred at the top *)
(*                    of the callback and therefore also runs while a panic   *)
(*                    unwinds it: the panicking stage is completed as a       *)
(*                    success first and with the error afterwards)            *)
(*   RegisterAtomic   stateMachine.executeStage has no effect when the        *)
(*                    stage's Identifier() panics (FALSE: pending is already  *)
(*                    incremented and the stage recorded -- nobody ever       *)
(*                    completes it)                                           *)
(***************************************************************************)
EXTENDS Integers, Sequences, FiniteSets, TLC

CONSTANTS KeepFirstError, RecoverPerStage, FirstErrorWins, ErrReadAtCompletion, SuccessOnlyAtEnd, RegisterAtomic

VARIABLES children,   \* [Stage -> Seq(Stage)]   the stage tree (NextStages)
          root,
          async,      \* [Stage -> BOOLEAN]
          outcome,    \* [Stage -> {"tree","planpanic"}]  Plan() returns the plan tree / panics
          pkids,      \* [PNode -> Seq(PNode)]  children of the plan nodes (all stages, names unique)
          pout,       \* [PNode -> {"none","ok","err","panic","ign"}]  the node's operator
          proot,      \* [Stage -> PNode]       root of the stage's plan tree
          npanic,     \* [Stage -> -1 .. n]     panic while planning (0) / registering the k-th of the next stages
          stacks,     \* [Thread -> Seq(frame)]
          pending, registered, done, completed, cbCount, cbErr,
          errSeen,    \* first error remembered by the state machine
          anyErr,     \* ghost: some executed stage failed or panicked
          opLog,      \* ghost: [Stage -> Seq(PNode)] operators executed, in order
          failedSt,   \* ghost: stages one of whose operators failed or panicked
          lateOp,     \* ghost: an operator ran in a stage that had already failed
          finTwice    \* ghost: completeStage marked a stage that was already marked

vars == <<children, root, async, outcome, pkids, pout, proot, npanic, stacks, pending, registered, done,
          completed, cbCount, cbErr, errSeen, anyErr, opLog, failedSt, lateOp, finTwice>>

Stage == DOMAIN children
Thread == Stage \cup {"main"}
PNode == DOMAIN pkids

\* pl = [kids |-> [PNode -> Seq(PNode)], out |-> [PNode -> operator], root |-> [Stage -> PNode]]
NoNextPanic(ch) == [s \in DOMAIN ch |-> -1]
InitWith(ch, rt, as, oc, pl, np) ==
  /\ children = ch /\ root = rt /\ async = as /\ outcome = oc /\ npanic = np
  /\ pkids = pl.kids /\ pout = pl.out /\ proot = pl.root
  /\ stacks = [t \in (DOMAIN ch) \cup {"main"} |->
                 IF t = "main" THEN << [k |-> "chk", s |-> rt] >> ELSE << >>]
  /\ pending = 0 /\ registered = {} /\ done = {}
  /\ completed = FALSE /\ cbCount = 0 /\ cbErr = FALSE
  /\ errSeen = FALSE /\ anyErr = FALSE
  /\ opLog = [s \in DOMAIN ch |-> << >>] /\ failedSt = {} /\ lateOp = FALSE /\ finTwice = FALSE

Top(t) == stacks[t][Len(stacks[t])]
Pop(t) == SubSeq(stacks[t], 1, Len(stacks[t]) - 1)
Has(t, kind) == t \in DOMAIN stacks /\ stacks[t] # << >> /\ Top(t).k = kind
Replace(t, f) == [stacks EXCEPT ![t] = Append(Pop(t), f)]

Static == UNCHANGED <<children, root, async, outcome, pkids, pout, proot, npanic>>
TreeGhosts == <<opLog, failedSt, lateOp>>

\* frame of completeStage(s, err); q: the stage is completed by executeStage's recover (not by one
\* of the two handlers passed to stage.Execute)
Fin(s, e, q) == [k |-> "fin", s |-> s, e |-> e, q |-> q]

\* stateMachine.complete(err): CAS on completed, then the callback
Complete(err) ==
  IF completed THEN UNCHANGED <<completed, cbCount, cbErr>>
  ELSE /\ completed' = TRUE /\ cbCount' = cbCount + 1 /\ cbErr' = err

\* pipeline.executeStage: `if stage == nil || p.sm.isCompleted() { return }`
Chk(t) ==
  /\ Has(t, "chk")
  /\ stacks' = IF completed THEN [stacks EXCEPT ![t] = Pop(t)]
                            ELSE Replace(t, [k |-> "reg", s |-> Top(t).s])
  /\ UNCHANGED <<pending, registered, done, completed, cbCount, cbErr, errSeen, anyErr, TreeGhosts, finTwice>>
  /\ Static

\* a panic on thread t while stage s runs on it; below: the frames of t under those of stage s
PanicStack(t, s, below) ==
  IF RecoverPerStage
    THEN \* a stage running inline: executeStage(s) recovers and calls completeStage(s, err) itself;
         \* a stage running on the pool: the pool's recover calls the stage's errHandle
         [stacks EXCEPT ![t] = Append(below, Fin(s, TRUE, ~(async[s] /\ t = s)))]
  ELSE IF t = "main"
    THEN \* unwinds to Pipeline.Execute's recover; every frame is abandoned
         [stacks EXCEPT ![t] = << [k |-> "mainc", s |-> s] >>]
    ELSE \* unwinds to the pool's recover, which calls the errHandle of the
         \* goroutine's own stage (= t); frames above it are abandoned
         [stacks EXCEPT ![t] = << Fin(t, TRUE, FALSE) >>]

\* a panic on thread t inside the complete-callback of stage s (planning / registering its next stages)
NextPanicStack(t, s, below) ==
  LET ps == PanicStack(t, s, below) IN
  IF SuccessOnlyAtEnd THEN ps
  ELSE \* the deferred completeStage(s, nil) runs first, while the panic unwinds the callback; then the recover's
       [ps EXCEPT ![t] = Append(@, Fin(s, FALSE, TRUE))]

\* the stage is the k-th next stage of a stage p with npanic[p] = k: its Identifier() panics
IdentPanics(c) == \E p \in Stage : /\ npanic[p] >= 1 /\ npanic[p] <= Len(children[p])
                                   /\ children[p][npanic[p]] = c
ParentOf(c) == CHOOSE p \in Stage : \E i \in 1..Len(children[p]) : children[p][i] = c

\* stateMachine.executeStage: pending++, the stage is recorded (Identifier() is evaluated for the stage's stats)
Register(t) ==
  /\ Has(t, "reg")
  /\ LET s == Top(t).s IN
     IF IdentPanics(s)
       THEN \* Identifier() panics: the caller is the complete-callback of the parent (its "next" frame is right below),
            \* the recover of the stage itself is not installed yet: the panic unwinds the parent's callback
            /\ pending' = IF RegisterAtomic THEN pending ELSE pending + 1
            /\ registered' = IF RegisterAtomic THEN registered ELSE registered \cup {s}
            /\ anyErr' = TRUE
            /\ stacks' = NextPanicStack(t, ParentOf(s), SubSeq(stacks[t], 1, Len(stacks[t]) - 2))
       ELSE /\ pending' = pending + 1
            /\ registered' = registered \cup {s}
            /\ stacks' = Replace(t, [k |-> "plan", s |-> s])
            /\ UNCHANGED anyErr
  /\ UNCHANGED <<done, completed, cbCount, cbErr, errSeen, TreeGhosts, finTwice>>
  /\ Static

\* stage.Plan() is evaluated on the CALLER's goroutine (argument of stage.Execute), then
\* stage.Execute runs the body (baseStage.execute of the plan's root) inline or submits it to the pool
Plan(t) ==
  /\ Has(t, "plan")
  /\ LET s == Top(t).s IN
     IF outcome[s] = "planpanic"
       THEN /\ anyErr' = TRUE
            /\ stacks' = IF RecoverPerStage THEN Replace(t, Fin(s, TRUE, TRUE)) ELSE PanicStack(t, s, Pop(t))
       ELSE /\ UNCHANGED anyErr
            /\ stacks' = IF async[s]
                            THEN [stacks EXCEPT ![t] = Pop(t), ![s] = << [k |-> "op", s |-> s, n |-> proot[s]] >>]
                            ELSE Replace(t, [k |-> "op", s |-> s, n |-> proot[s]])
  /\ UNCHANGED <<pending, registered, done, completed, cbCount, cbErr, errSeen, TreeGhosts, finTwice>>
  /\ Static

\* ------------------------------------------------ baseStage.execute(node): the plan tree walk
IsWalk(f) == f.k \in {"op", "kids"}
\* the frames of thread t below the walk of the plan tree that is on top of its stack
Unwound(t) ==
  LET st == stacks[t]
      below == {j \in 1..Len(st) : ~IsWalk(st[j])}
      base == IF below = {} THEN 0 ELSE CHOOSE j \in below : \A j2 \in below : j2 <= j
  IN SubSeq(st, 1, base)

\* execute(node) of the frame on top of t returns (r: with an error)
RetStack(t, r) ==
  LET f == Top(t)  s == f.s IN
  IF f.n = proot[s]
    THEN \* baseStage.Execute: errHandle(err) / completeHandle()
         Replace(t, IF r THEN Fin(s, TRUE, FALSE) ELSE [k |-> "next", s |-> s, i |-> 1])
  ELSE IF r /\ FirstErrorWins
    THEN \* `if err := stage.execute(child); err != nil { return err }` at every level
         [stacks EXCEPT ![t] = Append(Unwound(t), Fin(s, TRUE, FALSE))]
    ELSE \* back in the parent's loop (deviation: the parent remembers the result of this child only)
         LET st == Pop(t)  par == st[Len(st)] IN
         [stacks EXCEPT ![t] = Append(SubSeq(st, 1, Len(st) - 1), [par EXCEPT !.e = r])]

\* the node's operator (planNode.ExecuteWithStats); a node without operator does nothing
OpRun(t) ==
  /\ Has(t, "op")
  /\ LET s == Top(t).s  n == Top(t).n  o == pout[n]
         bad == o \in {"err", "panic"} IN
     /\ opLog' = IF o = "none" THEN opLog ELSE [opLog EXCEPT ![s] = Append(@, n)]
     /\ lateOp' = (lateOp \/ (o # "none" /\ s \in failedSt))
     /\ failedSt' = IF bad THEN failedSt \cup {s} ELSE failedSt
     /\ anyErr' = (anyErr \/ bad)
     /\ stacks' = CASE o \in {"none", "ok"} ->
                         IF pkids[n] = << >> THEN RetStack(t, FALSE)
                         ELSE Replace(t, [k |-> "kids", s |-> s, n |-> n, i |-> 1, e |-> FALSE])
                    [] o = "ign" -> RetStack(t, FALSE)     \* ErrNotFound on an IgnoreNotFound node: nil, children skipped
                    [] o = "err" -> RetStack(t, TRUE)
                    [] o = "panic" -> PanicStack(t, s, Unwound(t))
  /\ UNCHANGED <<pending, registered, done, completed, cbCount, cbErr, errSeen, finTwice>>
  /\ Static

\* the loop over node.Children()
Kids(t) ==
  /\ Has(t, "kids")
  /\ LET f == Top(t) IN
     stacks' = IF f.i <= Len(pkids[f.n])
                 THEN [stacks EXCEPT ![t] = Append(Append(Pop(t), [f EXCEPT !.i = f.i + 1]),
                                                   [k |-> "op", s |-> f.s, n |-> pkids[f.n][f.i]])]
                 ELSE RetStack(t, f.e)
  /\ UNCHANGED <<pending, registered, done, completed, cbCount, cbErr, errSeen, anyErr, TreeGhosts, finTwice>>
  /\ Static

\* NextStages() of the stage on top of t panics (it is called once, before the first next stage is registered)
NextPanics(t) == Has(t, "next") /\ Top(t).i = 1 /\ npanic[Top(t).s] = 0

\* completeHandle: plan the children one by one, then complete the stage itself
Next1(t) ==
  /\ Has(t, "next")
  /\ LET s == Top(t).s  i == Top(t).i IN
     IF NextPanics(t)
       THEN /\ anyErr' = TRUE
            /\ stacks' = NextPanicStack(t, s, Pop(t))
       ELSE /\ UNCHANGED anyErr
            /\ stacks' = IF i <= Len(children[s])
                 THEN [stacks EXCEPT ![t] = Append(Append(Pop(t), [k |-> "next", s |-> s, i |-> i + 1]),
                                                   [k |-> "chk", s |-> children[s][i]])]
                 ELSE Replace(t, Fin(s, FALSE, FALSE))
  /\ UNCHANGED <<pending, registered, done, completed, cbCount, cbErr, errSeen, TreeGhosts, finTwice>>
  /\ Static

\* completeStage under the mutex: stage state, first error.  es: the first error as this call sees it inside
\* its own lock section (used by the deviation ~ErrReadAtCompletion only; constant otherwise)
FinMark(t) ==
  /\ Has(t, "fin")
  /\ LET s == Top(t).s  e == Top(t).e IN
     /\ done' = done \cup {s}
     /\ finTwice' = (finTwice \/ s \in done)
     /\ errSeen' = (errSeen \/ e)
     /\ stacks' = Replace(t, [k |-> "unl", s |-> s, e |-> e, q |-> Top(t).q,
                              es |-> IF ErrReadAtCompletion THEN FALSE ELSE (errSeen \/ e)])
  /\ UNCHANGED <<pending, registered, completed, cbCount, cbErr, anyErr, TreeGhosts>>
  /\ Static

\* completeStage: sm.mutex.Unlock() -- from here on other stages pass through their lock sections
FinUnlock(t) ==
  /\ Has(t, "unl")
  /\ stacks' = Replace(t, [Top(t) EXCEPT !.k = "dec"])
  /\ UNCHANGED <<pending, registered, done, completed, cbCount, cbErr, errSeen, anyErr, TreeGhosts, finTwice>>
  /\ Static

\* completeStage after the mutex: pending.Dec(); the call that reads zero goes on to complete the pipeline
FinDec(t) ==
  /\ Has(t, "dec")
  /\ pending' = pending - 1
  /\ stacks' = Replace(t, IF pending - 1 = 0 THEN [Top(t) EXCEPT !.k = "cmp"]
                                             ELSE [k |-> "end", s |-> Top(t).s, q |-> Top(t).q])
  /\ UNCHANGED <<registered, done, completed, cbCount, cbErr, errSeen, anyErr, TreeGhosts, finTwice>>
  /\ Static

\* completeStage, pending.Dec() == 0: `lock; err = sm.err; unlock; sm.complete(err)`
FinComplete(t) ==
  /\ Has(t, "cmp")
  /\ LET f == Top(t) IN
     /\ Complete(IF ~KeepFirstError THEN f.e ELSE IF ErrReadAtCompletion THEN errSeen ELSE f.es)
     /\ stacks' = Replace(t, [k |-> "end", s |-> f.s, q |-> f.q])
  /\ UNCHANGED <<pending, registered, done, errSeen, anyErr, TreeGhosts, finTwice>>
  /\ Static

FinEnd(t) ==
  /\ Has(t, "end")
  /\ stacks' = [stacks EXCEPT ![t] = Pop(t)]
  /\ UNCHANGED <<pending, registered, done, completed, cbCount, cbErr, errSeen, anyErr, TreeGhosts, finTwice>>
  /\ Static

\* Pipeline.Execute's deferred recover
MainComplete ==
  /\ Has("main", "mainc")
  /\ Complete(TRUE)
  /\ stacks' = [stacks EXCEPT !["main"] = << >>]
  /\ UNCHANGED <<pending, registered, done, errSeen, anyErr, TreeGhosts, finTwice>>
  /\ Static

Step(t) == Chk(t) \/ Register(t) \/ Plan(t) \/ OpRun(t) \/ Kids(t) \/ Next1(t)
             \/ FinMark(t) \/ FinUnlock(t) \/ FinDec(t) \/ FinComplete(t) \/ FinEnd(t)
Next == (\E t \in Thread : Step(t)) \/ MainComplete

Quiescent == \A t \in Thread : stacks[t] = << >>
NoPanic == /\ \A s \in Stage : outcome[s] # "planpanic" /\ npanic[s] = -1
           /\ \A n \in PNode : pout[n] # "panic"

\* ---------------------------------------------------------------- C19
AtMostOnce == cbCount <= 1
\* no stage panics => the completion is signalled only after every started stage finished
OnlyAfterAll == (NoPanic /\ cbCount = 1) => registered \subseteq done
\* whatever the panics: with per-stage recovery the same holds
OnlyAfterAllStrong == (RecoverPerStage /\ cbCount = 1) => registered \subseteq done
ErrorReported == (Quiescent /\ cbCount = 1 /\ anyErr) => cbErr
ExactlyOnceAtEnd == Quiescent => cbCount = 1
PendingSane == RecoverPerStage =>
                 pending = Cardinality(registered \ done) + Cardinality({t \in Thread : Has(t, "unl") \/ Has(t, "dec")})
\* completeStage marks every stage at most once (a stage is completed by exactly one of: the complete-callback,
\* the error handler, the recover)
CompletedOnce == ~finTwice
Terminates == <>(Quiescent /\ cbCount = 1)

\* ---------------------------------------------------------------- C19, plan tree of a stage
\* reference: the operators of the subtree of n in pre-order (an ignored not-found prunes its subtree)
RECURSIVE RefOrder(_), RefKids(_, _)
RefOrder(n) == (IF pout[n] = "none" THEN << >> ELSE << n >>)
                 \o (IF pout[n] = "ign" THEN << >> ELSE RefKids(n, 1))
RefKids(n, i) == IF i > Len(pkids[n]) THEN << >> ELSE RefOrder(pkids[n][i]) \o RefKids(n, i + 1)
\* ... cut after the first operator that fails or panics
RefRun(s) ==
  LET ro == RefOrder(proot[s])
      bad == {i \in 1..Len(ro) : pout[ro[i]] \in {"err", "panic"}} IN
  IF bad = {} THEN ro ELSE SubSeq(ro, 1, CHOOSE i \in bad : \A j \in bad : i <= j)
RefFails(s) == \E i \in 1..Len(RefRun(s)) : pout[RefRun(s)[i]] \in {"err", "panic"}

\* operators run in pre-order, each at most once, none after the first failure
PreOrderOK == \A s \in Stage : /\ Len(opLog[s]) <= Len(RefRun(s))
                               /\ opLog[s] = SubSeq(RefRun(s), 1, Len(opLog[s]))
NoOpAfterFailure == ~lateOp
\* a failure of an operator is the outcome of its stage: the state machine has seen an error once the stage is marked
FailureIsOutcome == (failedSt \cap done # {}) => errSeen
\* a stage is completed only when its walk is over (to the end, or to the first failure)
WalkComplete == RecoverPerStage =>
                  \A s \in done : outcome[s] = "tree" => /\ opLog[s] = RefRun(s)
                                                         /\ RefFails(s) = (s \in failedSt)
=============================================================================
