---------------------------- MODULE MCTableFile ----------------------------
(* Leg M of C15.  A transcription of the mechanisms of kv/table and           *)
(* kv/version, next to the reference of TableFile.tla:                        *)
(*   builder  - data area of "bytes", offset list, key set, min/max, first;   *)
(*              stream writer with its badKey flag and its remembered offset  *)
(*   reader   - value of key = data[off[rank(key)-1] .. off[rank(key)] or end) *)
(*   merge    - container/heap over one item per input (Init, Pop, Push+Fix)  *)
(*   version  - files selected by min <= key <= max, level by level            *)
(* TLC enumerates every sequence of builder operations (Add / stream, any key *)
(* of Keys in any order, any value of Vals) for NFiles files and checks, once *)
(* all files are closed, that the transcription answers exactly what the      *)
(* reference answers.  Dev switches a mechanism off (must be caught).          *)
EXTENDS TableFile

CONSTANTS Keys,     \* key universe (pairs <<0, k>>)
          Vals,     \* value ids; value v has VLen[v] bytes
          VLen,
          NFiles,
          Dev

VARIABLES ib,      \* file index -> builder as the code has it
          sw,      \* the stream writer of the file being built
          cur      \* file being built (NFiles + 1: all closed)
mcvars == <<vars, ib, sw, cur>>

K4 == {<<0, 0>>, <<0, 65535>>, <<1, 0>>, <<1, 1>>}     \* keys around the 65536 boundary
K3 == {<<0, 7>>, <<0, 65535>>, <<1, 0>>}
K5 == K4 \cup {<<65535, 65535>>}
VLen3 == <<0, 1, 2>>                                    \* value 1 is empty, 2 has one byte, 3 two
VLen2 == <<0, 2>>
BytesOf(v) == [j \in 1..VLen[v] |-> <<v, j>>]          \* a value's bytes, distinguishable
NewIB == [first |-> TRUE, minKey |-> Zero, maxKey |-> Zero, offs |-> <<>>, keys |-> {}, data |-> <<>>]
NoSW == [active |-> FALSE, bad |-> TRUE, key |-> Zero, off |-> 0, size |-> 0, v |-> 0, len |-> 0]

(* builder.go *)
EnsureIncreasing(b, k) == b.first \/ ~KLeq(k, b.maxKey)
AfterWrite(b, k, off) ==
  [b EXCEPT !.offs = Append(@, off), !.keys = @ \cup {k},
            !.minKey = IF b.first THEN k ELSE @, !.maxKey = k, !.first = FALSE]
AddImpl(b, k, v) ==
  IF ~EnsureIncreasing(b, k) THEN b
  ELSE AfterWrite([b EXCEPT !.data = @ \o BytesOf(v)], k, Len(b.data))
ImplProj(b) == [min |-> b.minKey, max |-> b.maxKey, count |-> Cardinality(b.keys), size |-> Len(b.data)]

(* reader.go: keys bitmap + offsets + entries block *)
Rank(b, k) == Cardinality({x \in b.keys : KLeq(x, k)})
Block(b, idx) ==      \* FixedOffsetDecoder.GetBlock(idx, entries)
  LET s == b.offs[idx + 1]
      e == IF idx + 2 <= Len(b.offs) THEN b.offs[idx + 2] ELSE Len(b.data)
  IN SubSeq(b.data, s + 1, e)
ImplGet(b, k) == IF k \notin b.keys THEN <<FALSE, <<>>>> ELSE <<TRUE, Block(b, Rank(b, k) - 1)>>
SortedKeys(b) == SortSeq(SetToSeq(b.keys), KLess)
ImplIter(b) == LET ks == SortedKeys(b) IN [i \in 1..Len(ks) |-> <<ks[i], Block(b, i - 1)>>]

(* iterator.go: priority queue of items [it, pos, key, val] *)
Less(pq, i, j) == KLess(pq[i].key, pq[j].key)          \* 1-based positions
Swap(pq, i, j) == [pq EXCEPT ![i] = pq[j], ![j] = pq[i]]
RECURSIVE Down(_, _, _)
Down(pq, i, n) ==         \* heap.down on positions 1..n
  LET j1 == 2 * i IN
  IF j1 > n THEN pq
  ELSE LET j == IF j1 + 1 <= n /\ Less(pq, j1 + 1, j1) THEN j1 + 1 ELSE j1 IN
       IF ~Less(pq, j, i) THEN pq ELSE Down(Swap(pq, i, j), j, n)
RECURSIVE Up(_, _)
Up(pq, j) ==
  IF j = 1 THEN pq
  ELSE LET i == j \div 2 IN IF ~Less(pq, j, i) THEN pq ELSE Up(Swap(pq, i, j), i)
RECURSIVE HeapInit(_, _)
HeapInit(pq, i) == IF i < 1 THEN pq ELSE HeapInit(Down(pq, i, Len(pq)), i - 1)
ItemAt(its, it, pos) == [it |-> it, pos |-> pos, key |-> its[it][pos][1], val |-> its[it][pos][2]]
RECURSIVE Drain(_, _, _)
Drain(its, pq, out) ==
  IF pq = <<>> THEN out
  ELSE LET n == Len(pq)
           p1 == Down(Swap(pq, 1, n), 1, n - 1)             \* heap.Pop: swap, down, take the last
           top == p1[n]
           rest == SubSeq(p1, 1, n - 1)
           more == top.pos < Len(its[top.it])
           p2 == IF more
                 THEN LET q == Append(rest, ItemAt(its, top.it, top.pos + 1))   \* pq.Push, then heap.Fix(last)
                      IN IF "merge_no_fix" \in Dev THEN q ELSE Up(q, Len(q))
                 ELSE rest
       IN Drain(its, p2, Append(out, <<top.key, top.val>>))
ImplMerge(its) ==
  LET live == SelectSeq([i \in 1..Len(its) |-> i], LAMBDA i : its[i] # <<>>)
      pq0 == [j \in 1..Len(live) |-> ItemAt(its, live[j], 1)]
  IN Drain(its, HeapInit(pq0, Len(pq0) \div 2), <<>>)

(* version.go FindFiles: level by level, every file of the level whose [minKey, maxKey] holds the key. *)
(* lv = the level of each file (0..2); the files of a level sit in a map, so a scan that stops at the  *)
(* first hit of a level (Deviation find_one_per_level: "the files of a compacted level do not overlap") *)
(* answers ANY one of the level's covering files.  ImplFinds = the set of possible answers.             *)
InRange(f, k) == ~ib[f].first /\ KLeq(ib[f].minKey, k) /\
                 (IF "find_exclusive_max" \in Dev THEN KLess(k, ib[f].maxKey) ELSE KLeq(k, ib[f].maxKey))
CoverIn(k, lv, n) == {f \in 1..NFiles : lv[f] = n /\ InRange(f, k)}
OneOf(S) == IF S = {} THEN {{}} ELSE {{f} : f \in S}
ImplFinds(k, lv) ==
  IF "find_one_per_level" \in Dev
  THEN {CoverIn(k, lv, 0) \cup a \cup b : a \in OneOf(CoverIn(k, lv, 1)), b \in OneOf(CoverIn(k, lv, 2))}
  ELSE {CoverIn(k, lv, 0) \cup CoverIn(k, lv, 1) \cup CoverIn(k, lv, 2)}
LevelMaps == [1..NFiles -> 0..2]

-----------------------------------------------------------------------------
MCInit ==
  /\ bld = (1 :> NewBuilder) /\ tab = <<>> /\ ver = <<>> /\ big = <<>>
  /\ ib = [f \in 1..NFiles |-> NewIB] /\ sw = NoSW /\ cur = 1

\* reference side of one offered key (outputs come from the transcription; a mismatch disables the
\* step, which the invariant BuilderAgrees reports one state earlier through the projection)
RefOffer(k, v) == bld' = [bld EXCEPT ![cur] = Offer(@, k, v, VLen[v])]

MCAdd(k, v) ==
  /\ cur <= NFiles /\ ~sw.active
  /\ ib' = [ib EXCEPT ![cur] = AddImpl(@, k, v)]
  /\ RefOffer(k, v) /\ UNCHANGED <<tab, ver, big, sw, cur>>
\* stream writer: Prepare(k); Write(bytes of v) ...; Commit
MCPrepare(k, v) ==
  /\ cur <= NFiles /\ ~sw.active
  /\ sw' = [active |-> TRUE, bad |-> ("stream_ignores_order" \notin Dev /\ ~EnsureIncreasing(ib[cur], k)), key |-> k, off |-> Len(ib[cur].data),
            size |-> 0, v |-> v, len |-> 0]
  /\ UNCHANGED <<vars, ib, cur>>
MCWrite ==          \* one byte at a time
  /\ sw.active /\ sw.len < VLen[sw.v]
  /\ ib' = IF sw.bad THEN ib ELSE [ib EXCEPT ![cur].data = Append(@, <<sw.v, sw.len + 1>>)]
  /\ sw' = [sw EXCEPT !.len = @ + 1, !.size = IF sw.bad THEN @ ELSE @ + 1]
  /\ UNCHANGED <<vars, cur>>
MCCommit ==
  /\ sw.active /\ sw.len = VLen[sw.v]
  /\ ib' = IF sw.bad THEN ib ELSE [ib EXCEPT ![cur] = AfterWrite(@, sw.key, sw.off)]
  /\ sw' = NoSW
  /\ RefOffer(sw.key, sw.v) /\ UNCHANGED <<tab, ver, big, cur>>
\* Deviation stream_abort: a stream that is prepared and written but never committed leaves its
\* bytes in the data area (the protocol Prepare, Write, Commit is the caller's duty)
MCAbort ==
  /\ "stream_abort" \in Dev /\ sw.active /\ sw.len > 0
  /\ sw' = NoSW /\ UNCHANGED <<vars, ib, cur>>
MCClose ==
  /\ cur <= NFiles /\ ~sw.active /\ bld[cur].ks # <<>>
  /\ tab' = Put(tab, cur, [ks |-> bld[cur].ks, vs |-> bld[cur].vs])
  /\ ver' = Put(ver, cur, [ks |-> bld[cur].ks, vs |-> bld[cur].vs, lvl |-> 0])
  /\ bld' = IF cur < NFiles THEN Put([bld EXCEPT ![cur].open = FALSE], cur + 1, NewBuilder)
            ELSE [bld EXCEPT ![cur].open = FALSE]
  /\ cur' = cur + 1 /\ UNCHANGED <<big, ib, sw>>

MCNext ==
  \/ \E k \in Keys, v \in Vals : MCAdd(k, v) \/ MCPrepare(k, v)
  \/ MCWrite \/ MCCommit \/ MCAbort \/ MCClose
MCSpec == MCInit /\ [][MCNext]_mcvars

-----------------------------------------------------------------------------
Closed == 1..(cur - 1)
\* the builder's own answers (MinKey, MaxKey, Count, Size) while building
BuilderAgrees == \A f \in DOMAIN bld : ~sw.active =>
                    ImplProj(ib[f]) = [Proj(bld[f]) EXCEPT !.size = Len(ib[f].data)]
SizeAgrees == \A f \in DOMAIN bld : (~sw.active /\ "stream_abort" \notin Dev) => Len(ib[f].data) = bld[f].size
\* lookups: every key of the universe, present or absent, in every closed file
RefGet(T, k) == IF Where(T, k) = {} THEN <<FALSE, <<>>>> ELSE <<TRUE, BytesOf(T.vs[CHOOSE i \in Where(T, k) : TRUE])>>
GetAgrees == \A f \in Closed : \A k \in Keys : ImplGet(ib[f], k) = RefGet(tab[f], k)
IterAgrees == \A f \in Closed : ImplIter(ib[f]) = [i \in 1..Len(tab[f].ks) |-> <<tab[f].ks[i], BytesOf(tab[f].vs[i])>>]
\* merge of all closed files, in every order of the inputs (only when everything is closed: cost)
Perms(S) == {p \in [1..Cardinality(S) -> S] : \A i, j \in DOMAIN p : i # j => p[i] # p[j]}
IdIter(f) == [i \in 1..Len(tab[f].ks) |-> <<tab[f].ks[i], <<f, tab[f].vs[i]>>>>]    \* values tagged by file
MergeAgrees ==
  cur = NFiles + 1 =>
    \A p \in Perms(Closed) :
      LET its == [i \in 1..Len(p) |-> IdIter(p[i])]
          out == ImplMerge(its)
          Lt(a, b) == KLess(a[1], b[1]) \/ (a[1] = b[1] /\ a[2][1] < b[2][1])
      IN /\ NonDescending([i \in 1..Len(out) |-> out[i][1]])
         /\ SortSeq(out, Lt) = SortSeq(FoldLeft(LAMBDA acc, it : acc \o it, <<>>, its), Lt)
\* file selection: a file that holds the key is always selected; selection = range test of the reference
\* (once all files are closed: under every placement of the files in levels 0..2 and every answer the map
\* order allows; before: all files in level 0 -- cost; a closed file never changes afterwards)
FindAgrees == \A lv \in (IF cur = NFiles + 1 THEN LevelMaps ELSE {[f \in 1..NFiles |-> 0]}) :
               \A k \in Keys : \A S \in ImplFinds(k, lv) :
                 /\ S \cap Closed = {f \in DOMAIN ver : Covers(f, k)}
                 /\ Holding(k) \subseteq S
RefSelectionComplete == SelectionComplete
=============================================================================
