---------------------------- MODULE IDDictSeries ----------------------------
(***************************************************************************)
(* Series ids of one metric in one shard (index/metric_index_database.go   *)
(* GenSeriesID / createSeriesID / PrepareFlush / Flush, driven by the      *)
(* event loop of tsdb/memdb/index_database.go) -- property C09, the part   *)
(* "a name created after recovery never receives an id that a recovered    *)
(* dictionary already uses for another name".                              *)
(*                                                                         *)
(* Two structures hold a series id: the series dictionary (tags -> id:     *)
(* mutable / immutable / persisted, an index kv store as in IDDict) and    *)
(* the postings of the metric (metric -> set of series ids: mutable /      *)
(* immutable / persisted).  There is no durable counter: a new id is       *)
(* `last + 1` from a memory cache, and after a restart `max(postings) + 1`.*)
(* So an id must never be durable in the dictionary without being durable  *)
(* in the postings (UsedDurable).  The code gets that from two things:     *)
(*   LoopPrepare    GenSeriesID (dictionary entry first, postings entry    *)
(*                  second, two lock sections) and PrepareFlush (swaps the *)
(*                  postings and the dictionary one after the other, two   *)
(*                  lock sections) are executed by ONE goroutine, the      *)
(*                  event loop; only the writing (Flush) runs in the       *)
(*                  background.  FALSE = the swap belongs to the           *)
(*                  background flush job.                                  *)
(*   PostingsFirst  Flush commits the postings before the dictionary.      *)
(*                  FALSE = dictionary first.                              *)
(* Each switch off must produce a counterexample (the _dev_ configs).      *)
(* The loop takes rows and flush requests from one channel; a crash loses  *)
(* everything that is not persisted (and the cache).                       *)
(***************************************************************************)
EXTENDS Integers, FiniteSets, TLC

CONSTANTS Series, MaxFlush, MaxCrash, LoopPrepare, PostingsFirst

VARIABLES sMut, sImm, sDisk,   \* series dictionary: tags -> id
          pMut, pImm, pDisk,   \* postings of the metric: sets of ids
          cache,               \* sequence cache: last id created since the start, -1 = none
          loop,                \* the event loop: [pc |-> "idle"] or [pc |-> "mid", n, id] inside GenSeriesID
          fl,                  \* flush job: "none" | "p1" | "p2" (swaps, background only) | "f1" | "f2" (commits)
          nfl, ncr,
          hist                 \* <<tags, id>> returned since the last start

vars == <<sMut, sImm, sDisk, pMut, pImm, pDisk, cache, loop, fl, nfl, ncr, hist>>

Empty == [n \in {} |-> 0]
Put(f, n, v) == [x \in (DOMAIN f) \cup {n} |-> IF x = n THEN v ELSE f[x]]
Merge(f, g) == [x \in (DOMAIN f) \cup (DOMAIN g) |-> IF x \in DOMAIN g THEN g[x] ELSE f[x]]
Max(S) == CHOOSE x \in S : \A y \in S : y <= x
Idle == [pc |-> "idle"]

Init == /\ sMut = Empty /\ sImm = Empty /\ sDisk = Empty
        /\ pMut = {} /\ pImm = {} /\ pDisk = {}
        /\ cache = -1 /\ loop = Idle /\ fl = "none" /\ nfl = 0 /\ ncr = 0 /\ hist = {}

\* createSeriesID
NewID == IF cache >= 0 THEN cache + 1
         ELSE LET all == pDisk \cup pImm \cup pMut IN IF all = {} THEN 0 ELSE Max(all) + 1

\* the loop takes a row: series.GetOrCreateValue (its own atomicity is the subject of IDDict)
RowBegin(n) ==
  /\ loop.pc = "idle"
  /\ IF n \in DOMAIN sMut THEN hist' = hist \cup {<<n, sMut[n]>>} /\ UNCHANGED <<sMut, loop>>
     ELSE IF n \in DOMAIN sImm THEN hist' = hist \cup {<<n, sImm[n]>>} /\ UNCHANGED <<sMut, loop>>
     ELSE IF n \in DOMAIN sDisk THEN hist' = hist \cup {<<n, sDisk[n]>>} /\ UNCHANGED <<sMut, loop>>
     ELSE /\ sMut' = Put(sMut, n, NewID) /\ loop' = [pc |-> "mid", n |-> n, id |-> NewID] /\ UNCHANGED hist
  /\ UNCHANGED <<sImm, sDisk, pMut, pImm, pDisk, cache, fl, nfl, ncr>>

\* ... new series: sequenceCache.Add, metricInverted.put (the tag postings are C10's)
RowEnd ==
  /\ loop.pc = "mid"
  /\ cache' = loop.id /\ pMut' = pMut \cup {loop.id}
  /\ hist' = hist \cup {<<loop.n, loop.id>>} /\ loop' = Idle
  /\ UNCHANGED <<sMut, sImm, sDisk, pImm, pDisk, fl, nfl, ncr>>

\* the loop takes a flush request (one flush job at a time: shard.isFlushing)
FlushReq ==
  /\ loop.pc = "idle" /\ fl = "none" /\ nfl < MaxFlush /\ nfl' = nfl + 1
  /\ IF LoopPrepare
       THEN /\ pImm' = pMut /\ pMut' = {} /\ sImm' = sMut /\ sMut' = Empty /\ fl' = "f1"
       ELSE /\ fl' = "p1" /\ UNCHANGED <<sMut, sImm, pMut, pImm>>
  /\ UNCHANGED <<sDisk, pDisk, cache, loop, ncr, hist>>

\* PrepareFlush executed by the background job: metricInverted.prepareFlush, ..., series.PrepareFlush
SwapPostings == /\ fl = "p1" /\ pImm' = pMut /\ pMut' = {} /\ fl' = "p2"
                /\ UNCHANGED <<sMut, sImm, sDisk, pDisk, cache, loop, nfl, ncr, hist>>
SwapDict == /\ fl = "p2" /\ sImm' = sMut /\ sMut' = Empty /\ fl' = "f1"
            /\ UNCHANGED <<sDisk, pMut, pImm, pDisk, cache, loop, nfl, ncr, hist>>

CommitPostings == pDisk' = pDisk \cup pImm /\ pImm' = {} /\ UNCHANGED <<sDisk, sImm>>
CommitDict == sDisk' = Merge(sDisk, sImm) /\ sImm' = Empty /\ UNCHANGED <<pDisk, pImm>>
Commit1 == /\ fl = "f1" /\ fl' = "f2" /\ (IF PostingsFirst THEN CommitPostings ELSE CommitDict)
           /\ UNCHANGED <<sMut, pMut, cache, loop, nfl, ncr, hist>>
Commit2 == /\ fl = "f2" /\ fl' = "none" /\ (IF PostingsFirst THEN CommitDict ELSE CommitPostings)
           /\ UNCHANGED <<sMut, pMut, cache, loop, nfl, ncr, hist>>

Crash == /\ ncr < MaxCrash /\ ncr' = ncr + 1
         /\ sMut' = Empty /\ sImm' = Empty /\ pMut' = {} /\ pImm' = {}
         /\ cache' = -1 /\ loop' = Idle /\ fl' = "none" /\ hist' = {}
         /\ UNCHANGED <<sDisk, pDisk, nfl>>

Next == \/ \E n \in Series : RowBegin(n)
        \/ RowEnd \/ FlushReq \/ SwapPostings \/ SwapDict \/ Commit1 \/ Commit2 \/ Crash
Spec == Init /\ [][Next]_vars

\* ------------------------------------------------------------------ properties (C09)
Stable == \A a, b \in hist : a[1] = b[1] => a[2] = b[2]
\* two series never share an id -- in particular a series created after a recovery and a recovered one
Injective == \A a, b \in hist : a[2] = b[2] => a[1] = b[1]
\* the inductive reason: an id that is durable in the dictionary is durable in the postings
UsedDurable == \A n \in DOMAIN sDisk : sDisk[n] \in pDisk
=============================================================================
