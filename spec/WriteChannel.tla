---------------------------- MODULE WriteChannel ----------------------------
(***************************************************************************)
(* The broker's family write channel (replica/channel_family.go, chunk.go, *)
(* rpc/write_stream.go) -- an extension beyond the listed properties       *)
(* (DESIGN.md section 0.8).                                                *)
(*                                                                         *)
(* Writers append rows to the open chunk under lock4write; a chunk that is *)
(* full (K rows) is compressed and pushed into `ch` (a Go channel of       *)
(* capacity ChCap), the writer blocks while `ch` is full.  ONE goroutine   *)
(* (`writeTask`) selects over: the stopping signal, the leader-changed     *)
(* signal, `ch`, a one-second ticker (`checkFlush`: pushes a non-empty     *)
(* chunk when the last flush is older than the batch timeout) and the      *)
(* context.  `send` creates the stream to the leader read under lock4meta  *)
(* when there is none, then Sends; a chunk whose send failed goes to the   *)
(* retry buffer.  Rows are numbered 1, 2, ... in the order they are        *)
(* written.  Every action is one step of the code between two points where *)
(* the goroutine can be observed (stream factory, Send, CloseSend).        *)
(*                                                                         *)
(* Switches: the value named `code` is what replica/channel_family.go      *)
(* does; the other value is the behaviour the invariant below it needs.    *)
(***************************************************************************)
EXTENDS Integers, Sequences, FiniteSets, TLC

CONSTANTS
  Node, None,
  K,                   \* rows per full chunk (BatchBlockSize / row size)
  ChCap,               \* capacity of fc.ch (code: 2)
  MaxRetry,            \* fc.maxRetryBuf (code: 100); the buffer holds up to MaxRetry + 1 chunks
  RetryDup,            \* code TRUE : a chunk whose re-send fails is put into the retry buffer by send() AND by the retry loop (twice)
  StopDropsRetry,      \* code TRUE : sendBeforeStop sends the open chunk and what is in ch, never the retry buffer
  StickyNotify,        \* code TRUE : the leader-changed signal handled while there is no stream leaves notifyLeaderChange set
  StopChunkFirst,      \* code TRUE : sendBeforeStop sends the open chunk (newest rows) before the chunks still queued in ch
  RetryOnTick,         \* code FALSE: the retry buffer is re-sent only after a LATER chunk from ch was sent successfully
  TimerPushUnguarded,  \* code TRUE : checkFlush pushes into ch from the only goroutine that drains ch (full: blocks for ever; closed: panics)
  CloseOnDrop          \* code FALSE: a stream dropped after a failed Send (error other than io.EOF) is not closed

VARIABLES
  leader,     \* shardState.Leader as the family channel knows it (lock4meta)
  notify,     \* notifyLeaderChange
  sig,        \* a signal is (about to be) in leaderChangedSignal
  next,       \* id of the next row written
  chunk,      \* rows in the open chunk
  ch,         \* Seq of chunks queued in fc.ch
  closed,     \* Stop was called: stoppingSignal and ch are closed
  wb,         \* None or the compressed chunk a writer is blocked pushing (it holds lock4write)
  pc,         \* writeTask: "idle" (in select / between steps), "send" (inside send(cur)), "dial" (creating the stream),
              \*            "tblocked" (checkFlush blocked pushing cur into a full ch)
  cur,        \* the chunk the task holds
  src,        \* where cur came from: "ch", "loop" (retry loop), "stop" (sendBeforeStop)
  todo,       \* rest of the retry loop
  tgt,        \* node the stream is being created to
  stream,     \* None or the node of the task's stream
  open,       \* streams created and not closed (the storage side sees them)
  retry,      \* retryBuffers
  phase,      \* "run", "stop" (inside sendBeforeStop), "done" (task returned), "crashed" (panic in the task goroutine)
  cancelled,  \* fc.ctx is cancelled
  acked,      \* rows whose Write returned without an error
  deliv,      \* Seq of <<node, chunk>>: successful Sends in order
  lost,       \* [reason -> set of rows] given up by the code
  faults      \* injected faults so far (bounded in MC)

vars == <<leader, notify, sig, next, chunk, ch, closed, wb, pc, cur, src, todo, tgt, stream, open, retry, phase,
          cancelled, acked, deliv, lost, faults>>
meta == <<leader, notify, sig>>
wvars == <<next, chunk, wb, acked>>
tvars0 == <<pc, cur, src, todo, tgt>>

Rows(c) == {c[i] : i \in 1..Len(c)}
RowsOf(q) == UNION {Rows(q[i]) : i \in 1..Len(q)}
NoLoss == [overflow |-> {}, timeout |-> {}, stop |-> {}, onclosed |-> {}, cancel |-> {}]
Lose(why, rs) == [lost EXCEPT ![why] = @ \cup rs]
AllLost == lost.overflow \cup lost.timeout \cup lost.stop \cup lost.onclosed \cup lost.cancel

Init ==
  /\ leader \in Node /\ notify = FALSE /\ sig = FALSE
  /\ next = 1 /\ chunk = << >> /\ ch = << >> /\ closed = FALSE /\ wb = None
  /\ pc = "idle" /\ cur = << >> /\ src = "ch" /\ todo = << >> /\ tgt = None /\ stream = None /\ open = 0
  /\ retry = << >> /\ phase = "run" /\ cancelled = FALSE
  /\ acked = {} /\ deliv = << >> /\ lost = NoLoss /\ faults = 0

Alive == phase # "crashed"

\* ------------------------------------------------------------------ writers (lock4write)
\* one row of familyChannel.Write: WriteTo(chunk), flushChunkOnFull.  out: "ok", "block", "panic", "canceled"
WriteRow(out) ==
  /\ Alive /\ wb = None /\ pc # "tblocked"
  /\ next' = next + 1
  /\ LET c2 == Append(chunk, next) IN
     IF Len(c2) < K
       THEN /\ out = "ok" /\ chunk' = c2 /\ acked' = acked \cup {next}
            /\ UNCHANGED <<ch, wb, lost>>
       ELSE /\ chunk' = << >>
            /\ \/ /\ out = "ok" /\ ~closed /\ Len(ch) < ChCap
                  /\ ch' = Append(ch, c2) /\ acked' = acked \cup {next} /\ UNCHANGED <<wb, lost>>
               \/ /\ out = "block" /\ ~closed /\ Len(ch) = ChCap /\ ~cancelled
                  /\ wb' = c2 /\ UNCHANGED <<ch, acked, lost>>
               \/ /\ out = "panic" /\ closed          \* send on closed channel, in the caller's goroutine
                  /\ lost' = Lose("onclosed", Rows(c2)) /\ UNCHANGED <<ch, wb, acked>>
               \/ /\ out = "canceled" /\ cancelled    \* ErrFamilyChannelCanceled
                  /\ lost' = Lose("cancel", Rows(c2)) /\ UNCHANGED <<ch, wb, acked>>
  /\ UNCHANGED <<meta, closed, tvars0, stream, open, retry, phase, cancelled, deliv, faults>>

\* the blocked writer gets its slot
WritePush ==
  /\ wb # None /\ ~closed /\ Len(ch) < ChCap
  /\ ch' = Append(ch, wb) /\ acked' = acked \cup {wb[Len(wb)]} /\ wb' = None
  /\ UNCHANGED <<meta, next, chunk, closed, tvars0, stream, open, retry, phase, cancelled, deliv, lost, faults>>

\* the blocked writer gives up: its context ends ("timeout": ErrIngestTimeout), the channel context ends
\* ("canceled"), or Stop closes ch under it ("panic").  The chunk -- with rows of EARLIER successful calls -- is gone
WriteAbort(why) ==
  /\ wb # None
  /\ \/ why = "timeout"
     \/ why = "canceled" /\ cancelled
     \/ why = "panic" /\ closed
  /\ lost' = Lose(IF why = "timeout" THEN "timeout" ELSE IF why = "panic" THEN "onclosed" ELSE "cancel", Rows(wb))
  /\ wb' = None
  /\ UNCHANGED <<meta, next, chunk, ch, closed, tvars0, stream, open, retry, phase, cancelled, acked, deliv, faults>>

\* ------------------------------------------------------------------ environment
LeaderChange(n) ==
  /\ n # leader /\ leader' = n
  /\ IF notify THEN UNCHANGED <<notify, sig>> ELSE notify' = TRUE /\ sig' = TRUE
  /\ UNCHANGED <<wvars, ch, closed, tvars0, stream, open, retry, phase, cancelled, deliv, lost, faults>>

Stop ==
  /\ ~closed /\ closed' = TRUE
  /\ UNCHANGED <<meta, wvars, ch, tvars0, stream, open, retry, phase, cancelled, deliv, lost, faults>>

Cancel ==
  /\ ~cancelled /\ cancelled' = TRUE
  /\ UNCHANGED <<meta, wvars, ch, closed, tvars0, stream, open, retry, phase, deliv, lost, faults>>

\* ------------------------------------------------------------------ writeTask
Idle == Alive /\ pc = "idle"
Running == Idle /\ phase = "run"

\* retry(c): append unless the buffer is over its bound; <<buffer, rows dropped>>
RP(q, c) == IF Len(q) > MaxRetry THEN <<q, Rows(c)>> ELSE <<Append(q, c), {}>>

Begin(c, s) == /\ cur' = c /\ src' = s /\ pc' = "send"

\* case compressed := <-fc.ch
Take ==
  /\ Running /\ ch # << >>
  /\ Begin(Head(ch), "ch") /\ ch' = Tail(ch)
  /\ UNCHANGED <<meta, wvars, closed, todo, tgt, stream, open, retry, phase, cancelled, acked, deliv, lost, faults>>

\* the closed and drained ch yields nil, send(nil) is "successful": the retry loop runs
NilTake ==
  /\ Running /\ closed /\ ch = << >> /\ retry # << >>
  /\ Begin(Head(retry), "loop") /\ todo' = Tail(retry) /\ retry' = << >>
  /\ UNCHANGED <<meta, wvars, ch, closed, tgt, stream, open, phase, cancelled, deliv, lost, faults>>

\* repaired behaviour only: the ticker re-sends the retry buffer
RetryTick ==
  /\ RetryOnTick /\ Running /\ ~closed /\ ch = << >> /\ retry # << >>
  /\ Begin(Head(retry), "loop") /\ todo' = Tail(retry) /\ retry' = << >>
  /\ UNCHANGED <<meta, wvars, ch, closed, tgt, stream, open, phase, cancelled, deliv, lost, faults>>

\* ticker: checkFlush with an expired batch timeout (time is not modelled: any moment the chunk is non-empty)
TimerFlush ==
  /\ Running /\ chunk # << >> /\ wb = None
  /\ IF ~closed /\ Len(ch) < ChCap
       THEN /\ ch' = Append(ch, chunk) /\ chunk' = << >>
            /\ UNCHANGED <<pc, cur, phase, lost>>
       ELSE /\ TimerPushUnguarded
            /\ IF closed
                 THEN /\ phase' = "crashed" /\ chunk' = << >> /\ UNCHANGED <<ch, pc, cur>>   \* send on closed channel in the task
                      /\ lost' = Lose("onclosed", Rows(chunk))
                 ELSE /\ pc' = "tblocked" /\ cur' = chunk /\ chunk' = << >> /\ UNCHANGED <<ch, phase, lost>>
  /\ UNCHANGED <<meta, next, wb, acked, closed, src, todo, tgt, stream, open, retry, cancelled, deliv, faults>>

\* the only ways out of the blocked push: the context ends (chunk dropped) or Stop closes ch (panic)
TimerUnblock ==
  /\ Alive /\ pc = "tblocked"
  /\ \/ /\ cancelled /\ ~closed /\ pc' = "idle" /\ lost' = Lose("cancel", Rows(cur)) /\ UNCHANGED phase
     \/ /\ closed /\ phase' = "crashed" /\ pc' = "idle" /\ lost' = Lose("onclosed", Rows(cur))
  /\ UNCHANGED <<meta, wvars, ch, closed, cur, src, todo, tgt, stream, open, retry, cancelled, deliv, faults>>

\* case <-fc.leaderChangedSignal
SigClose ==
  /\ Running /\ sig /\ stream # None
  /\ stream' = None /\ open' = open - 1 /\ notify' = FALSE /\ sig' = FALSE
  /\ UNCHANGED <<leader, wvars, ch, closed, tvars0, retry, phase, cancelled, deliv, lost, faults>>
SigNil ==
  /\ Running /\ sig /\ stream = None
  /\ sig' = FALSE /\ notify' = IF StickyNotify THEN notify ELSE FALSE
  /\ UNCHANGED <<leader, wvars, ch, closed, tvars0, stream, open, retry, phase, cancelled, deliv, lost, faults>>

\* ---- sendBeforeStop (stopping signal or context): open chunk, queued chunks, [retry buffer], stopped
Stopping == Idle /\ (closed \/ cancelled) /\ phase \in {"run", "stop"}
ChunkTurn == chunk # << >> /\ (StopChunkFirst => phase = "run") /\ (~StopChunkFirst => ch = << >> /\ closed)
StopChunk ==
  /\ Stopping /\ ChunkTurn
  /\ Begin(chunk, "stop") /\ chunk' = << >> /\ phase' = "stop"
  /\ UNCHANGED <<meta, next, wb, acked, ch, closed, todo, tgt, stream, open, retry, cancelled, deliv, lost, faults>>
StopTake ==
  /\ Stopping /\ ch # << >> /\ (StopChunkFirst => (phase = "stop" \/ chunk = << >>))
  /\ Begin(Head(ch), "stop") /\ ch' = Tail(ch) /\ phase' = "stop"
  /\ UNCHANGED <<meta, wvars, closed, todo, tgt, stream, open, retry, cancelled, deliv, lost, faults>>
StopRetry ==
  /\ ~StopDropsRetry /\ Stopping /\ ~cancelled /\ closed /\ ch = << >> /\ chunk = << >> /\ retry # << >>
  /\ Begin(Head(retry), "stop") /\ retry' = Tail(retry) /\ phase' = "stop"
  /\ UNCHANGED <<meta, wvars, ch, closed, todo, tgt, stream, open, cancelled, deliv, lost, faults>>
\* the range over ch ends only when ch is closed; stoppedSignal, deferred stream.Close
StopDone ==
  /\ Stopping /\ closed /\ ch = << >>
  /\ IF StopChunkFirst THEN (phase = "stop" \/ chunk = << >>) ELSE chunk = << >>
  /\ StopDropsRetry \/ retry = << >> \/ cancelled
  /\ phase' = "done" /\ lost' = Lose("stop", RowsOf(retry)) /\ retry' = << >>
  /\ stream' = None /\ open' = IF stream = None THEN open ELSE open - 1
  /\ UNCHANGED <<meta, wvars, ch, closed, tvars0, cancelled, deliv, faults>>

\* ---- send(cur)
Dial ==
  /\ Alive /\ pc = "send" /\ stream = None
  /\ tgt' = leader /\ pc' = "dial"
  /\ UNCHANGED <<meta, wvars, ch, closed, cur, src, todo, stream, open, retry, phase, cancelled, acked, deliv, lost, faults>>

\* what follows a finished send(cur); q = retry buffer after send(), st = the task's stream after send()
After(okk, q, st) ==
  CASE src = "ch" ->
         IF okk /\ q # << >>
           THEN /\ cur' = Head(q) /\ todo' = Tail(q) /\ retry' = << >> /\ src' = "loop" /\ pc' = "send" /\ stream' = st
           ELSE /\ pc' = "idle" /\ retry' = q /\ UNCHANGED <<cur, src, todo>>
                /\ stream' = IF okk THEN st ELSE None      \* `stream = nil` without Close
    [] src = "loop" ->
         /\ stream' = st /\ retry' = q
         /\ IF todo = << >> THEN pc' = "idle" /\ UNCHANGED <<cur, src, todo>>
            ELSE cur' = Head(todo) /\ todo' = Tail(todo) /\ pc' = "send" /\ UNCHANGED src
    [] src = "stop" ->
         /\ stream' = st /\ retry' = q /\ pc' = "idle" /\ UNCHANGED <<cur, src, todo>>

\* retry buffer and dropped rows after a failed send(cur): send() calls retry(cur); the retry loop calls it again
FailQ ==
  LET a == RP(retry, cur) IN
  IF src = "loop" /\ RetryDup THEN LET b == RP(a[1], cur) IN <<b[1], a[2] \cup b[2]>> ELSE a

Created(okk) ==
  /\ Alive /\ pc = "dial"
  /\ IF okk
       THEN /\ ~cancelled
            /\ stream' = tgt /\ open' = open + 1 /\ pc' = "send"
            /\ UNCHANGED <<cur, src, todo, retry, lost, faults>>
       ELSE /\ faults' = IF cancelled THEN faults ELSE faults + 1
            /\ lost' = Lose("overflow", FailQ[2])
            /\ After(FALSE, FailQ[1], None) /\ UNCHANGED open
  /\ UNCHANGED <<meta, wvars, ch, closed, tgt, phase, cancelled, deliv>>

\* res: "ok", "err" (any error but io.EOF: the stream object is kept by send()), "eof" (stream closed and dropped)
Send(res) ==
  /\ Alive /\ pc = "send" /\ stream # None
  /\ IF res = "ok"
       THEN /\ ~cancelled
            /\ deliv' = Append(deliv, <<stream, cur>>)
            /\ After(TRUE, retry, stream)
            /\ UNCHANGED <<lost, faults, open>>
       ELSE /\ res \in {"err", "eof"}
            /\ faults' = IF cancelled THEN faults ELSE faults + 1
            /\ lost' = Lose("overflow", FailQ[2])
            /\ IF res = "eof"
                 THEN After(FALSE, FailQ[1], None) /\ open' = open - 1
                 ELSE /\ After(FALSE, FailQ[1], stream)
                      /\ open' = IF src = "ch" /\ CloseOnDrop THEN open - 1 ELSE open
            /\ UNCHANGED deliv
  /\ UNCHANGED <<meta, wvars, ch, closed, tgt, phase, cancelled>>

TaskStep ==
  \/ Take \/ NilTake \/ RetryTick \/ TimerFlush \/ TimerUnblock \/ SigClose \/ SigNil
  \/ StopChunk \/ StopTake \/ StopRetry \/ StopDone \/ Dial
  \/ \E okk \in BOOLEAN : Created(okk)
  \/ \E res \in {"ok", "err", "eof"} : Send(res)

Next ==
  \/ \E out \in {"ok", "block", "panic", "canceled"} : WriteRow(out)
  \/ WritePush
  \/ \E why \in {"timeout", "canceled", "panic"} : WriteAbort(why)
  \/ \E n \in Node : LeaderChange(n)
  \/ Stop \/ Cancel \/ TaskStep

Spec == Init /\ [][Next]_vars

\* ------------------------------------------------------------------ properties
DelivRows(i) == Rows(deliv[i][2])
Delivered == UNION {DelivRows(i) : i \in 1..Len(deliv)}
Times(r) == Cardinality({i \in 1..Len(deliv) : r \in DelivRows(i)})
InFlight == Rows(chunk) \cup RowsOf(ch) \cup RowsOf(retry) \cup RowsOf(todo)
            \cup (IF pc \in {"send", "dial", "tblocked"} THEN Rows(cur) ELSE {})
            \cup (IF wb = None THEN {} ELSE Rows(wb))

TypeOK ==
  /\ Len(ch) <= ChCap /\ Len(chunk) < K /\ Len(retry) <= MaxRetry + 1
  /\ open >= 0 /\ (stream # None => open >= 1)
  /\ pc \in {"idle", "send", "dial", "tblocked"}

\* every row a writer was told is accepted is somewhere: on its way, delivered, or given up for a NAMED reason
Conservation == acked \subseteq (InFlight \cup Delivered \cup AllLost)
\* rows are packed into chunks in arrival order: every chunk anywhere is a run of consecutive row ids
Consecutive(c) == \A i \in 1..Len(c) - 1 : c[i + 1] = c[i] + 1
ChunksAreRuns ==
  /\ Consecutive(chunk) /\ \A i \in 1..Len(ch) : Consecutive(ch[i]) /\ Len(ch[i]) >= 1
  /\ \A i \in 1..Len(deliv) : Consecutive(deliv[i][2])
  /\ \A i \in 1..Len(ch) - 1 : ch[i][Len(ch[i])] < ch[i + 1][1]
  /\ (ch # << >> /\ chunk # << >>) => ch[Len(ch)][Len(ch[Len(ch)])] < chunk[1]
\* no fault so far: nothing is sent twice, nothing waits for a retry, nothing is given up while running
FaultFreeOnce == (faults = 0 /\ ~cancelled) => (\A r \in Delivered : Times(r) = 1) /\ retry = << >> /\ lost.overflow = {}
\* no fault, no leader change handled yet...: deliveries are in row order (StopChunkFirst breaks it at Stop)
InOrder == faults = 0 => \A i \in 1..Len(deliv) - 1 : deliv[i][2][1] < deliv[i + 1][2][1]
\* a failed Send is "not delivered" here, so a correct retry never delivers a chunk twice (RetryDup does)
AtMostOnce == \A r \in Delivered : Times(r) = 1
\* a stream to a node that is no longer the leader is about to be closed by a pending signal (StickyNotify breaks it)
StaleStreamSignalled == (phase = "run" /\ stream # None /\ stream # leader) => sig
NotifyMeansSignal == (phase = "run" /\ notify) => sig
\* after a completed Stop on a live context everything accepted before it is delivered or given up for a reason
\* other than "stop" (StopDropsRetry breaks it: the retry buffer is discarded)
StopDelivers == (phase = "done" /\ ~cancelled) => lost.stop = {}
\* the task never blocks itself and never panics (TimerPushUnguarded breaks it)
TaskNeverStuck == pc # "tblocked" /\ phase # "crashed"
\* every stream the storage side sees open is the one the task uses (CloseOnDrop = FALSE leaks)
NoStreamLeak == open = (IF stream = None THEN 0 ELSE 1)
=============================================================================
