\* the design with both windows closed: all properties hold
CONSTANTS
  Writer = {w1, w2}
  MaxObj = 3
  MaxFam = 3
  MaxRow = 3
  ClosedSegmentRejects = TRUE
  ClosedFamilyRejects = TRUE
SPECIFICATION Spec
INVARIANTS TypeOK OneOpenStore MapIsOpen NoOrphanFamily NoLateWrite AcceptedCanBeDurable NoFailedFlush
CHECK_DEADLOCK FALSE
