CONSTANTS
  SeriesFirst = FALSE
  CommitSeqBeforeWrite = FALSE
  FreezeBeforeMetaFlush = FALSE
  ExpireOnConsumed = FALSE
  IgnoreOverGap = FALSE
  Writable = FALSE
SPECIFICATION TraceSpec
INVARIANTS SeriesIndexed AckNotAhead NoLoss NoReapply FlushedResolves NoIdReuse IndexedResolves AckedDataIndexed
CONSTRAINT HighWater
POSTCONDITION TraceAccepted
CHECK_DEADLOCK FALSE
