package main

import (
	"bytes"
	"fmt"
	"math/rand"
	"os"
	"path/filepath"
	"sort"
	"strings"
	"time"

	protoMetricsV1 "github.com/lindb/common/proto/gen/v1/linmetrics"

	"github.com/lindb/lindb/config"
	"github.com/lindb/lindb/kv"
	"github.com/lindb/lindb/models"
	"github.com/lindb/lindb/pkg/option"
	"github.com/lindb/lindb/pkg/timeutil"
	"github.com/lindb/lindb/series/metric"
	"github.com/lindb/lindb/tsdb"

	"verif/harness/internal/kvwrap"
	"verif/harness/internal/trace"
)

// storageRows converts proto metrics into the rows a data family writes (the broker's wire form)
func storageRows(ms ...*protoMetricsV1.Metric) []*metric.StorageRow {
	ml := protoMetricsV1.MetricList{Metrics: ms}
	var buf bytes.Buffer
	converter := metric.NewProtoConverter(models.NewDefaultLimits())
	_, _ = converter.MarshalProtoMetricListV1To(ml, &buf)
	var br metric.StorageBatchRows
	br.UnmarshalRows(buf.Bytes())
	return br.Rows()
}

func openEngineAt(dir string) (tsdb.Engine, error) {
	cfg := config.NewDefaultStorageBase()
	cfg.TSDB.Dir = dir
	config.SetGlobalStorageConfig(cfg)
	return tsdb.NewEngine()
}

// storesOf returns the kv stores of the database whose name contains the interval type directory
func storesOf(db, intervalType string) []kv.Store {
	var out []kv.Store
	for _, s := range kv.GetStoreManager().GetStores() {
		if strings.Contains(s.Name(), string(filepath.Separator)+db+string(filepath.Separator)) &&
			strings.Contains(s.Name(), string(filepath.Separator)+"segment"+string(filepath.Separator)+intervalType+string(filepath.Separator)) {
			out = append(out, s)
		}
	}
	sort.Slice(out, func(i, j int) bool { return out[i].Name() < out[j].Name() })
	return out
}

func storeBlocks(stores []kv.Store, metricID uint32) ([][]mcell, []string, error) {
	blocks := [][]mcell{}
	where := []string{}
	for _, s := range stores {
		names := s.ListFamilyNames()
		sort.Strings(names)
		for _, n := range names {
			f := s.GetFamily(n)
			bl, err := familyBlocks(f, []uint32{metricID})
			if err != nil {
				return nil, nil, err
			}
			for _, b := range bl[metricID] {
				blocks = append(blocks, b)
				where = append(where, filepath.Base(s.Name())+"/"+n)
			}
		}
	}
	return blocks, where, nil
}

func waitStores(stores []kv.Store) {
	for _, s := range stores {
		for _, n := range s.ListFamilyNames() {
			kv.VerifWaitFamily(s.GetFamily(n))
		}
	}
}

// one rollup history on a real engine: 10s -> 5min (and 1h), one source family (one hour)
func mdataRollupHistory(rec *trace.Recorder, dir string, rng *rand.Rand, h int, sum *trace.Summary, images bool) {
	var w *kvwrap.World
	if images {
		// the world must exist before the stores are opened (their manifest writers are wrapped at creation)
		w = kvwrap.NewWorld(dir, rec)
		w.Silent = true
		defer w.Drop()
	}
	engine, err := openEngineAt(dir)
	if err != nil {
		sum.Unresolved = append(sum.Unresolved, err.Error())
		return
	}
	closed := false
	defer func() {
		if !closed {
			engine.Close()
		}
	}()
	db := fmt.Sprintf("db%d", h)
	src := timeutil.Interval(10 * 1000)
	t5m := timeutil.Interval(5 * 60 * 1000)
	t1h := timeutil.Interval(3600 * 1000)
	ivs := option.Intervals{{Interval: src, Retention: timeutil.Interval(3650 * 24 * 3600 * 1000)},
		{Interval: t5m, Retention: timeutil.Interval(3650 * 24 * 3600 * 1000)}}
	// every fourth history is scripted: two targets, the second one out of reach during the first pass
	withYear := rng.Intn(2) == 0 || h%4 == 1
	if withYear {
		ivs = append(ivs, option.Interval{Interval: t1h, Retention: timeutil.Interval(3650 * 24 * 3600 * 1000)})
	}
	opt := &option.DatabaseOption{Intervals: ivs, AutoCreateNS: true}
	if err := engine.CreateShards(db, opt, models.ShardID(1)); err != nil {
		sum.Unresolved = append(sum.Unresolved, err.Error())
		return
	}
	database, _ := engine.GetDatabase(db)
	shard, _ := database.GetShard(models.ShardID(1))
	// a family position: any hour of a day; month ends and a leap day included
	days := []time.Time{
		time.Date(2019, 7, 2, 0, 0, 0, 0, time.UTC), time.Date(2020, 2, 29, 0, 0, 0, 0, time.UTC),
		time.Date(2021, 1, 31, 0, 0, 0, 0, time.UTC), time.Date(2021, 12, 31, 0, 0, 0, 0, time.UTC),
		time.Date(2022, 3, 1, 0, 0, 0, 0, time.UTC),
	}
	day := days[rng.Intn(len(days))]
	hour := []int{0, 1, 11, 12, 22, 23}[rng.Intn(6)]
	familyStart := day.Add(time.Duration(hour) * time.Hour).UnixMilli()
	family, err := shard.GetOrCrateDataFamily(familyStart)
	if err != nil {
		sum.Unresolved = append(sum.Unresolved, err.Error())
		return
	}
	compactFirst := rng.Intn(3) == 0
	rec.Reset(trace.F{"mode": "rollup", "h": h, "day": day.Format("20060102"), "hour": hour, "year": withYear, "compactfirst": compactFirst,
		"types": map[string]string{}})
	hosts := []string{"a", "b", "c"}
	nfiles := 1 + rng.Intn(3)
	for i := 0; i < nfiles; i++ {
		var ms []*protoMetricsV1.Metric
		npts := 3 + rng.Intn(12)
		for p := 0; p < npts; p++ {
			slot := rng.Intn(360)
			v := float64(1 + rng.Intn(40))
			ms = append(ms, &protoMetricsV1.Metric{Name: "cpu", Timestamp: familyStart + int64(slot)*10000 + int64(rng.Intn(9000)),
				Tags: []*protoMetricsV1.KeyValue{{Key: "host", Value: hosts[rng.Intn(len(hosts))]}},
				SimpleFields: []*protoMetricsV1.SimpleField{
					{Name: "s", Value: v, Type: protoMetricsV1.SimpleFieldType_DELTA_SUM},
					{Name: "mi", Value: v, Type: protoMetricsV1.SimpleFieldType_Min},
					{Name: "ma", Value: v, Type: protoMetricsV1.SimpleFieldType_Max},
					{Name: "la", Value: v, Type: protoMetricsV1.SimpleFieldType_LAST},
				}})
		}
		if err := family.WriteRows(storageRows(ms...)); err != nil {
			rec.Emit("Error", trace.F{"op": "WriteRows", "err": err.Error()})
			return
		}
		if err := family.Flush(); err != nil {
			rec.Emit("Error", trace.F{"op": "Flush", "err": err.Error()})
			return
		}
	}
	metricID, err := database.MetaDB().GetMetricID("default-ns", "cpu")
	if err != nil {
		rec.Emit("Error", trace.F{"op": "GetMetricID", "err": err.Error()})
		return
	}
	schema, _ := database.MetaDB().GetSchema(metricID)
	types := map[string]string{}
	if schema != nil {
		for _, f := range schema.Fields {
			types[fmt.Sprint(int(f.ID))] = f.Type.String()
		}
	}
	rec.Emit("Types", trace.F{"types": types})
	source, _, err := storeBlocks(storesOf(db, "day"), uint32(metricID))
	if err != nil {
		rec.Emit("Error", trace.F{"op": "read source", "err": err.Error()})
		return
	}
	if compactFirst && nfiles > 1 {
		family.Family().Compact()
		waitStores(storesOf(db, "day"))
		rec.Emit("Note", trace.F{"what": "source compacted before rollup"})
	}
	type imgPt struct {
		dir string
		n   int
	}
	var imgs []imgPt
	if w != nil {
		w.AfterOp = func(n int, ev string) {
			if ev != "ManifestAppend" {
				return
			}
			d := fmt.Sprintf("%s-img%d", dir, n)
			if err := kvwrap.CopyDir(dir, d); err == nil {
				imgs = append(imgs, imgPt{d, n})
			}
		}
	}
	yearOpen := true
	check := func(label string) bool {
		for _, s := range storesOf(db, "day") {
			s.ForceRollup()
		}
		waitStores(storesOf(db, "day"))
		waitStores(storesOf(db, "month"))
		waitStores(storesOf(db, "year"))
		t5, w5, err := storeBlocks(storesOf(db, "month"), uint32(metricID))
		if err != nil {
			rec.Emit("Error", trace.F{"op": "read target", "err": err.Error()})
			return false
		}
		rec.Emit("Rollup", trace.F{"label": label, "target": "5m", "source": source, "targetblocks": t5, "where": w5,
			"base": hour * 12, "ratio": 30, "wantfamily": fmt.Sprintf("%s/%d", day.Format("200601"), day.Day())})
		if withYear && yearOpen {
			t1, w1, err := storeBlocks(storesOf(db, "year"), uint32(metricID))
			if err != nil {
				rec.Emit("Error", trace.F{"op": "read target", "err": err.Error()})
				return false
			}
			rec.Emit("Rollup", trace.F{"label": label, "target": "1h", "source": source, "targetblocks": t1, "where": w1,
				"base": (day.Day()-1)*24 + hour, "ratio": 360, "wantfamily": fmt.Sprintf("%s/%d", day.Format("2006"), int(day.Month()))})
		}
		return true
	}
	// one target out of reach during the first pass (its store is not open, as after a restart before
	// anything touched that segment): the pass completes the other target; the skipped one must be rolled
	// up by a later pass
	lateYear := rng.Intn(2) == 0 || h%4 == 1
	lateYear = lateYear && withYear && w == nil
	if lateYear {
		for _, s := range storesOf(db, "year") {
			if err := kv.GetStoreManager().CloseStore(s.Name()); err != nil {
				rec.Emit("Error", trace.F{"op": "close year store", "err": err.Error()})
				return
			}
		}
		yearOpen = false
		rec.Emit("Note", trace.F{"what": "1h target store closed during the first rollup pass"})
	}
	if !check("first") {
		return
	}
	if w != nil {
		w.AfterOp = nil
	}
	// triggered again: every source file contributes once
	if !lateYear && !check("again") {
		return
	}
	// ... also after a restart
	engine.Close()
	closed = true
	engine, err = openEngineAt(dir)
	if err != nil {
		rec.Emit("Error", trace.F{"op": "reopen", "err": err.Error()})
		return
	}
	closed = false
	database, _ = engine.GetDatabase(db)
	if database == nil {
		rec.Emit("Error", trace.F{"op": "reopen", "err": "database missing"})
		return
	}
	shard, _ = database.GetShard(models.ShardID(1))
	if _, err := shard.GetOrCrateDataFamily(familyStart); err != nil {
		rec.Emit("Error", trace.F{"op": "reopen family", "err": err.Error()})
		return
	}
	yearOpen = true
	check("after-restart")
	// a kill after each manifest commit of the rollup job: restart from that image and roll up again
	for _, im := range imgs {
		if !closed {
			engine.Close()
		}
		closed = true
		engine, err = openEngineAt(im.dir)
		if err != nil {
			rec.Emit("Error", trace.F{"op": "open image", "err": err.Error()})
			os.RemoveAll(im.dir)
			continue
		}
		closed = false
		if im.n%2 == 1 {
			// the node restarts twice before the rollup runs again (every open rewrites the manifest from the
			// recovered state: what the first restart recovered must survive its own snapshot)
			if database, _ = engine.GetDatabase(db); database != nil {
				if sh, ok := database.GetShard(models.ShardID(1)); ok {
					_, _ = sh.GetOrCrateDataFamily(familyStart)
				}
			}
			engine.Close()
			engine, err = openEngineAt(im.dir)
			if err != nil {
				rec.Emit("Error", trace.F{"op": "reopen image", "err": err.Error()})
				os.RemoveAll(im.dir)
				closed = true
				continue
			}
			rec.Emit("Note", trace.F{"what": "image restarted twice before the rollup"})
		}
		if database, _ = engine.GetDatabase(db); database != nil {
			shard, _ = database.GetShard(models.ShardID(1))
			if _, err := shard.GetOrCrateDataFamily(familyStart); err == nil {
				check(fmt.Sprintf("image-after-commit-%d", im.n))
			}
		}
		engine.Close()
		closed = true
		os.RemoveAll(im.dir)
	}
	if len(sum.Samples) < 4 {
		sum.Samples = append(sum.Samples, map[string]any{"day": day.Format("20060102"), "hour": hour, "files": nfiles, "year": withYear, "compactfirst": compactFirst, "lateyear": lateYear})
	}
}
