package main

// vdrive table: C15 -- table files and merged iteration return exactly what was added.
//
// Drives the real kv/table builder (Add and the stream writer), the real reader obtained through
// the reader cache, table.NewMergedIterator, and version lookups of a real kv store
// (FindFiles / FindReaders / Load of a snapshot).  The driver offers keys and values and writes
// down what the code answers; keys are logged as <<high 16, low 16>> pairs, values as interned
// ids of their bytes (equal bytes <=> equal id).  TLC judges every answer against spec/TableFile.tla.

import (
	"encoding/binary"
	"flag"
	"fmt"
	"math"
	"math/rand"
	"os"
	"path/filepath"
	"sort"
	"strconv"
	"strings"
	"time"

	"github.com/lindb/lindb/kv"
	"github.com/lindb/lindb/kv/table"
	"github.com/lindb/lindb/kv/version"

	"verif/harness/internal/trace"
)

func init() { register("table", tableMain) }

type tblRun struct {
	rec     *trace.Recorder
	rng     *rand.Rand
	sum     *trace.Summary
	vids    map[string]int
	counts  map[string]int
	scratch string
	nextT   int
	bigVals [][]byte
}

func (r *tblRun) emit(ev string, f trace.F) {
	r.counts[ev]++
	if r.counts[ev] == 2 && len(r.sum.Samples) < 6 && (ev == "Get" || ev == "Merged" || ev == "Loaded" || ev == "BigGet" || ev == "Found") {
		g := trace.F{"ev": ev}
		for k, v := range f {
			g[k] = v
		}
		r.sum.Samples = append(r.sum.Samples, g)
	}
	r.rec.Emit(ev, f)
}

func (r *tblRun) vid(b []byte) int {
	if id, ok := r.vids[string(b)]; ok {
		return id
	}
	id := len(r.vids) + 1
	r.vids[string(b)] = id
	return id
}

func kp(k uint32) []int { return []int{int(k >> 16), int(k & 0xFFFF)} }

// ---------------------------------------------------------------- generators

// genKeys: the keys offered to one builder, in offering order (mostly ascending, some not)
func (r *tblRun) genKeys(maxN int) []uint32 {
	n := 1 + r.rng.Intn(40)
	switch r.rng.Intn(8) {
	case 0:
		n = 1
	case 1:
		n = 200 + r.rng.Intn(maxN)
	}
	var base uint64
	switch r.rng.Intn(7) {
	case 0:
		base = 0
	case 1: // just below a container boundary
		base = uint64(1+r.rng.Intn(5))*65536 - uint64(1+r.rng.Intn(n+1))
	case 2: // the top of the key space
		base = math.MaxUint32 - uint64(n)*3
	case 3:
		base = uint64(r.rng.Intn(1 << 31))
	default:
		base = uint64(r.rng.Intn(200000))
	}
	shape := r.rng.Intn(6)
	keys := make([]uint32, 0, n)
	k := base
	for i := 0; i < n; i++ {
		switch shape {
		case 0: // dense: consecutive keys (run containers)
			k++
		case 1: // sparse: big steps, many containers
			k += 1 + uint64(r.rng.Intn(40000))
		case 2: // runs with holes
			if r.rng.Intn(10) == 0 {
				k += 2 + uint64(r.rng.Intn(300))
			} else {
				k++
			}
		case 3: // every other key
			k += 2
		case 4: // steps of exactly one container
			k += 65536
		default:
			k += 1 + uint64(r.rng.Intn(5))
		}
		if i == 0 && r.rng.Intn(3) == 0 {
			k = base // may be 0
		}
		if k > math.MaxUint32 {
			k = math.MaxUint32
		}
		keys = append(keys, uint32(k))
	}
	if r.rng.Intn(6) == 0 {
		keys = append(keys, math.MaxUint32)
	}
	// disturb the order: repeats, keys from the past, one far below
	if r.rng.Intn(2) == 0 {
		m := 1 + r.rng.Intn(1+len(keys)/8)
		for j := 0; j < m; j++ {
			at := r.rng.Intn(len(keys) + 1)
			var bad uint32
			switch r.rng.Intn(4) {
			case 0:
				bad = keys[r.rng.Intn(len(keys))]
			case 1:
				if at > 0 {
					bad = keys[at-1] // the same key again
				}
			case 2:
				bad = 0
			default:
				bad = uint32(r.rng.Intn(1 << 20))
			}
			keys = append(keys[:at], append([]uint32{bad}, keys[at:]...)...)
		}
	}
	return keys
}

func (r *tblRun) genValue(bigOK bool) []byte {
	var n int
	switch r.rng.Intn(12) {
	case 0:
		n = 0
	case 1:
		n = 1
	case 2:
		n = 255 + r.rng.Intn(3)
	case 3:
		n = 65535 + r.rng.Intn(3)
	case 4:
		n = 1000 + r.rng.Intn(9000)
	default:
		n = r.rng.Intn(40)
	}
	if bigOK && r.rng.Intn(60) == 0 {
		n = 1<<20 + r.rng.Intn(3<<20) // megabytes
	}
	b := make([]byte, n)
	if n > 4096 {
		// cheap but position dependent
		x := byte(r.rng.Intn(256))
		for i := range b {
			b[i] = x + byte(i) + byte(i>>8)
		}
		return b
	}
	if r.rng.Intn(4) == 0 {
		// few distinct values: the same bytes under several keys and in several files
		for i := range b {
			b[i] = byte(n)
		}
		return b
	}
	r.rng.Read(b)
	return b
}

// ---------------------------------------------------------------- small tables

type tblFile struct {
	t      int
	fn     table.FileNumber
	closed bool
	keys   []uint32 // as accepted according to the builder's own count (only to choose probes)
	offers []uint32
}

func projOf(b table.Builder) trace.F {
	return trace.F{"min": kp(b.MinKey()), "max": kp(b.MaxKey()), "count": int(b.Count()), "size": int(b.Size())}
}

func (r *tblRun) buildTable(dir string, fn table.FileNumber, maxN int) (*tblFile, error) {
	r.nextT++
	tf := &tblFile{t: r.nextT, fn: fn}
	b, err := table.NewStoreBuilder(fn, filepath.Join(dir, version.Table(fn)))
	if err != nil {
		return nil, err
	}
	r.emit("Create", trace.F{"t": tf.t})
	var offers []uint32
	if r.rng.Intn(25) != 0 {
		offers = r.genKeys(maxN)
	}
	streamMode := r.rng.Intn(3) // 0 add only, 1 stream only, 2 mixed
	sw := b.StreamWriter()
	for _, k := range offers {
		v := r.genValue(len(offers) < 60)
		before := b.Count()
		f := trace.F{"t": tf.t, "k": kp(k), "v": r.vid(v), "len": len(v), "ssize": 0}
		if streamMode == 1 || (streamMode == 2 && r.rng.Intn(2) == 0) {
			f["via"] = "stream"
			if r.rng.Intn(8) == 0 {
				sw = b.StreamWriter() // a new writer object
			}
			sw.Prepare(k)
			rest := v
			for parts := r.rng.Intn(4); parts > 0 && len(rest) > 0; parts-- {
				c := r.rng.Intn(len(rest) + 1)
				if _, err := sw.Write(rest[:c]); err != nil {
					return nil, err
				}
				rest = rest[c:]
			}
			if _, err := sw.Write(rest); err != nil {
				return nil, err
			}
			f["ssize"] = int(sw.Size())
			if err := sw.Commit(); err != nil {
				return nil, err
			}
			if r.rng.Intn(6) == 0 {
				_ = sw.Commit() // committing twice must change nothing
			}
		} else {
			f["via"] = "add"
			if err := b.Add(k, v); err != nil {
				return nil, err
			}
		}
		f["proj"] = projOf(b)
		r.emit("Offered", f)
		if b.Count() > before {
			tf.keys = append(tf.keys, k)
		}
		tf.offers = append(tf.offers, k)
	}
	cerr := b.Close()
	r.emit("Close", trace.F{"t": tf.t, "err": cerr != nil})
	tf.closed = cerr == nil
	return tf, nil
}

func (r *tblRun) probeKeys(tf *tblFile, limit int) []uint32 {
	set := map[uint32]bool{0: true, math.MaxUint32: true, uint32(r.rng.Uint32()): true}
	add := func(k uint32) {
		set[k] = true
		set[k+1] = true
		set[k-1] = true
	}
	if len(tf.keys) <= limit {
		for _, k := range tf.keys {
			add(k)
		}
	} else {
		add(tf.keys[0])
		add(tf.keys[len(tf.keys)-1])
		for i := 0; i < limit; i++ {
			add(tf.keys[r.rng.Intn(len(tf.keys))])
		}
	}
	for _, k := range tf.offers {
		if r.rng.Intn(4) == 0 {
			set[k] = true
		}
	}
	// the other end of a key's container and the same low bits in the neighbour containers
	for i := 0; i < 4 && len(tf.keys) > 0; i++ {
		k := tf.keys[r.rng.Intn(len(tf.keys))]
		set[k^0xFFFF] = true
		set[k+65536] = true
		set[k-65536] = true
	}
	out := make([]uint32, 0, len(set))
	for k := range set {
		out = append(out, k)
	}
	sort.Slice(out, func(i, j int) bool { return out[i] < out[j] })
	r.rng.Shuffle(len(out), func(i, j int) { out[i], out[j] = out[j], out[i] })
	return out
}

func (r *tblRun) readTable(cache table.Cache, tf *tblFile) table.Reader {
	rd, err := cache.GetReader("fam", version.Table(tf.fn))
	r.emit("Open", trace.F{"t": tf.t, "err": err != nil})
	if err != nil {
		return nil
	}
	for _, k := range r.probeKeys(tf, 40) {
		v, gerr := rd.Get(k)
		f := trace.F{"t": tf.t, "k": kp(k), "found": gerr == nil, "v": 0}
		if gerr == nil {
			f["v"] = r.vid(v)
		} else if gerr != table.ErrKeyNotExist {
			f["v"] = -1
			f["found"] = true // an error other than "absent": no reference answer matches
		}
		r.emit("Get", f)
	}
	ks, vs := iterAll(r, rd.Iterator(), len(tf.offers)+10)
	r.emit("Iterate", trace.F{"t": tf.t, "ks": ks, "vs": vs})
	return rd
}

func iterAll(r *tblRun, it table.Iterator, limit int) (ks [][]int, vs []int) {
	ks, vs = make([][]int, 0), make([]int, 0)
	for i := 0; it.HasNext() && i < limit; i++ {
		ks = append(ks, kp(it.Key()))
		vs = append(vs, r.vid(it.Value()))
	}
	return
}

func (r *tblRun) tableHistory(h int, maxN int) {
	r.rec.Reset(trace.F{"h": h, "mode": "tables"})
	root := filepath.Join(r.scratch, fmt.Sprintf("t%d", h))
	dir := filepath.Join(root, "fam")
	_ = os.MkdirAll(dir, 0o755)
	defer os.RemoveAll(root)
	cache := table.NewCache(root, time.Hour)
	defer cache.Close()
	nt := 1 + r.rng.Intn(4)
	var files []*tblFile
	readers := map[int]table.Reader{}
	for i := 0; i < nt; i++ {
		tf, err := r.buildTable(dir, table.FileNumber(i+1), maxN)
		if err != nil {
			r.sum.Unresolved = append(r.sum.Unresolved, "builder i/o: "+err.Error())
			return
		}
		files = append(files, tf)
		if rd := r.readTable(cache, tf); rd != nil {
			readers[tf.t] = rd
		}
	}
	// merged iteration over any selection of the tables (also none, also one twice)
	for m := 0; m < 3; m++ {
		var ts []int
		var its []table.Iterator
		total := 0
		for c := r.rng.Intn(5); c > 0; c-- {
			tf := files[r.rng.Intn(len(files))]
			if rd, ok := readers[tf.t]; ok {
				ts = append(ts, tf.t)
				its = append(its, rd.Iterator())
				total += len(tf.keys)
			}
		}
		if m == 0 { // all of them once
			ts, its, total = nil, nil, 0
			for _, tf := range files {
				if rd, ok := readers[tf.t]; ok {
					ts = append(ts, tf.t)
					its = append(its, rd.Iterator())
					total += len(tf.keys)
				}
			}
		}
		if ts == nil {
			ts = []int{}
		}
		ks, vs := iterAll(r, table.NewMergedIterator(its), total+10)
		r.emit("Merged", trace.F{"ts": ts, "ks": ks, "vs": vs})
	}
	var rds []table.Reader
	for _, rd := range readers {
		rds = append(rds, rd)
	}
	cache.ReleaseReaders(rds)
}

// ---------------------------------------------------------------- version lookups

func fileNum(name string) int {
	n, err := strconv.Atoi(strings.TrimSuffix(name, filepath.Ext(name)))
	if err != nil {
		return -1
	}
	return n
}

func (r *tblRun) versionHistory(h int, emptyFlush bool) {
	mode := "version"
	if emptyFlush {
		mode = "emptyflush" // the last flush carries only empty values
	}
	r.rec.Reset(trace.F{"h": h, "mode": mode})
	registerUnionMerger()
	path := filepath.Join(r.scratch, fmt.Sprintf("v%d", h))
	defer os.RemoveAll(path)
	opt := kv.DefaultStoreOption()
	store, err := kv.GetStoreManager().CreateStore(path, opt)
	if err != nil {
		r.sum.Unresolved = append(r.sum.Unresolved, "create store: "+err.Error())
		return
	}
	closed := false
	defer func() {
		if !closed {
			_ = kv.GetStoreManager().CloseStore(path)
		}
	}()
	defer r.onPanic() // runs before the store is closed: a panicking flusher still holds the family's flush lock
	fam, err := store.CreateFamily("f", kv.FamilyOption{Merger: unionMerger, CompactThreshold: 1000})
	if err != nil {
		r.sum.Unresolved = append(r.sum.Unresolved, "create family: "+err.Error())
		return
	}
	known := map[int]bool{}
	var allKeys []uint32
	nfl := 1 + r.rng.Intn(6)
	if emptyFlush {
		nfl = 2
	}
	// the files of one version overlap: they draw their keys from one pool
	pool := r.genKeys(60)
	sort.Slice(pool, func(i, j int) bool { return pool[i] < pool[j] })
	for i := 0; i < nfl; i++ {
		fl := fam.NewFlusher()
		var offers []uint32
		switch r.rng.Intn(3) {
		case 0: // a contiguous part of the pool
			a := r.rng.Intn(len(pool))
			b := a + 1 + r.rng.Intn(len(pool)-a)
			offers = append(offers, pool[a:b]...)
		case 1: // a scattered part
			for _, k := range pool {
				if r.rng.Intn(3) == 0 {
					offers = append(offers, k)
				}
			}
		default:
			offers = r.genKeys(60)
		}
		if len(offers) == 0 {
			offers = []uint32{pool[0]}
		}
		if r.rng.Intn(4) == 0 && len(offers) > 2 { // one key out of order
			j := 1 + r.rng.Intn(len(offers)-1)
			offers[j] = offers[0]
		}
		puts := make([][]any, 0, len(offers))
		for _, k := range offers {
			v := r.genValue(false)
			if len(v) == 0 {
				v = []byte{byte(k)}
			}
			if emptyFlush && i == nfl-1 {
				v = []byte{}
			}
			if r.rng.Intn(2) == 0 {
				err = fl.Add(k, v)
			} else {
				var sw table.StreamWriter
				sw, err = fl.StreamWriter()
				if err == nil {
					sw.Prepare(k)
					h := len(v) / 2
					_, _ = sw.Write(v[:h])
					_, _ = sw.Write(v[h:])
					err = sw.Commit()
				}
			}
			if err != nil {
				r.sum.Unresolved = append(r.sum.Unresolved, "flusher i/o: "+err.Error())
				fl.Release()
				return
			}
			puts = append(puts, []any{kp(k), r.vid(v), len(v)})
			allKeys = append(allKeys, k)
		}
		err = fl.Commit()
		fl.Release()
		if err != nil {
			r.sum.Unresolved = append(r.sum.Unresolved, "flusher commit: "+err.Error())
			return
		}
		snap := fam.GetSnapshot()
		var added []*version.FileMeta
		for _, fm := range snap.GetCurrent().GetAllFiles() {
			if !known[int(fm.GetFileNumber())] {
				added = append(added, fm)
			}
		}
		snap.Close()
		if len(added) != 1 {
			r.emit("Flushed", trace.F{"f": -1, "puts": puts, "min": kp(0), "max": kp(0), "files": len(added)})
			return
		}
		fm := added[0]
		known[int(fm.GetFileNumber())] = true
		r.emit("Flushed", trace.F{"f": int(fm.GetFileNumber()), "puts": puts, "min": kp(fm.GetMinKey()), "max": kp(fm.GetMaxKey())})
		if r.rng.Intn(3) == 0 {
			r.probeVersion(fam, allKeys, 10)
		}
	}
	r.probeVersion(fam, allKeys, 40)
	if r.rng.Intn(2) == 0 {
		// the same answers after the store was closed and opened again
		_ = kv.GetStoreManager().CloseStore(path)
		closed = true
		store, err = kv.GetStoreManager().CreateStore(path, opt)
		if err != nil {
			r.sum.Unresolved = append(r.sum.Unresolved, "reopen store: "+err.Error())
			return
		}
		closed = false
		fam = store.GetFamily("f")
		if fam == nil {
			r.emit("Found", trace.F{"k": kp(0), "fs": []int{-1}})
			return
		}
		r.probeVersion(fam, allKeys, 20)
	}
}

func (r *tblRun) probeVersion(fam kv.Family, keys []uint32, nprobe int) {
	snap := fam.GetSnapshot()
	defer snap.Close()
	probes := []uint32{0, math.MaxUint32}
	for i := 0; i < nprobe; i++ {
		k := keys[r.rng.Intn(len(keys))]
		switch r.rng.Intn(5) {
		case 0:
			k++
		case 1:
			k--
		case 2:
			k = uint32(r.rng.Uint32())
		}
		probes = append(probes, k)
	}
	for _, k := range probes {
		fs := make([]int, 0)
		if r.rng.Intn(2) == 0 {
			for _, fm := range snap.GetCurrent().FindFiles(k) {
				fs = append(fs, int(fm.GetFileNumber()))
			}
		} else {
			rds, err := snap.FindReaders(k)
			if err != nil {
				fs = append(fs, -1)
			}
			for _, rd := range rds {
				fs = append(fs, fileNum(rd.FileName()))
			}
		}
		r.emit("Found", trace.F{"k": kp(k), "fs": fs})
		vs := make([]int, 0)
		err := snap.Load(k, func(value []byte) error {
			vs = append(vs, r.vid(value))
			return nil
		})
		if err != nil {
			vs = append(vs, -1)
		}
		r.emit("Loaded", trace.F{"k": kp(k), "vs": vs})
	}
}

// ---------------------------------------------------------------- big tables

func (r *tblRun) bigHistory(h, n int) {
	r.rec.Reset(trace.F{"h": h, "mode": "big"})
	root := filepath.Join(r.scratch, fmt.Sprintf("b%d", h))
	dir := filepath.Join(root, "fam")
	_ = os.MkdirAll(dir, 0o755)
	defer os.RemoveAll(root)
	cache := table.NewCache(root, time.Hour)
	defer cache.Close()
	r.nextT++
	t := r.nextT
	fn := table.FileNumber(1)
	b, err := table.NewStoreBuilder(fn, filepath.Join(dir, version.Table(fn)))
	if err != nil {
		r.sum.Unresolved = append(r.sum.Unresolved, "builder i/o: "+err.Error())
		return
	}
	// palette: the i-th value is (i as 4 bytes) ++ palette[i mod P]
	np := 3 + r.rng.Intn(5)
	pal := make([][]byte, np)
	palIDs := make([]int, np)
	for i := range pal {
		pal[i] = make([]byte, r.rng.Intn(120))
		r.rng.Read(pal[i])
		if i == 0 {
			pal[i] = []byte{}
		}
		palIDs[i] = r.vid(pal[i])
	}
	keys := make([]uint32, n)
	shape := r.rng.Intn(4)
	maxStep := (uint64(math.MaxUint32) - 10) / uint64(n)
	k := uint64(r.rng.Intn(3))
	if shape == 3 {
		k = uint64(math.MaxUint32) - uint64(n)*2 - 5
	}
	sw := b.StreamWriter()
	for i := 0; i < n; i++ {
		switch shape {
		case 0: // long runs with rare holes
			if r.rng.Intn(500) == 0 {
				k += 2 + uint64(r.rng.Intn(70000))
			} else {
				k++
			}
		case 1: // spread over the whole key space
			k += 1 + uint64(r.rng.Int63n(int64(maxStep)))
		case 2: // bitmap-like containers: small random steps
			k += 1 + uint64(r.rng.Intn(6))
		default:
			k += 2
		}
		keys[i] = uint32(k)
		var idx [4]byte
		binary.BigEndian.PutUint32(idx[:], uint32(i))
		if i%3 == 0 {
			sw.Prepare(keys[i])
			_, _ = sw.Write(idx[:])
			_, _ = sw.Write(pal[i%np])
			err = sw.Commit()
		} else {
			err = b.Add(keys[i], append(idx[:], pal[i%np]...))
		}
		if err != nil {
			r.sum.Unresolved = append(r.sum.Unresolved, "builder i/o: "+err.Error())
			return
		}
	}
	sampled := map[int]bool{0: true, n - 1: true}
	for i := 0; i < 150; i++ {
		sampled[r.rng.Intn(n)] = true
	}
	idxs := make([]int, 0, len(sampled))
	for i := range sampled {
		idxs = append(idxs, i)
	}
	sort.Ints(idxs)
	samp := make([][]int, 0, len(idxs))
	for _, i := range idxs {
		samp = append(samp, []int{i, int(keys[i] >> 16), int(keys[i] & 0xFFFF)})
	}
	proj := projOf(b)
	if err := b.Close(); err != nil {
		r.sum.Unresolved = append(r.sum.Unresolved, "builder close: "+err.Error())
		return
	}
	r.emit("BigBuilt", trace.F{"t": t, "cnt": n, "pal": palIDs, "samp": samp, "proj": proj})
	rd, err := cache.GetReader("fam", version.Table(fn))
	if err != nil {
		r.emit("BigGet", trace.F{"t": t, "i": 0, "k": kp(keys[0]), "found": false, "vi": -1, "vp": -1})
		return
	}
	decode := func(v []byte) (int, int) {
		if len(v) < 4 {
			return -1, -1
		}
		return int(binary.BigEndian.Uint32(v[:4])), r.vid(v[4:])
	}
	for j := 0; j < 400; j++ {
		i := r.rng.Intn(n)
		if j < len(idxs) && j%2 == 0 {
			i = idxs[j]
		}
		v, gerr := rd.Get(keys[i])
		vi, vp := -1, -1
		if gerr == nil {
			vi, vp = decode(v)
		}
		r.emit("BigGet", trace.F{"t": t, "i": i, "k": kp(keys[i]), "found": gerr == nil, "vi": vi, "vp": vp})
	}
	for j := 0; j < 150; j++ {
		i := r.rng.Intn(n)
		var k uint32
		switch {
		case i+1 < n && keys[i+1]-keys[i] > 1:
			k = keys[i] + 1 + uint32(r.rng.Int63n(int64(keys[i+1]-keys[i]-1)))
		case keys[0] > 0 && j%2 == 0:
			k = uint32(r.rng.Int63n(int64(keys[0])))
		case keys[n-1] < math.MaxUint32:
			k = keys[n-1] + 1 + uint32(r.rng.Int63n(int64(math.MaxUint32-keys[n-1])))
		default:
			continue
		}
		_, gerr := rd.Get(k)
		r.emit("BigAbsent", trace.F{"t": t, "found": gerr == nil})
	}
	it := rd.Iterator()
	rows := make([][]int, 0, len(idxs))
	count := 0
	for ; it.HasNext() && count < n+10; count++ {
		key := it.Key()
		v := it.Value()
		if sampled[count] || r.rng.Intn(n/100+1) == 0 {
			vi, vp := decode(v)
			rows = append(rows, []int{count, int(key >> 16), int(key & 0xFFFF), vi, vp})
		}
	}
	r.emit("BigIterated", trace.F{"t": t, "count": count, "rows": rows})
	cache.ReleaseReaders([]table.Reader{rd})
}

// onPanic (deferred): a panic of the code under test becomes an event that no action of the
// specification accepts; the run ends there (a flusher or store lock may still be held, so nothing
// else is touched: the trace is closed, the summary printed, the process left)
func (r *tblRun) onPanic() {
	if p := recover(); p != nil {
		r.emit("Panic", trace.F{"msg": fmt.Sprint(p)})
		r.finish()
		os.Exit(0)
	}
}

func (r *tblRun) guarded(op func()) {
	defer r.onPanic()
	op()
}

func (r *tblRun) finish() {
	_ = r.rec.Close()
	r.sum.Traces, r.sum.Events = r.rec.Counts()
	r.sum.Distinct = len(r.vids)
	r.sum.Extra["events_by_kind"] = r.counts
	r.sum.Extra["distinct_values"] = len(r.vids)
	r.sum.Print()
}

func tableMain(args []string) int {
	fs := flag.NewFlagSet("table", flag.ExitOnError)
	out := fs.String("out", "table.ndjson", "trace output")
	seed := fs.Int64("seed", 1, "seed")
	nh := fs.Int("histories", 40, "histories of small tables (build, read, merge)")
	nv := fs.Int("versions", 20, "histories of version lookups over a kv store")
	nb := fs.Int("big", 1, "big tables")
	ne := fs.Int("emptyflush", 0, "version histories whose last flush carries only empty values")
	bign := fs.Int("bigkeys", 100000, "keys of a big table")
	maxN := fs.Int("maxkeys", 1200, "upper bound of the keys of a fully logged table")
	scratch := fs.String("scratch", "", "scratch directory")
	_ = fs.Parse(args)
	if *scratch == "" {
		d, _ := os.MkdirTemp("", "vdrive-table-")
		*scratch = d
		defer os.RemoveAll(d)
	}
	rec, err := trace.New(*out)
	if err != nil {
		fmt.Println(err)
		return 2
	}
	sum := &trace.Summary{Module: "TableFile", Extra: map[string]any{}}
	r := &tblRun{rec: rec, rng: rand.New(rand.NewSource(*seed)), sum: sum, vids: map[string]int{}, counts: map[string]int{},
		scratch: *scratch}
	h := 0
	for i := 0; i < *nh; i++ {
		h++
		r.guarded(func() { r.tableHistory(h, *maxN) })
	}
	for i := 0; i < *nv; i++ {
		h++
		r.guarded(func() { r.versionHistory(h, false) })
	}
	for i := 0; i < *ne; i++ {
		h++
		r.guarded(func() { r.versionHistory(h, true) })
	}
	for i := 0; i < *nb; i++ {
		h++
		r.guarded(func() { r.bigHistory(h, *bign) })
	}
	r.finish()
	return 0
}
