------------------------------- MODULE Codec -------------------------------
(* C14 -- storage codecs are lossless.                                         *)
(*                                                                           *)
(* The REFERENCE: what every read of every codec object must answer, as a    *)
(* function of what was written, for every history of (pooled) encoder and   *)
(* decoder objects.  Values are opaque tokens (the recorder interns IEEE-754 *)
(* bit patterns / byte strings: equal bits <=> equal token), so "lossless"   *)
(* is token-sequence equality.  The specification knows nothing about the    *)
(* wire formats; it remembers, per block of bytes (ghost `blk`), what was put *)
(* in, and per object (`obj`) where its cursor must be.  Every action takes   *)
(* the outputs observed on the real code as parameters and is enabled only    *)
(* when they equal the reference.  MCCodec.tla runs a bit-level transcription *)
(* of tsd.go/xor.go/bit writer+reader against the same actions for all small  *)
(* histories; CodecTrace.tla runs the real code's recorded histories.         *)
(*                                                                           *)
(* Code: pkg/encoding/{tsd,xor,delta_bit_packing,fixed_offset,bitmap,         *)
(* tsd_stream}.go, pkg/bit, pkg/stream, pkg/compress/snappy.go                *)
EXTENDS Integers, Sequences, SequencesExt, FiniteSets, TLC

VARIABLES
  obj,    \* object id -> abstract state of one encoder / decoder object (pooled or not)
  blk,    \* block id  -> content the bytes with that id stand for (time-series blocks)
  strm,   \* block id  -> content of a multi-field tsd stream
  bat     \* <<codec, block id>> -> content of a batch-codec block (delta / offsets / bitmap / snappy / ..)
vars == <<obj, blk, strm, bat>>

InfTok == 0          \* token of the bit pattern of +Inf (EmitDownSamplingValue: "no value in this slot")
MaxSlot == 65535

Put(f, k, v) == (k :> v) @@ f
MinOf(a, b) == IF a < b THEN a ELSE b
Ones(s) == FoldLeft(LAMBDA a, x : a + x, 0, s)          \* number of 1s of a 0/1 sequence (evaluated iteratively)
\* (set forms instead of \A: TLC unfolds a \A that sits in an action recursively, one level per element)
IsMarks(s) == {s[i] : i \in DOMAIN s} \subseteq {0, 1}

Init == obj = <<>> /\ blk = <<>> /\ strm = <<>> /\ bat = <<>>

-----------------------------------------------------------------------------
(* Time-series block encoder (TSDEncoder + XOREncoder + bit.Writer), pooled.  *)
FreshEnc(start) == [k |-> "enc", held |-> TRUE, start |-> start, marks |-> <<>>, vals |-> <<>>, done |-> FALSE]
IsHeld(o, kind) == o \in DOMAIN obj /\ obj[o].k = kind /\ obj[o].held
\* the pool (or a constructor) hands out an object: never one that somebody still holds, and
\* whatever its previous use left behind is gone (this is the "no residue" half of the property)
CanGet(o, kind) == o \in DOMAIN obj => (obj[o].k = kind /\ ~obj[o].held)

EncGet(o, start) ==
  /\ CanGet(o, "enc") /\ start \in 0..MaxSlot
  /\ obj' = Put(obj, o, FreshEnc(start)) /\ UNCHANGED <<blk, strm, bat>>
\* every action is  <X>Ok (the outputs observed equal the reference; a state predicate)  /\  <X>Do
EncResetOk(o, start) == IsHeld(o, "enc") /\ start \in 0..MaxSlot
EncResetDo(o, start) == obj' = Put(obj, o, FreshEnc(start)) /\ UNCHANGED <<blk, strm, bat>>
EncReset(o, start) == EncResetOk(o, start) /\ EncResetDo(o, start)
EncAppendOk(o, marks, vals) ==
  /\ IsHeld(o, "enc") /\ ~obj[o].done
  /\ IsMarks(marks) /\ Len(vals) = Ones(marks)
  /\ obj[o].start + Len(obj[o].marks) + Len(marks) - 1 <= MaxSlot
EncAppendDo(o, marks, vals) ==
  /\ obj' = [obj EXCEPT ![o].marks = @ \o marks, ![o].vals = @ \o vals]
  /\ UNCHANGED <<blk, strm, bat>>
EncAppend(o, marks, vals) == EncAppendOk(o, marks, vals) /\ EncAppendDo(o, marks, vals)
\* EmitDownSamplingValue: one token per slot, +Inf stands for "empty"
EmitMarks(xs) == [i \in 1..Len(xs) |-> IF xs[i] = InfTok THEN 0 ELSE 1]
EmitVals(xs) == SelectSeq(xs, LAMBDA x : x # InfTok)
EncEmit(o, xs) == EncAppend(o, EmitMarks(xs), EmitVals(xs))

\* blocks without the 4-byte slot header do not carry the start slot
Content(e, hdr) == [hdr |-> hdr, start |-> IF hdr THEN e.start ELSE 0, marks |-> e.marks, vals |-> e.vals]
\* Bytes() / BytesWithoutTime() answered the bytes with id b (isnil: answered nil)
EncBytesOk(o, hdr, b, isnil) ==
  /\ IsHeld(o, "enc") /\ ~obj[o].done
  /\ LET c == Content(obj[o], hdr) IN
       /\ isnil = (c.marks = <<>>)                              \* an encoder without slots has no bytes
       /\ (~isnil /\ b \in DOMAIN blk) => blk[b] = c           \* equal bytes must stand for equal content
EncBytesDo(o, hdr, b, isnil) ==
  /\ blk' = IF isnil THEN blk ELSE Put(blk, b, Content(obj[o], hdr))
  /\ obj' = [obj EXCEPT ![o].done = TRUE]
  /\ UNCHANGED <<strm, bat>>
EncBytes(o, hdr, b, isnil) == EncBytesOk(o, hdr, b, isnil) /\ EncBytesDo(o, hdr, b, isnil)
Release(o, kind) ==
  /\ IsHeld(o, kind)
  /\ obj' = [obj EXCEPT ![o].held = FALSE] /\ UNCHANGED <<blk, strm, bat>>

-----------------------------------------------------------------------------
(* Time-series block decoder (TSDDecoder + XORDecoder + bit.Reader), pooled.  *)
FreshDec == [k |-> "dec", held |-> TRUE, ld |-> FALSE, b |-> -1, lo |-> 0, hi |-> -1, cur |-> 0, vc |-> 0]
DecGet(o) ==
  /\ CanGet(o, "dec")
  /\ obj' = Put(obj, o, FreshDec) /\ UNCHANGED <<blk, strm, bat>>
Loaded(d, b, lo, hi) == [d EXCEPT !.ld = TRUE, !.b = b, !.lo = lo, !.hi = hi, !.cur = 0, !.vc = 0]
CanLoad(b, lo, hi) ==
  /\ b \in DOMAIN blk
  /\ hi - lo + 1 = Len(blk[b].marks) /\ lo \in 0..MaxSlot /\ hi \in 0..MaxSlot
  /\ blk[b].hdr => lo = blk[b].start
\* Reset(bytes of b) / ResetWithTimeRange(bytes of b, lo, hi); st, en = StartTime(), EndTime() afterwards
DecLoadOk(o, b, lo, hi, st, en) == IsHeld(o, "dec") /\ CanLoad(b, lo, hi) /\ st = lo /\ en = hi
DecLoadDo(o, b, lo, hi) == obj' = [obj EXCEPT ![o] = Loaded(@, b, lo, hi)] /\ UNCHANGED <<blk, strm, bat>>
DecLoad(o, b, lo, hi, st, en) == DecLoadOk(o, b, lo, hi, st, en) /\ DecLoadDo(o, b, lo, hi)

\* Deviation_NextWrapsAtMaxSlot: TSDDecoder.Next() compares startTime+idx <= endTime in uint16;
\* for a block that ends at slot 65535 the sum wraps to 0 and Next() never answers false.
NextNeverEnds(d) == d.hi = MaxSlot

\* n iterations of { Next(); HasValue(); Value() }: marks / vals read, ended = Next() answered false
SeqRef(d, n) ==
  LET c == blk[d.b]
      left == Len(c.marks) - d.cur
      m == MinOf(n, left)
      ms == SubSeq(c.marks, d.cur + 1, d.cur + m)
      k == Ones(ms)
  IN [marks |-> ms, vals |-> SubSeq(c.vals, d.vc + 1, d.vc + k), ended |-> (n > left),
      cur |-> d.cur + m, vc |-> d.vc + k]
\* last = Slot() after the iterations (the slot of the last one), checked when at least one was made
DecSeqOk(o, n, marks, vals, ended, err, last) ==
  /\ IsHeld(o, "dec") /\ obj[o].ld /\ n >= 0
  /\ LET r == SeqRef(obj[o], n) IN
       /\ marks = r.marks /\ vals = r.vals /\ ended = r.ended /\ err = FALSE
       /\ r.cur > obj[o].cur => last = obj[o].lo + r.cur - 1
DecSeqDo(o, n) ==
  /\ LET r == SeqRef(obj[o], n) IN obj' = [obj EXCEPT ![o].cur = r.cur, ![o].vc = r.vc]
  /\ UNCHANGED <<blk, strm, bat>>
DecSeq(o, n, marks, vals, ended, err, last) == DecSeqOk(o, n, marks, vals, ended, err, last) /\ DecSeqDo(o, n)

\* slot-addressed reads: GetValue(slot) / HasValueWithSlot(slot)+Value().  The reader answers a
\* slot only when it is the next one (callers walk the slots upwards); slots outside the block's
\* range and slots that are not the next one are "no value" and do not move the cursor.
ProbeStep(c, d, st, slot) ==
  IF slot < d.lo \/ slot > d.hi \/ slot # d.lo + st.cur
  THEN [st EXCEPT !.oks = Append(@, 0)]
  ELSE IF c.marks[st.cur + 1] = 1
       THEN [cur |-> st.cur + 1, vc |-> st.vc + 1, oks |-> Append(st.oks, 1),
             vals |-> Append(st.vals, c.vals[st.vc + 1])]
       ELSE [st EXCEPT !.cur = @ + 1, !.oks = Append(@, 0)]
\* (FoldLeft of SequencesExt is evaluated iteratively: blocks of hundreds of slots are fine)
ProbeFold(c, d, st0, slots) == FoldLeft(LAMBDA st, slot : ProbeStep(c, d, st, slot), st0, slots)
ProbeRef(d, slots) ==
  ProbeFold(blk[d.b], d, [cur |-> d.cur, vc |-> d.vc, oks |-> <<>>, vals |-> <<>>], slots)
DecProbeOk(o, slots, oks, vals) ==
  /\ IsHeld(o, "dec") /\ obj[o].ld
  /\ LET r == ProbeRef(obj[o], slots) IN oks = r.oks /\ vals = r.vals
DecProbeDo(o, slots) ==
  /\ LET r == ProbeRef(obj[o], slots) IN obj' = [obj EXCEPT ![o].cur = r.cur, ![o].vc = r.vc]
  /\ UNCHANGED <<blk, strm, bat>>
DecProbe(o, slots, oks, vals) == DecProbeOk(o, slots, oks, vals) /\ DecProbeDo(o, slots)

\* "slot-addressed reads of a block agree with sequential reads": walking all slots of the
\* range upwards (from anywhere at or below the first) yields exactly the block
SlotWalkAgrees(c, lo) ==
  LET d == Loaded(FreshDec, 0, lo, lo + Len(c.marks) - 1)
      r == ProbeFold(c, d, [cur |-> 0, vc |-> 0, oks |-> <<>>, vals |-> <<>>],
                     [i \in 1..Len(c.marks) |-> lo + i - 1])
  IN r.oks = c.marks /\ r.vals = c.vals /\ r.cur = Len(c.marks)

-----------------------------------------------------------------------------
(* Multi-field stream (tsd_stream.go): header slot range, then (field id,      *)
(* header-less block) pairs; the reader decodes all fields through ONE pooled  *)
(* decoder it takes in its constructor and gives back in Close().              *)
StreamBytes(s, lo, hi, fids, fbs) ==
  /\ Len(fids) = Len(fbs)
  /\ {fbs[i] : i \in DOMAIN fbs} \subseteq {b \in DOMAIN blk : ~blk[b].hdr /\ Len(blk[b].marks) = hi - lo + 1}
  /\ LET c == [lo |-> lo, hi |-> hi, fids |-> fids, fbs |-> fbs] IN
       /\ (s \in DOMAIN strm => strm[s] = c)
       /\ strm' = Put(strm, s, c)
  /\ UNCHANGED <<obj, blk, bat>>
\* NewTSDStreamReader(bytes of s): took decoder o from the pool, TimeRange() = st, en
StreamOpen(s, o, st, en) ==
  /\ s \in DOMAIN strm /\ CanGet(o, "dec")
  /\ st = strm[s].lo /\ en = strm[s].hi
  /\ obj' = Put(obj, o, FreshDec) /\ UNCHANGED <<blk, strm, bat>>
\* i-th (1-based) HasNext()/Next(): has; if has, field id fid and decoder o loaded with that field
StreamNext(s, o, i, has, fid) ==
  /\ s \in DOMAIN strm /\ IsHeld(o, "dec")
  /\ has = (i <= Len(strm[s].fids))
  /\ IF has
     THEN /\ fid = strm[s].fids[i]
          /\ obj' = [obj EXCEPT ![o] = Loaded(@, strm[s].fbs[i], strm[s].lo, strm[s].hi)]
     ELSE UNCHANGED obj
  /\ UNCHANGED <<blk, strm, bat>>

-----------------------------------------------------------------------------
(* Batch codecs: the whole input goes in, bytes come out, a decoder (possibly  *)
(* reused) answers the whole content.  Ref = what the decoder must answer.     *)
Flatten(rows) == FoldLeft(LAMBDA acc, row : acc \o row, <<>>, rows)
\* Deviation_DbpEmptyIsZero: the delta encoder has no representation of the empty list
\* (it writes "0 deltas, first value 0"): decoding answers one value 0.
Ref(codec, in) ==
  CASE codec = "dbp" -> IF in = <<>> THEN <<0>> ELSE in
    [] codec = "snappy" -> Flatten(in)
    [] OTHER -> in                                   \* fo, bitmap, xor, stream, zigzag, snappybig
BatEnc(codec, in, b) ==
  /\ LET c == Ref(codec, in) k == <<codec, b>> IN
       /\ (k \in DOMAIN bat => bat[k] = c)            \* equal bytes, equal content
       /\ bat' = Put(bat, k, c)
  /\ UNCHANGED <<obj, blk, strm>>
BatDec(codec, b, out) ==
  /\ <<codec, b>> \in DOMAIN bat
  /\ out = bat[<<codec, b>>]
  /\ UNCHANGED vars

(* Fixed-width offset table (fixed_offset.go).  Offsets are pairs <<hi16, lo16>>. *)
PairLess(p, q) == p[1] < q[1] \/ (p[1] = q[1] /\ p[2] < q[2])
PairMax(in) == CHOOSE p \in {in[i] : i \in DOMAIN in} : \A i \in DOMAIN in : ~PairLess(p, in[i])
MinWidth(p) == IF p[1] = 0 THEN (IF p[2] < 256 THEN 1 ELSE 2) ELSE (IF p[1] < 256 THEN 3 ELSE 4)
UvarSize(n) == IF n < 128 THEN 1 ELSE IF n < 16384 THEN 2 ELSE 3
FoWidth(in) == IF in = <<>> THEN 1 ELSE MinWidth(PairMax(in))
\* Deviation_FoEmptyWritesNothing: an encoder without offsets writes no bytes at all (and says 2)
FoLen(in) == IF in = <<>> THEN 0 ELSE 1 + UvarSize(Len(in)) + Len(in) * FoWidth(in)
FoEnc(in, b, len, msize) ==
  /\ len = FoLen(in)
  /\ msize = 1 + UvarSize(Len(in)) + Len(in) * FoWidth(in)
  /\ BatEnc("fo", in, b)
\* Unmarshal(bytes of b ++ tail): err, Size(), ValueWidth(), Get(0..size-1), left = tail, probes outside
FoDec(b, err, size, width, out, tailin, tailout, oob) ==
  /\ <<"fo", b>> \in DOMAIN bat
  /\ LET in == bat[<<"fo", b>>] IN
       IF in = <<>> THEN err /\ size = 0 /\ out = <<>>
       ELSE /\ ~err /\ size = Len(in) /\ width = FoWidth(in) /\ out = in /\ tailout = tailin
            /\ oob = FALSE                            \* Get(-1), Get(size), Get(size+k) all answered "absent"
  /\ UNCHANGED vars
Num(p) == p[1] * 65536 + p[2]
\* GetBlock(i, data) for each i of idxs, data of length dlen: <<start, end>> of the answered slice or <<-1,-1>>
FoBlockRef(in, dlen, i) ==
  IF i < 0 \/ i >= Len(in) THEN <<-1, -1>>
  ELSE LET s == Num(in[i + 1])
           e == IF i + 1 < Len(in) THEN Num(in[i + 2]) ELSE dlen
       IN IF e < s \/ e > dlen THEN <<-1, -1>> ELSE <<s, e>>
FoBlocks(b, dlen, idxs, rngs) ==
  /\ <<"fo", b>> \in DOMAIN bat
  /\ LET in == bat[<<"fo", b>>] IN
       /\ {in[i][1] : i \in DOMAIN in} \subseteq 0..16383
       /\ rngs = [j \in 1..Len(idxs) |-> FoBlockRef(in, dlen, idxs[j])]
  /\ UNCHANGED vars

Next == FALSE   \* the module has no behaviour of its own: MCCodec / CodecTrace drive it
=============================================================================
