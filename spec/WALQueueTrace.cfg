CONSTANTS
  PageSize = 134217728
  AtomicPut = TRUE
  ClampConsumed = TRUE
SPECIFICATION TraceSpec
INVARIANTS Readable DurablyReadable Dense MemoryMatchesDisk GroupOrder QAckBounds
PROPERTIES TQAckMonotone TQAckMovesBelowMin
CONSTRAINT HighWater
POSTCONDITION TraceAccepted
CHECK_DEADLOCK FALSE
