package main

// famlife: the life cycle of one tsdb data family of a REAL engine (module FamilyLifecycle, check XFAMILY).
//
// One engine per process, one database per history.  The driver works on the family objects the shard hands out
// (shard.GetOrCrateDataFamily) through the exported DataFamily interface only.  The stages INSIDE Flush are entered
// deterministically, on the flushing goroutine itself, through three seams:
//   p1  = the table file of the flush is created        (kv/table writer constructor hook; after the freeze)
//   p1b = the table file is closed                      (same hook; rows written, nothing committed)
//   p2  = the sequence acknowledgement callback runs    (DataFamily.AckSequence; after the kv commit, before the drop)
// At every seam a scripted / seeded list of other operations runs (writes, commits, reads through the real query
// path, Evict, Retain / Release, a second Flush, GetState).  Two races need two goroutines; they are forced by
// holding the family mutex through a blocked acknowledgement callback (AckSequence calls it under the mutex) and by
// waiting until the other goroutine is PARKED at the mutex / wait group (goroutine dump, no sleeps):
//   close-vs-flush : Close while a flush stands at p1 / p2
//   evict-vs-retain: Retain between the reference check of Evict and its Close
// Faults: the table file cannot be created / closed (the flush fails after the freeze).

import (
	"errors"
	"flag"
	"fmt"
	"math/rand"
	"os"
	"path/filepath"
	"runtime"
	"runtime/debug"
	"sort"
	"strconv"
	"strings"
	"sync"
	"sync/atomic"
	"time"

	"github.com/lindb/common/pkg/fasttime"
	protoMetricsV1 "github.com/lindb/common/proto/gen/v1/linmetrics"

	"github.com/lindb/lindb/kv/table"
	"github.com/lindb/lindb/models"
	"github.com/lindb/lindb/pkg/bufioutil"
	"github.com/lindb/lindb/pkg/option"
	"github.com/lindb/lindb/pkg/timeutil"
	"github.com/lindb/lindb/tsdb"

	"verif/harness/internal/trace"
)

func init() { register("famlife", famlifeMain) }

const flLeaders = 2

// the engine is being closed at the end of the process (it closes the families of its segments once more)
var flShutdown bool

// ------------------------------------------------------------------ the table file seam
var flSeam struct {
	mu        sync.Mutex
	installed bool
	match     string       // path fragment of the database under test
	onCreate  func() error // before the table file of a flush is created
	onClose   func() error // before it is closed
}

type flWriter struct {
	bufioutil.BufioWriter
	closed bool
}

func (w *flWriter) Close() error {
	flSeam.mu.Lock()
	fn := flSeam.onClose
	flSeam.mu.Unlock()
	if fn != nil && !w.closed {
		w.closed = true
		if err := fn(); err != nil {
			_ = w.BufioWriter.Close()
			return err
		}
	}
	return w.BufioWriter.Close()
}

func flInstallSeam() {
	flSeam.mu.Lock()
	defer flSeam.mu.Unlock()
	if flSeam.installed {
		return
	}
	flSeam.installed = true
	orig := table.VerifGetWriterFunc()
	table.VerifSetWriterFunc(func(fileName string) (bufioutil.BufioWriter, error) {
		flSeam.mu.Lock()
		hit := flSeam.match != "" && strings.Contains(fileName, flSeam.match) && strings.Contains(fileName, string(filepath.Separator)+"segment"+string(filepath.Separator))
		fn := flSeam.onCreate
		flSeam.mu.Unlock()
		if !hit {
			return orig(fileName)
		}
		if fn != nil {
			if err := fn(); err != nil {
				return nil, err
			}
		}
		w, err := orig(fileName)
		if err != nil {
			return nil, err
		}
		return &flWriter{BufioWriter: w}, nil
	})
}

// ------------------------------------------------------------------ goroutine states
// flParked: some goroutine is parked in `wait`, called DIRECTLY by `fn` (the frame below it)
// (goroutines of earlier histories may stay parked for ever in the same place: the goroutine is named by its id)
func flParked(gid *int64, fn, wait string) bool {
	id := atomic.LoadInt64(gid)
	if id == 0 {
		return false
	}
	buf := make([]byte, 8<<20)
	n := runtime.Stack(buf, true)
	for _, g := range strings.Split(string(buf[:n]), "\n\n") {
		if !strings.HasPrefix(g, fmt.Sprintf("goroutine %d [", id)) {
			continue
		}
		lines := strings.Split(g, "\n")
		if strings.Contains(lines[0], "running") || strings.Contains(lines[0], "runnable") {
			continue
		}
		// frames: a function line followed by a file line
		for i := 1; i+2 < len(lines); i += 2 {
			if strings.HasPrefix(lines[i], wait) {
				if strings.HasPrefix(lines[i+2], "github.com/lindb/lindb/"+fn) {
					return true
				}
				break
			}
		}
	}
	return false
}

// flGid: id of the calling goroutine
func flGid() int64 {
	var buf [64]byte
	f := strings.Fields(string(buf[:runtime.Stack(buf[:], false)]))
	id, _ := strconv.ParseInt(f[1], 10, 64)
	return id
}

// flGo starts fn on a new goroutine and publishes its id
func flGo(gid *int64, fn func()) {
	go func() {
		var buf [64]byte
		f := strings.Fields(string(buf[:runtime.Stack(buf[:], false)]))
		id, _ := strconv.ParseInt(f[1], 10, 64)
		atomic.StoreInt64(gid, id)
		fn()
	}()
}

// flAwait polls until cond holds or done fires; returns "cond", "done" or "timeout"
func flAwait(cond func() bool, done <-chan struct{}, seconds int) string {
	deadline := time.Now().Add(time.Duration(seconds) * time.Second)
	for time.Now().Before(deadline) {
		select {
		case <-done:
			return "done"
		default:
		}
		if cond() {
			return "cond"
		}
		runtime.Gosched()
		time.Sleep(200 * time.Microsecond)
	}
	return "timeout"
}

// ------------------------------------------------------------------ history state
type flObj struct {
	id     int
	f      tsdb.DataFamily
	closed bool
	locked bool // a parked Close holds the family mutex: GetState would block
	cbs    map[int]bool
	ref    int
}

type flAck struct {
	leader  int
	seq     int64
	creates int
}

type flJob struct {
	o          *flObj
	mode       string // flush | close | gated
	retry      bool
	failAt     string // "" | create | close
	p1, p1b, p2 func()
	creates    int
	frozen     bool
	freezeSeen bool // the driver emitted FlushFreeze itself (write-vs-flush)
	committed  bool
	acks       []flAck
	// gated mode: a flush and a Close on goroutines of their own
	gClose       int64 // goroutine that runs Close
	closeCreates int   // table files created by Close
	gateAt  string // p1 | p2
	arrived chan struct{}
	goOn    chan struct{}
	arrived2, goOn2 chan struct{} // second stop (table file closed); write-vs-flush only
}

type flCtx struct {
	h      *qHist
	rec    *trace.Recorder
	rng    *rand.Rand
	sum    *trace.Summary
	sh     tsdb.Shard
	base   int64
	objs   []*flObj
	cur    *flObj
	next   int
	pend   map[[2]int]int // (object, leader) -> last row of the leader not committed yet
	old    bool
	job    *flJob
	nested int
	inP2   bool
	// registration in progress: the callback may be invoked at once
	regGot  *int64
	regGate func(got int64)
	// creation times of the memory databases of the history (the shard's memory index keys their slot ranges by it)
	stamps     map[int64]int
	maxCreated int64
	shared     bool // two memory databases of the history were created in one tick of the fast clock
	align      bool // the next write starts right after a clock tick
	collide    bool // do not wait for the next clock tick before a memory database is created
	script     []string
	dead       bool // the history cannot go on (poisoned family / unresolved)
	poison  bool
	counts  map[string]int
}

func (c *flCtx) note(s string, a ...any) { c.script = append(c.script, fmt.Sprintf(s, a...)) }

func (c *flCtx) emit(ev string, f trace.F) {
	c.rec.Emit(ev, f)
	c.counts[ev]++
}

func (c *flCtx) unresolved(s string, a ...any) {
	c.sum.Unresolved = append(c.sum.Unresolved, fmt.Sprintf("history %s: ", c.h.dbName)+fmt.Sprintf(s, a...))
	c.dead = true
}

func flSeqList(m map[int32]int64) []int64 {
	out := make([]int64, flLeaders)
	for i := range out {
		out[i] = -1
		if v, ok := m[int32(i+1)]; ok {
			out[i] = v
		}
	}
	return out
}

func (c *flCtx) inMgr(o *flObj) bool {
	found := false
	tsdb.GetFamilyManager().WalkEntry(func(x tsdb.DataFamily) {
		if x == o.f {
			found = true
		}
	})
	return found
}

// proj: what the real objects report
func (c *flCtx) proj() {
	if len(c.objs) == 0 {
		return
	}
	objs := []trace.F{}
	for _, o := range c.objs {
		if o.locked {
			objs = append(objs, trace.F{"locked": true, "flushing": o.f.IsFlushing(), "mut": 0, "imm": 0, "seq": []int64{}, "persist": []int64{}})
			continue
		}
		st := o.f.GetState()
		mut, imm := -1, -1
		for _, m := range st.MemoryDatabases {
			switch m.State {
			case "mutable":
				mut = m.NumOfSeries
			case "immutable":
				imm = m.NumOfSeries
			}
		}
		objs = append(objs, trace.F{"locked": false, "flushing": o.f.IsFlushing(), "mut": mut, "imm": imm,
			"seq": flSeqList(st.ReplicaSequences), "persist": flSeqList(st.AckSequences)})
	}
	mgr := 0
	ind := c.objs[0].f.Indicator()
	tsdb.GetFamilyManager().WalkEntry(func(x tsdb.DataFamily) {
		if x.Indicator() != ind {
			return
		}
		mgr = -1
		for _, o := range c.objs {
			if o.f == x {
				mgr = o.id
			}
		}
	})
	snap := c.objs[0].f.Family().GetSnapshot()
	dseq := flSeqList(snap.GetCurrent().GetSequences())
	snap.Close()
	c.emit("Proj", trace.F{"objs": objs, "mgr": mgr, "dseq": dseq})
}

func (c *flCtx) load() {
	f, err := c.sh.GetOrCrateDataFamily(c.base)
	if err != nil {
		c.unresolved("GetOrCrateDataFamily: %v", err)
		return
	}
	for _, o := range c.objs {
		if o.f == f {
			c.cur = o
			c.emit("Load", trace.F{"obj": o.id})
			return
		}
	}
	o := &flObj{id: len(c.objs) + 1, f: f, cbs: map[int]bool{}}
	c.objs = append(c.objs, o)
	c.cur = o
	c.note("load:%d", o.id)
	c.emit("Load", trace.F{"obj": o.id})
	c.proj()
}

func (c *flCtx) metric(row int) *protoMetricsV1.Metric {
	return &protoMetricsV1.Metric{Name: "cpu", Timestamp: c.base + int64(row)*10000 + 1,
		Tags:         []*protoMetricsV1.KeyValue{{Key: "host", Value: fmt.Sprintf("r%d", row)}, {Key: "dc", Value: "x"}},
		SimpleFields: []*protoMetricsV1.SimpleField{{Name: "s", Value: 1, Type: protoMetricsV1.SimpleFieldType_DELTA_SUM}}}
}

// mutableCreated: does the object have a mutable memory database, and when was it created (exact: the uptime GetState
// reports is taken against the same 5 ms clock; read again if the clock ticked meanwhile)
func (c *flCtx) mutableCreated(o *flObj) (has bool, created int64) {
	for {
		t0 := fasttime.UnixNano()
		st := o.f.GetState()
		if fasttime.UnixNano() != t0 {
			continue
		}
		for _, m := range st.MemoryDatabases {
			if m.State == "mutable" {
				return true, t0 - int64(m.Uptime)
			}
		}
		return false, 0
	}
}

// write hands one row (its own series, its own slot, value 1) of the leader to the object
func (c *flCtx) write(o *flObj, leader int) {
	if o.locked || c.next > 55 {
		return
	}
	row := c.next
	res := "ok"
	creates := false
	if !o.closed {
		has, _ := c.mutableCreated(o)
		creates = !has
		if creates && !c.collide {
			// the new memory database gets a creation time of its own
			for fasttime.UnixNano() <= c.maxCreated {
				runtime.Gosched()
			}
		}
	}
	srows := storageRows(c.metric(row))
	if c.align {
		// start right after a tick of the fast clock (the next creation shall fall into the same tick)
		c.align = false
		for t := fasttime.UnixNano(); fasttime.UnixNano() == t; {
			runtime.Gosched()
		}
	}
	func() {
		old := debug.SetPanicOnFault(true)
		defer debug.SetPanicOnFault(old)
		defer func() {
			if r := recover(); r != nil {
				res = "panic"
			}
		}()
		if err := o.f.WriteRows(srows); err != nil {
			res = "err"
		}
	}()
	c.note("w:%d:%d:%d:%s", o.id, leader, row, res)
	if o.closed {
		c.emit("WriteClosed", trace.F{"obj": o.id, "leader": leader, "row": row, "res": res})
		if res == "ok" {
			c.next++
		}
		return
	}
	if res != "ok" {
		c.emit("Unexpected", trace.F{"what": "WriteRows on an open object: " + res, "obj": o.id, "row": row})
		c.dead = true
		return
	}
	c.next++
	c.pend[[2]int{o.id, leader}] = row
	stamp := 0
	sametick := false
	if creates {
		has, created := c.mutableCreated(o)
		if !has {
			c.emit("Unexpected", trace.F{"what": "no mutable memory database after WriteRows", "obj": o.id, "row": row})
			c.dead = true
			return
		}
		// the fast clock ticks every 5 ms: a creation time less than 1 ms away from an earlier one came from the same tick
		// (equal before the repair of memdb.NewMemoryDatabase, last+1 since)
		for t := range c.stamps {
			if d := created - t; d > -1000000 && d < 1000000 {
				sametick = true
			}
		}
		if sametick {
			c.counts["memdbs-created-in-one-tick"]++
			c.shared = true
		}
		if _, ok := c.stamps[created]; !ok {
			c.stamps[created] = len(c.stamps) + 1
		} else {
			c.counts["memdbs-with-equal-creation-time"]++
		}
		stamp = c.stamps[created]
		if created > c.maxCreated {
			c.maxCreated = created
		}
	}
	c.emit("Write", trace.F{"obj": o.id, "leader": leader, "row": row, "stamp": stamp, "sametick": sametick})
	c.proj()
}

func (c *flCtx) commit(o *flObj, leader int) {
	row, ok := c.pend[[2]int{o.id, leader}]
	if !ok || o.closed || o.locked {
		return
	}
	delete(c.pend, [2]int{o.id, leader})
	o.f.CommitSequence(int32(leader), int64(row))
	c.note("c:%d:%d:%d", o.id, leader, row)
	c.emit("Commit", trace.F{"obj": o.id, "leader": leader, "seq": row})
	c.proj()
}

// callback of the leader on the object: what it means depends on who runs
func (c *flCtx) callback(o *flObj, leader int) func(int64) {
	return func(seq int64) {
		if c.regGot != nil {
			*c.regGot = seq
			if g := c.regGate; g != nil {
				c.regGate = nil
				g(seq)
			}
			return
		}
		j := c.job
		if flShutdown {
			return
		}
		if j == nil || j.o != o {
			c.emit("Unexpected", trace.F{"what": "acknowledgement callback outside a flush", "obj": o.id, "leader": leader, "seq": seq})
			return
		}
		mode := j.mode
		if mode == "gated" && flGid() == atomic.LoadInt64(&j.gClose) {
			j.acks = append(j.acks, flAck{leader, seq, j.closeCreates})
			return
		}
		switch mode {
		case "close":
			j.acks = append(j.acks, flAck{leader, seq, j.creates})
		case "flush", "gated":
			first := !j.committed
			if first {
				j.committed = true
				c.emit("FlushCommit", trace.F{"obj": o.id})
				if j.mode == "flush" {
					c.proj()
				}
			}
			c.emit("FlushAck", trace.F{"obj": o.id, "leader": leader, "seq": seq})
			if !first {
				return
			}
			if j.mode == "flush" {
				if fn := j.p2; fn != nil {
					j.p2 = nil
					c.inP2 = true
					c.nested++
					fn()
					c.nested--
					c.inP2 = false
				}
			} else if j.gateAt == "p2" {
				close(j.arrived)
				<-j.goOn
			}
		}
	}
}

func (c *flCtx) ackReg(o *flObj, leader int) {
	if o.cbs[leader] || o.closed || o.locked || c.inP2 {
		return
	}
	o.cbs[leader] = true
	got := int64(-1)
	c.regGot = &got
	o.f.AckSequence(int32(leader), c.callback(o, leader))
	c.regGot = nil
	c.note("a:%d:%d:%d", o.id, leader, got)
	c.emit("AckReg", trace.F{"obj": o.id, "leader": leader, "got": got})
}

func (c *flCtx) retain(o *flObj) {
	o.f.Retain()
	o.ref++
	c.note("retain:%d", o.id)
	c.emit("Retain", trace.F{"obj": o.id})
}

func (c *flCtx) release(o *flObj) {
	if o.ref == 0 {
		return
	}
	o.f.Release()
	o.ref--
	c.note("release:%d", o.id)
	c.emit("Release", trace.F{"obj": o.id})
}

func (c *flCtx) evict(o *flObj) {
	if o.closed || o.locked || !c.inMgr(o) {
		return
	}
	o.f.Evict()
	closed := !c.inMgr(o)
	c.note("evict:%d:%v", o.id, closed)
	c.emit("Evict", trace.F{"obj": o.id, "closed": closed})
	if closed {
		o.closed = true
		if c.cur == o {
			c.cur = nil
		}
	}
	c.proj()
}

// read: what a query through the real leaf path sees of every row written so far
func (c *flCtx) read() {
	if c.next == 1 {
		return
	}
	if c.cur == nil {
		c.load() // the query would create the object
		if c.dead {
			return
		}
	}
	if c.cur.locked {
		return
	}
	q := &qQuery{from: c.base, to: c.base + 3600*1000 - 1000, items: []qItem{{"", "s"}}, group: []string{"host"}}
	res, info := c.h.run(q, oneLeaf(1))
	vis := make([]int64, c.next-1)
	bad := []string{}
	if ok, _ := res["ok"].(bool); !ok {
		if res["err"] != "notfound" {
			bad = append(bad, "query failed: "+info)
		}
	} else {
		series, _ := res["series"].([][]string)
		cells, _ := res["cells"].([][]int64)
		for _, b := range res["bad"].([]string) {
			bad = append(bad, b)
		}
		for _, cell := range cells {
			row := 0
			if int(cell[0]) >= 1 && int(cell[0]) <= len(series) && len(series[cell[0]-1]) == 1 {
				_, _ = fmt.Sscanf(series[cell[0]-1][0], "r%d", &row)
			}
			if row < 1 || row >= c.next || cell[2] != (c.base+int64(row)*10000)/1000 {
				bad = append(bad, fmt.Sprintf("cell %v", cell))
				continue
			}
			vis[row-1] += cell[3]
		}
	}
	c.note("read:%v", vis)
	c.emit("Read", trace.F{"vis": vis, "bad": bad})
}

// ------------------------------------------------------------------ Flush
type flPlan struct {
	failAt      string
	p1, p1b, p2 func()
}

func (c *flCtx) nest(fn func()) func() {
	if fn == nil {
		return nil
	}
	return func() {
		c.nested++
		fn()
		c.nested--
	}
}

func (c *flCtx) flush(o *flObj, plan flPlan) {
	if o.closed || o.locked {
		return
	}
	if c.job != nil || o.f.IsFlushing() {
		// the guard: a flush of the object runs (we are inside one of its seams)
		busy := o.f.IsFlushing()
		err := o.f.Flush()
		if err != nil || !busy {
			c.emit("Unexpected", trace.F{"what": fmt.Sprintf("nested Flush: busy=%v err=%v", busy, err), "obj": o.id})
			c.dead = true
			return
		}
		c.note("flushbusy:%d", o.id)
		c.emit("FlushBusy", trace.F{"obj": o.id})
		c.proj()
		return
	}
	st := o.f.GetState()
	retry := false
	for _, m := range st.MemoryDatabases {
		if m.State == "immutable" {
			retry = true
		}
	}
	j := &flJob{o: o, mode: "flush", retry: retry, failAt: plan.failAt, p1: c.nest(plan.p1), p1b: c.nest(plan.p1b), p2: plan.p2}
	c.job = j
	err := o.f.Flush()
	c.job = nil
	switch {
	case err != nil:
		c.note("flushfail:%d:%s", o.id, j.failAt)
		if !j.frozen || j.committed {
			c.emit("Unexpected", trace.F{"what": "Flush failed outside the frozen stage: " + err.Error(), "obj": o.id})
			c.dead = true
			return
		}
		c.emit("FlushFail", trace.F{"obj": o.id})
	case !j.frozen:
		c.note("flushnothing:%d", o.id)
		c.emit("FlushNothing", trace.F{"obj": o.id})
	default:
		c.note("flush:%d", o.id)
		if !j.committed {
			c.emit("FlushCommit", trace.F{"obj": o.id})
		}
		c.emit("FlushRelease", trace.F{"obj": o.id})
		c.emit("FlushDrop", trace.F{"obj": o.id})
	}
	c.proj()
}

// the seams of the table file, on the goroutine that flushes
func (c *flCtx) onCreate() error {
	j := c.job
	if j == nil {
		return nil
	}
	if j.mode == "gated" && flGid() == atomic.LoadInt64(&j.gClose) {
		j.closeCreates++
		return nil
	}
	j.creates++
	if j.mode == "close" {
		return nil
	}
	if j.frozen && !j.freezeSeen {
		c.emit("Unexpected", trace.F{"what": "second table file in one flush", "obj": j.o.id})
		return nil
	}
	if j.freezeSeen {
		// the driver saw the freeze already (the flush waited for a registered writer before it came here)
		j.freezeSeen = false
	} else {
		j.frozen = true
		if j.retry {
			c.emit("FlushRetry", trace.F{"obj": j.o.id})
		} else {
			c.emit("FlushFreeze", trace.F{"obj": j.o.id})
		}
	}
	if j.mode == "gated" {
		if j.gateAt == "p1" {
			close(j.arrived)
			<-j.goOn
		}
		return nil
	}
	c.proj()
	if j.failAt == "create" {
		return errors.New("injected: table file cannot be created")
	}
	if fn := j.p1; fn != nil {
		j.p1 = nil
		fn()
	}
	return nil
}

func (c *flCtx) onClose() error {
	j := c.job
	if j != nil && j.mode == "gated" && j.arrived2 != nil && flGid() != atomic.LoadInt64(&j.gClose) {
		// write-vs-flush: second stop of the flush, its table file is written and closed
		a, g := j.arrived2, j.goOn2
		j.arrived2 = nil
		close(a)
		<-g
		return nil
	}
	if j == nil || j.mode != "flush" {
		return nil
	}
	if fn := j.p1b; fn != nil {
		j.p1b = nil
		fn()
	}
	if j.failAt == "close" {
		return errors.New("injected: table file cannot be closed")
	}
	return nil
}

// ------------------------------------------------------------------ Close (directly: what segment.Close does at shutdown)
func (c *flCtx) closeObj(o *flObj) {
	if o.closed || o.locked || c.job != nil {
		return
	}
	st := o.f.GetState()
	kinds := []string{}
	for _, want := range []string{"immutable", "mutable"} {
		for _, m := range st.MemoryDatabases {
			if m.State == want {
				kinds = append(kinds, want)
			}
		}
	}
	c.emit("CloseBegin", trace.F{"obj": o.id})
	j := &flJob{o: o, mode: "close"}
	c.job = j
	err := o.f.Close()
	c.job = nil
	c.note("close:%d:%v", o.id, kinds)
	if err != nil {
		c.emit("Unexpected", trace.F{"what": "Close failed: " + err.Error(), "obj": o.id})
		c.dead = true
		return
	}
	c.emit("CloseWait", trace.F{"obj": o.id})
	for k := range kinds {
		c.emit("CloseCommit", trace.F{"obj": o.id, "kind": kinds[k]})
		for _, a := range j.acks {
			if a.creates == k+1 {
				c.emit("CloseAck", trace.F{"obj": o.id, "leader": a.leader, "seq": a.seq})
			}
		}
		c.emit("CloseNext", trace.F{"obj": o.id})
	}
	for _, a := range j.acks {
		if a.creates < 1 || a.creates > len(kinds) {
			c.emit("Unexpected", trace.F{"what": "acknowledgement of Close outside its flushes", "obj": o.id, "leader": a.leader, "seq": a.seq})
		}
	}
	c.emit("CloseEnd", trace.F{"obj": o.id})
	o.closed = true
	c.proj()
}

// ------------------------------------------------------------------ close-vs-flush (two goroutines, parked-state detection)
func (c *flCtx) closeDuringFlush(at string, withWrite bool) {
	o := c.cur
	if o == nil || o.closed || c.job != nil {
		return
	}
	j := &flJob{o: o, mode: "gated", gateAt: at, arrived: make(chan struct{}), goOn: make(chan struct{})}
	c.job = j
	flushDone := make(chan struct{})
	var flushErr error
	var gFlush int64
	flGo(&gFlush, func() { flushErr = o.f.Flush(); close(flushDone) })
	select {
	case <-j.arrived:
	case <-flushDone:
		// nothing to flush (e.g. the immutable database of a failed flush is in the way) or no callback to stop in
		c.job = nil
		switch {
		case flushErr != nil:
			c.emit("Unexpected", trace.F{"what": "Flush failed: " + flushErr.Error(), "obj": o.id})
			c.dead = true
			return
		case !j.frozen:
			c.emit("FlushNothing", trace.F{"obj": o.id})
		default:
			if !j.committed {
				c.emit("FlushCommit", trace.F{"obj": o.id})
			}
			c.emit("FlushRelease", trace.F{"obj": o.id})
			c.emit("FlushDrop", trace.F{"obj": o.id})
		}
		c.proj()
		c.closeObj(o)
		return
	case <-time.After(60 * time.Second):
		c.unresolved("close-vs-flush: the flush did not reach %s", at)
		return
	}
	c.note("close-vs-flush:%s", at)
	if withWrite {
		// a row written during the flush: Close has a mutable database to flush afterwards
		c.write(o, 1)
		c.commit(o, 1)
	}
	closeDone := make(chan struct{})
	var closeErr error
	flGo(&j.gClose, func() { closeErr = o.f.Close(); close(closeDone) })
	// Close waits for the running flush (flushCondition.Wait); nothing of the family is read from here on until both
	// calls returned -- if Close held the family mutex while waiting, GetState would never return
	switch flAwait(func() bool { return flParked(&j.gClose, "tsdb.(*dataFamily).Close", "sync.(*WaitGroup).Wait") }, closeDone, 60) {
	case "done":
		c.emit("Unexpected", trace.F{"what": "Close returned while a flush of the family runs", "obj": o.id})
		c.dead = true
		close(j.goOn)
		<-flushDone
		c.job = nil
		return
	case "timeout":
		c.unresolved("close-vs-flush: Close neither returned nor waits for the flush")
		c.poison = true
		close(j.goOn)
		return
	}
	close(j.goOn)
	// the flush goes on: commit, callbacks, memdb close, second mutex section.  Bounded: a flush that stands at the
	// family mutex (or does not come back in time) is an observation, recorded as the event Stuck
	switch flAwait(func() bool { return flParked(&gFlush, "tsdb.(*dataFamily).Flush", "sync.(*Mutex).Lock") }, flushDone, 30) {
	case "done":
	default:
		if !j.committed {
			c.emit("FlushCommit", trace.F{"obj": o.id})
		}
		c.emit("FlushRelease", trace.F{"obj": o.id})
		c.emit("Stuck", trace.F{"obj": o.id, "what": "the flush waits for the family mutex, Close (holding it) waits for the flush"})
		c.note("stuck")
		c.counts["stuck-histories"]++
		// the two goroutines stay parked for ever: this engine cannot be closed any more
		c.poison, c.dead = true, true
		return
	}
	if flushErr != nil {
		c.emit("Unexpected", trace.F{"what": "Flush failed: " + flushErr.Error(), "obj": o.id})
		c.dead = true
	}
	if !j.committed {
		c.emit("FlushCommit", trace.F{"obj": o.id})
	}
	c.emit("FlushRelease", trace.F{"obj": o.id})
	c.emit("FlushDrop", trace.F{"obj": o.id})
	// now Close takes the mutex and flushes what is in memory
	select {
	case <-closeDone:
	case <-time.After(30 * time.Second):
		c.emit("Stuck", trace.F{"obj": o.id, "what": "Close did not return after the flush completed"})
		c.poison, c.dead = true, true
		return
	}
	c.job = nil
	if closeErr != nil {
		c.emit("Unexpected", trace.F{"what": "Close failed: " + closeErr.Error(), "obj": o.id})
		c.dead = true
		return
	}
	c.emit("CloseBegin", trace.F{"obj": o.id})
	c.emit("CloseWait", trace.F{"obj": o.id})
	for k := 1; k <= j.closeCreates; k++ {
		c.emit("CloseCommit", trace.F{"obj": o.id})
		for _, a := range j.acks {
			if a.creates == k {
				c.emit("CloseAck", trace.F{"obj": o.id, "leader": a.leader, "seq": a.seq})
			}
		}
		c.emit("CloseNext", trace.F{"obj": o.id})
	}
	c.emit("CloseEnd", trace.F{"obj": o.id})
	o.closed = true
	c.counts["close-during-flush-completed"]++
	c.proj()
	c.read()
}

// ------------------------------------------------------------------ evict-vs-retain
// The family mutex is held by a blocked acknowledgement callback (AckSequence invokes it under the mutex when the
// leader has a persisted sequence); Evict passes its reference check and parks at the mutex; the driver retains the
// family; the callback returns; Evict goes on with its memory check, Close and the removal from the segment.
func (c *flCtx) evictRace(leader int, retain bool) {
	o := c.cur
	if o == nil || o.closed || c.job != nil || o.cbs[leader] || !c.inMgr(o) {
		return
	}
	st := o.f.GetState()
	if _, ok := st.AckSequences[int32(leader)]; !ok {
		return
	}
	c.note("evict-vs-retain:%d:%v", leader, retain)
	inside := make(chan struct{})
	gate := make(chan struct{})
	c.regGate = func(got int64) {
		c.emit("AckReg", trace.F{"obj": o.id, "leader": leader, "got": got})
		close(inside)
		<-gate
	}
	o.cbs[leader] = true
	got := int64(-1)
	c.regGot = &got
	regDone := make(chan struct{})
	go func() { o.f.AckSequence(int32(leader), c.callback(o, leader)); close(regDone) }()
	select {
	case <-inside:
	case <-time.After(60 * time.Second):
		c.unresolved("evict-vs-retain: the callback was not invoked at registration")
		return
	}
	evDone := make(chan struct{})
	var gEvict int64
	flGo(&gEvict, func() { o.f.Evict(); close(evDone) })
	switch flAwait(func() bool { return flParked(&gEvict, "tsdb.(*dataFamily).Evict", "sync.(*Mutex).Lock") }, evDone, 60) {
	case "cond":
		c.emit("EvictRef", trace.F{"obj": o.id, "go": true})
		if retain {
			c.retain(o)
		}
		close(gate)
		<-regDone
		c.regGot = nil
		<-evDone
		closed := !c.inMgr(o)
		c.emit("EvictMem", trace.F{"obj": o.id, "go": closed})
		if closed {
			c.emit("CloseBegin", trace.F{"obj": o.id})
			c.emit("CloseWait", trace.F{"obj": o.id})
			c.emit("CloseEnd", trace.F{"obj": o.id})
			o.closed = true
			c.cur = nil
			if retain {
				c.counts["evicted-with-reference"]++
			}
		}
	case "done":
		// the reference check stopped it
		close(gate)
		<-regDone
		c.regGot = nil
		c.emit("EvictRef", trace.F{"obj": o.id, "go": false})
	default:
		close(gate)
		c.regGot = nil
		c.unresolved("evict-vs-retain: Evict neither returned nor parked")
		return
	}
	c.proj()
}

// ------------------------------------------------------------------ histories
func (c *flCtx) someLeader() int { return 1 + c.rng.Intn(flLeaders) }

// one random operation that may run at top level and inside a seam
func (c *flCtx) randOp() {
	if c.dead {
		return
	}
	o := c.cur
	if o == nil {
		// evicted: reload, or use the stale handle
		if len(c.objs) > 0 && c.rng.Intn(3) == 0 {
			c.write(c.objs[len(c.objs)-1], c.someLeader())
			return
		}
		c.load()
		return
	}
	switch x := c.rng.Intn(100); {
	case x < 30:
		l := c.someLeader()
		c.write(o, l)
		if c.rng.Intn(4) != 0 {
			c.commit(o, l)
		}
	case x < 38:
		c.commit(o, c.someLeader())
	case x < 55:
		c.read()
	case x < 63:
		c.evict(o)
	case x < 70:
		c.retain(o)
	case x < 78:
		c.release(o)
	case x < 84:
		c.ackReg(o, c.someLeader())
	case x < 88:
		c.load()
	default:
		if c.nested > 0 {
			c.flush(o, flPlan{})
		} else {
			c.flush(o, c.randPlan())
		}
	}
}

func (c *flCtx) randOps(n int) func() {
	if n == 0 {
		return nil
	}
	return func() {
		for i := 0; i < n; i++ {
			c.randOp()
		}
	}
}

func (c *flCtx) randPlan() flPlan {
	p := flPlan{p1: c.randOps(c.rng.Intn(3)), p1b: c.randOps(c.rng.Intn(3)), p2: c.randOps(c.rng.Intn(4))}
	switch c.rng.Intn(8) {
	case 0:
		p.failAt = "create"
	case 1:
		p.failAt = "close"
	}
	return p
}

func (c *flCtx) randomHistory(steps int) {
	c.load()
	for i := 0; i < steps && !c.dead; i++ {
		c.randOp()
	}
	if c.dead {
		return
	}
	// the end of the family: eviction race, close against a running flush, or a plain Close
	switch c.rng.Intn(6) {
	case 0:
		if c.cur != nil {
			c.ackReg(c.cur, 1)
			c.write(c.cur, 1)
			c.commit(c.cur, 1)
			c.closeDuringFlush([]string{"p1", "p2"}[c.rng.Intn(2)], c.rng.Intn(2) == 0)
		}
	case 1:
		if c.cur != nil {
			c.flush(c.cur, flPlan{})
			for c.cur.ref > 0 {
				c.release(c.cur)
			}
			c.evictRace(c.someLeader(), c.rng.Intn(3) != 0)
			c.lateWrite()
		}
	default:
		if c.cur == nil {
			c.load()
		}
		if !c.dead {
			c.closeObj(c.cur)
			c.read()
			if c.rng.Intn(3) == 0 {
				c.write(c.cur, c.someLeader())
			}
		}
	}
}

// a holder of an evicted object goes on writing; the family is then loaded again and read
func (c *flCtx) lateWrite() {
	if c.dead || c.cur != nil || len(c.objs) == 0 {
		return
	}
	c.write(c.objs[len(c.objs)-1], 1)
	c.read()
}

func (c *flCtx) scripted(name string) {
	c.load()
	o := c.cur
	w := func(l int) { c.write(c.cur, l); c.commit(c.cur, l) }
	switch name {
	case "window":
		// reads at every stage of a flush; the write at p1 / p2 goes to a new mutable database
		c.ackReg(o, 1)
		w(1)
		w(2)
		c.read()
		c.flush(o, flPlan{p1: func() { c.read(); w(1); c.read() }, p1b: func() { c.read(); c.flush(o, flPlan{}) },
			p2: func() { c.read(); w(2); c.read(); c.evict(o) }})
		c.read()
		c.flush(o, flPlan{})
		c.read()
	case "acks":
		// the frozen sequences are the acknowledged ones: commits during the flush are not acknowledged by it
		c.ackReg(o, 1)
		c.ackReg(o, 2)
		w(1)
		c.write(o, 2) // written, sequence not committed when the database is frozen
		c.flush(o, flPlan{p1: func() { c.commit(o, 2); w(1) }, p2: func() { w(2) }})
		c.flush(o, flPlan{})
		c.read()
		c.closeObj(o)
		c.read()
	case "failed":
		// a flush that fails after the freeze: the immutable database stays, later flushes are ignored, Close flushes both
		c.ackReg(o, 1)
		w(1)
		c.flush(o, flPlan{failAt: "create"})
		c.read()
		w(1)
		c.flush(o, flPlan{})
		c.evict(o)
		c.read()
		w(2)
		c.flush(o, flPlan{failAt: "close"})
		c.closeObj(o)
		c.read()
	case "evict":
		// the TTL path: reference, data in memory, running flush; then the real eviction, a stale holder, a reload
		w(1)
		c.evict(o)
		c.flush(o, flPlan{p1: func() { c.evict(o) }, p2: func() { c.evict(o) }})
		c.retain(o)
		c.evict(o)
		c.release(o)
		c.read()
		c.evict(o)
		c.write(o, 1)
		c.read()
		if c.cur != nil {
			w(1)
			c.flush(c.cur, flPlan{})
			c.read()
			c.evict(c.cur)
			c.read()
		}
	case "closeflush-p1":
		w(1)
		c.ackReg(o, 1)
		c.closeDuringFlush("p1", true)
	case "closeflush-p2":
		c.ackReg(o, 1)
		w(1)
		c.closeDuringFlush("p2", false)
	case "evictrace":
		w(1)
		w(2)
		c.flush(o, flPlan{})
		c.evictRace(2, true)
		c.lateWrite()
	case "evictrace-noretain":
		w(2)
		c.flush(o, flPlan{})
		c.evictRace(2, false)
		c.read()
	case "evictrace-held":
		w(2)
		c.flush(o, flPlan{})
		c.retain(o)
		c.evictRace(2, true)
		c.read()
	case "stamp":
		// two memory databases of the family created in one tick of the 5 ms clock: the second one is created by a
		// write during the flush of the first
		c.ackReg(o, 1)
		c.align = true
		w(1)
		c.collide = true
		c.flush(o, flPlan{p1: func() { w(1) }})
		c.collide = false
		c.read()
		w(1)
		c.read()
		c.flush(o, flPlan{})
		c.read()
		c.closeObj(o)
		c.read()
	default:
		if fn := flExtra[name]; fn != nil {
			fn(c)
		}
	case "lost":
		w(1)
		if os.Getenv("FL_A") == "" {
			c.flush(o, flPlan{})
		}
		w(2)
		c.flush(o, flPlan{failAt: os.Getenv("FL_FAIL"), p1: func() { w(1) }})
		c.read()
		if os.Getenv("FL_B") == "" {
			w(1)
		}
		if os.Getenv("FL_C") != "" {
			c.flush(o, flPlan{})
			c.read()
		}
		c.closeObj(o)
		c.read()
	case "close":
		// Close flushes the immutable database of a failed flush and the mutable one, each with its own sequences
		c.ackReg(o, 1)
		c.ackReg(o, 2)
		w(1)
		c.flush(o, flPlan{failAt: "close", p1: func() { w(2) }})
		w(1)
		c.closeObj(o)
		c.read()
		c.write(o, 1)
	}
}

// scenarios that need a hook the pinned tree does not have yet are registered by their own file
var flExtra = map[string]func(c *flCtx){}

var flScenarios = []string{"window", "acks", "failed", "evict", "close", "stamp", "evictrace", "evictrace-noretain", "evictrace-held", "closeflush-p1", "closeflush-p2"}

func famlifeMain(args []string) int {
	fs := flag.NewFlagSet("famlife", flag.ExitOnError)
	out := fs.String("out", "famlife.ndjson", "trace output")
	seed := fs.Int64("seed", 1, "seed")
	nh := fs.Int("histories", 40, "random histories")
	steps := fs.Int("steps", 14, "top-level steps per random history")
	only := fs.String("scenario", "", "run only this scripted scenario")
	_ = fs.Parse(args)
	time.Local = time.UTC
	rec, err := trace.New(*out)
	if err != nil {
		fmt.Println(err)
		return 2
	}
	dir, err := os.MkdirTemp("", "famlife")
	if err != nil {
		fmt.Println(err)
		return 2
	}
	defer os.RemoveAll(dir)
	engine, err := openEngineAt(filepath.Join(dir, "data"))
	if err != nil {
		fmt.Println(err)
		return 2
	}
	flInstallSeam()
	rng := rand.New(rand.NewSource(*seed))
	sum := &trace.Summary{Module: "FamilyLifecycle", Extra: map[string]any{}}
	counts := map[string]int{}
	poisoned := false
	base := time.Date(2022, 3, 1, 11, 0, 0, 0, time.UTC).UnixMilli()
	run := func(i int, scenario string, old bool) (shared bool) {
		name := fmt.Sprintf("fl%d", i)
		opt := &option.DatabaseOption{Intervals: option.Intervals{{Interval: timeutil.Interval(qSiv * 1000),
			Retention: timeutil.Interval(36500 * 24 * 3600 * 1000)}}, AutoCreateNS: true}
		if err := engine.CreateShards(name, opt, models.ShardID(0)); err != nil {
			sum.Unresolved = append(sum.Unresolved, "create shards: "+err.Error())
			return false
		}
		db, _ := engine.GetDatabase(name)
		if old {
			// the clock is not injectable: the age conditions of Evict (family older than ahead + 6h, not read for
			// ahead + 2h) are made true by moving the write window of the database
			db.GetOption().Ahead = "-4h"
		}
		sh, _ := db.GetShard(models.ShardID(0))
		h := &qHist{rec: rec, rng: rng, sum: sum, dir: dir, dbName: name, engine: engine, db: db, opt: opt, nsh: 1,
			kinds: map[string]int{}, hangMs: 500, base: base}
		c := &flCtx{h: h, rec: rec, rng: rand.New(rand.NewSource(rng.Int63())), sum: sum, sh: sh, base: base, next: 1,
			pend: map[[2]int]int{}, old: old, counts: counts, stamps: map[int64]int{}}
		flSeam.mu.Lock()
		flSeam.match = string(filepath.Separator) + name + string(filepath.Separator)
		flSeam.onCreate, flSeam.onClose = c.onCreate, c.onClose
		flSeam.mu.Unlock()
		rec.Reset(trace.F{"mode": "famlife", "h": name, "scenario": scenario, "old": old})
		if scenario != "" {
			c.scripted(scenario)
		} else {
			c.randomHistory(*steps)
		}
		flSeam.mu.Lock()
		flSeam.match, flSeam.onCreate, flSeam.onClose = "", nil, nil
		flSeam.mu.Unlock()
		if c.poison {
			poisoned = true
		}
		if len(sum.Samples) < 4 {
			sum.Samples = append(sum.Samples, map[string]any{"history": name, "scenario": scenario, "old": old, "script": c.script})
		}
		return c.shared
	}
	n := 0
	extra := []string{}
	for name := range flExtra {
		extra = append(extra, name)
	}
	sort.Strings(extra)
	for _, s := range append(append([]string{}, flScenarios...), extra...) {
		if *only != "" && *only != s {
			continue
		}
		run(n, s, true)
		n++
		if s == "evict" {
			run(n, s, false) // the same steps on a young family: never evicted
			n++
		}
		if s == "stamp" {
			// until the two creations really fell into one tick (each attempt is a valid history either way)
			for k := 0; k < 40 && counts["memdbs-created-in-one-tick"] == 0; k++ {
				run(n, s, true)
				n++
			}
		}
	}
	if *only != "" && n == 0 {
		run(n, *only, true) // an exploration scenario outside the standard list
	}
	if *only == "" {
		for i := 0; i < *nh; i++ {
			run(n, "", i%5 != 4)
			n++
		}
	}
	_ = rec.Close()
	flShutdown = true
	if !poisoned {
		engine.Close()
	}
	sum.Traces, sum.Events = rec.Counts()
	sum.Distinct = sum.Traces
	sum.Extra["events_by_kind"] = counts
	sum.Print()
	return 0
}
