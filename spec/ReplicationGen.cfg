CONSTANTS
  FixLostTail = FALSE
  MismatchResync = TRUE
  MaxMsgs = 10
  MaxFaults = 5
  TailLoss = FALSE
  AppendOnlyWhenAligned = FALSE
SPECIFICATION GSpec
CHECK_DEADLOCK FALSE
