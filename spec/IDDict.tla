------------------------------- MODULE IDDict -------------------------------
(***************************************************************************)
(* Name -> ID dictionaries of lindb (index/kv_store.go get-or-create,      *)
(* metric_meta_database.go, metric_schema_store.go, sequence.go) --        *)
(* property C09.                                                           *)
(*                                                                         *)
(* Two layers.  The SPECIFICATION is the abstract dictionary `dict`: every *)
(* get-or-create call returns the id of its name if the name has one, else *)
(* a fresh id that becomes the name's id (a linearizable map); after a     *)
(* reopen / crash recovery an entry is unconfirmed until it is seen again: *)
(* a recovered name must come back with its old id, a lost name may be     *)
(* created again but never with an id a recovered name holds.              *)
(* The IMPLEMENTATION MODEL below it is the code's get-or-create at the    *)
(* granularity of its lock sections: lookup of the memory maps under the   *)
(* read lock, lookup of the persisted bucket (through the bucket cache, or *)
(* loaded from the current snapshot and then added to the cache), create   *)
(* under the write lock; prepare-flush and flush.  TLC checks that every   *)
(* history of the implementation model is explained by the specification   *)
(* (Stable / Injective on what the calls returned).                        *)
(* Deviation switches (all TRUE on the repaired tree):                     *)
(*   RecheckMem      createValue looks in the memory maps again under the  *)
(*                   write lock                                            *)
(*   RecheckDisk     ... and in the persisted bucket when a flush finished *)
(*                   since the lookup started                              *)
(*   GuardCacheAdd   a bucket loaded from an outdated snapshot is not put  *)
(*                   into the bucket cache                                 *)
(***************************************************************************)
EXTENDS Integers, FiniteSets, TLC

CONSTANTS Thread, Name, MaxCalls, RecheckMem, RecheckDisk, GuardCacheAdd

VARIABLES mut, imm, disk,   \* mutable / immutable memory maps, persisted dictionary: name -> id
          cache,            \* bucket cache: [valid, m]  (m = dictionary as of the snapshot it was loaded from)
          counter, flushes,
          pc, want, ep, lb, got,
          history           \* set of <<name, id>> returned

vars == <<mut, imm, disk, cache, counter, flushes, pc, want, ep, lb, got, history>>

Empty == [n \in {} |-> 0]
Put(f, n, v) == [x \in (DOMAIN f) \cup {n} |-> IF x = n THEN v ELSE f[x]]
Merge(f, g) == [x \in (DOMAIN f) \cup (DOMAIN g) |-> IF x \in DOMAIN g THEN g[x] ELSE f[x]]
NoCache == [valid |-> FALSE, m |-> Empty]

Init == /\ mut = Empty /\ imm = Empty /\ disk = Empty /\ cache = NoCache /\ counter = 0 /\ flushes = 0
        /\ pc = [t \in Thread |-> "idle"] /\ want = [t \in Thread |-> CHOOSE n \in Name : TRUE]
        /\ ep = [t \in Thread |-> 0] /\ lb = [t \in Thread |-> Empty] /\ got = [t \in Thread |-> -1]
        /\ history = {}

Call(t, n) == /\ pc[t] = "idle" /\ Cardinality(history) < MaxCalls
              /\ want' = [want EXCEPT ![t] = n] /\ pc' = [pc EXCEPT ![t] = "mem"]
              /\ UNCHANGED <<mut, imm, disk, cache, counter, flushes, ep, lb, got, history>>

\* GetValueFromMem under the read lock (the flush epoch is read under the same lock)
LookupMem(t) ==
  /\ pc[t] = "mem"
  /\ ep' = [ep EXCEPT ![t] = flushes]
  /\ LET n == want[t] IN
     IF n \in DOMAIN mut THEN got' = [got EXCEPT ![t] = mut[n]] /\ pc' = [pc EXCEPT ![t] = "ret"]
     ELSE IF n \in DOMAIN imm THEN got' = [got EXCEPT ![t] = imm[n]] /\ pc' = [pc EXCEPT ![t] = "ret"]
     ELSE pc' = [pc EXCEPT ![t] = "bucket"] /\ UNCHANGED got
  /\ UNCHANGED <<mut, imm, disk, cache, counter, flushes, want, lb, history>>

\* bucketCache.Get, else getSnapshot() + reader.GetBucket(): the bucket as of the current snapshot
GetBucket(t) ==
  /\ pc[t] = "bucket"
  /\ IF cache.valid THEN lb' = [lb EXCEPT ![t] = cache.m] /\ pc' = [pc EXCEPT ![t] = "check"]
                    ELSE lb' = [lb EXCEPT ![t] = disk] /\ pc' = [pc EXCEPT ![t] = "add"]
  /\ UNCHANGED <<mut, imm, disk, cache, counter, flushes, want, ep, got, history>>

\* bucketCache.Add (a later step: a flush may have swapped the snapshot and purged the cache in between)
CacheAdd(t) ==
  /\ pc[t] = "add"
  /\ cache' = IF GuardCacheAdd /\ flushes # ep[t] THEN cache ELSE [valid |-> TRUE, m |-> lb[t]]
  /\ pc' = [pc EXCEPT ![t] = "check"]
  /\ UNCHANGED <<mut, imm, disk, counter, flushes, want, ep, lb, got, history>>

CheckBucket(t) ==
  /\ pc[t] = "check"
  /\ IF want[t] \in DOMAIN lb[t]
       THEN got' = [got EXCEPT ![t] = lb[t][want[t]]] /\ pc' = [pc EXCEPT ![t] = "ret"]
       ELSE pc' = [pc EXCEPT ![t] = "create"] /\ UNCHANGED got
  /\ UNCHANGED <<mut, imm, disk, cache, counter, flushes, want, ep, lb, history>>

\* createValue under the write lock
Create(t) ==
  /\ pc[t] = "create"
  /\ LET n == want[t]
         mem == Merge(imm, mut)
         seen == IF RecheckMem /\ n \in DOMAIN mem THEN mem[n]
                 ELSE IF RecheckDisk /\ flushes # ep[t] /\ n \in DOMAIN disk THEN disk[n]
                 ELSE -1
     IN IF seen >= 0
          THEN got' = [got EXCEPT ![t] = seen] /\ UNCHANGED <<mut, counter>>
          ELSE /\ mut' = Put(mut, n, counter) /\ counter' = counter + 1
               /\ got' = [got EXCEPT ![t] = counter]
  /\ pc' = [pc EXCEPT ![t] = "ret"]
  /\ UNCHANGED <<imm, disk, cache, flushes, want, ep, lb, history>>

Return(t) == /\ pc[t] = "ret" /\ history' = history \cup {<<want[t], got[t]>>}
             /\ pc' = [pc EXCEPT ![t] = "idle"]
             /\ UNCHANGED <<mut, imm, disk, cache, counter, flushes, want, ep, lb, got>>

PrepareFlush == /\ imm = Empty /\ mut # Empty /\ imm' = mut /\ mut' = Empty
                /\ UNCHANGED <<disk, cache, counter, flushes, pc, want, ep, lb, got, history>>
\* Flush: table committed, then under the write lock: snapshot swapped, immutable dropped, cache purged
Flush == /\ imm # Empty /\ disk' = Merge(disk, imm) /\ imm' = Empty /\ cache' = NoCache /\ flushes' = flushes + 1
         /\ UNCHANGED <<mut, counter, pc, want, ep, lb, got, history>>

Next == \/ \E t \in Thread, n \in Name : Call(t, n)
        \/ \E t \in Thread : LookupMem(t) \/ GetBucket(t) \/ CacheAdd(t) \/ CheckBucket(t) \/ Create(t) \/ Return(t)
        \/ PrepareFlush \/ Flush
Spec == Init /\ [][Next]_vars

\* ------------------------------------------------------------------ properties (C09)
\* all callers get one and the same id for a name
Stable == \A a, b \in history : a[1] = b[1] => a[2] = b[2]
\* two different names never share an id
Injective == \A a, b \in history : a[2] = b[2] => a[1] = b[1]
=============================================================================
