"""C08 -- Replication: a follower's log is a gap-free, byte-identical copy of the leader's (module Replication)."""
import json
import os

import vcore


def describe(sig, lines, rel, info):
    tail = False
    for ln in lines[:rel]:
        if '"ev":"LeaderLoseTail"' in ln:
            tail = True
            break
    return "%s:%s" % (sig, "tailloss" if tail else "notailloss")


def run(ctx, replay):
    if replay:
        ok, info = ctx.validate_trace("ReplicationTrace", "ReplicationTrace.cfg", replay, dfs=False)
        if not ok:
            ctx.violation("Replication:replay", "replayed trace rejected: %s" % info, replay_src=replay)
        return
    thorough = ctx.tier == "thorough"
    # M: the transcribed protocol under every placement of the faults (no leader tail loss): safety + resync
    ctx.model_check("MCReplication", "MCReplication_thorough.cfg" if thorough else "MCReplication.cfg", timeout=1800)
    # the known findings are re-confirmed in the model: with leader tail loss the protocol violates the property
    ctx.model_check("MCReplication", "MCReplication_tail.cfg", expect="violation", timeout=600)
    # before the repair 00fe1c5: an answer whose ack index differs from the sent index (follower write failure) left the
    # channel ready: the follower silently lacks a position below the cursor and never catches up without another fault
    ctx.model_check("MCReplication", "MCReplication_dev_noresync.cfg", expect="violation", timeout=600)
    # M, unbounded in the number of steps, faults and payload ids (logs of up to 8 positions): an inductive invariant of
    # the protocol without leader tail loss, discharged by Apalache -- Init => IndInv, IndInv /\ Next => IndInv',
    # IndInv => the four safety properties; the invariant has models with a healthy channel and non-empty logs
    # (NotVacuous must be violated) and the code before the repair 00fe1c5 (no resync after a mismatching answer) does
    # NOT preserve it
    ctx.apalache("ReplicationInd", "Init", "IndInv", 0)
    ctx.apalache("ReplicationInd", "IndInit", "IndInv", 1)
    ctx.apalache("ReplicationInd", "IndInit", "Safety", 0)
    ctx.apalache("ReplicationInd", "IndInit", "NotVacuous", 0, expect="violation")
    ctx.apalache("ReplicationInd", "IndInit", "IndInv", 1, cinit="CInitNoResync", expect="violation")
    tr = os.path.join(ctx.scratch, "repl.ndjson")
    scr = os.path.join(ctx.scratch, "scr-repl")
    os.makedirs(scr, exist_ok=True)
    nh, nt, steps = (600, 300, 100) if thorough else (80, 60, 70)
    summ, rc, _ = ctx.run_vdrive(["repl", "--seed", ctx.seed, "--histories", nh, "--tailloss", nt, "--steps", steps, "--underround", 12 if thorough else 3,
                                  "--out", tr, "--scratch", scr], timeout=3000)
    for u in summ["unresolved"]:
        raise vcore.Unresolved("repl driver: %s" % u)
    for s in summ["samples"][:3]:
        ctx.sample(s)
    ctx.extra["events"] = summ["events"]
    ctx.extra["histories_without_tail_loss"] = nh
    ctx.extra["histories_with_tail_loss"] = nt
    # pass 1 -- conformance: every recorded step is a step of the transcribed protocol (a history is examined to
    # its end even when it contains the tail-loss known findings, so they cannot mask a later deviation)
    vcore.validate_all(ctx, "ReplicationTrace", "ReplicationTrace_conf.cfg", tr, describe=describe, dfs=False,
                       max_rejections=nt + 8)
    # pass 2 -- the properties on every state of the conforming histories
    vcore.validate_all(ctx, "ReplicationTrace", "ReplicationTrace.cfg", ctx.accepted_path, describe=describe, dfs=False,
                       max_rejections=nt + 8)

    # leg R -- behaviours chosen by TLC from the model (ReplicationGen: fault placements are the model's, not the
    # driver's random generator's) are executed step by step against the real code; the recorded projections are
    # validated like every other trace, i.e. the real state must be the state the model predicts after every step
    ng, ngt, depth = (1500, 800, 60) if thorough else (250, 150, 45)
    gen = ctx.generate_behaviours("ReplicationGen", "ReplicationGen.cfg", ng, depth) + \
        ctx.generate_behaviours("ReplicationGen", "ReplicationGen_tail.cfg", ngt, depth, seed_shift=1)
    gpath = os.path.join(ctx.scratch, "repl-gen.json")
    with open(gpath, "w") as f:
        json.dump(gen, f)
    trg = os.path.join(ctx.scratch, "repl-gen.ndjson")
    summ, rc, _ = ctx.run_vdrive(["repl", "--scripts", gpath, "--out", trg, "--scratch", scr], timeout=3000)
    for u in summ["unresolved"]:
        raise vcore.Unresolved("repl driver (generated behaviours): %s" % u)
    ctx.extra["generated_behaviours_replayed"] = len(gen)
    ctx.extra["events_generated_behaviours"] = summ["events"]
    vcore.validate_all(ctx, "ReplicationTrace", "ReplicationTrace_conf.cfg", trg, describe=describe, dfs=False,
                       max_rejections=ngt + 8)
    vcore.validate_all(ctx, "ReplicationTrace", "ReplicationTrace.cfg", ctx.accepted_path, describe=describe, dfs=False,
                       max_rejections=ngt + 8)

    def wrong_follower_byte(lines):
        for i, ln in enumerate(lines):
            if '"ev":"Proj"' in ln and '"flive":[' in ln and '"flive":[]' not in ln:
                d = json.loads(ln)
                d["flive"][0] = d["flive"][0] + 1
                out = list(lines)
                out[i] = json.dumps(d, separators=(",", ":")) + "\n"
                return out
        return None

    def ack_ahead(lines):
        for i, ln in enumerate(lines):
            if '"ev":"Proj"' in ln and '"st":"ready"' in ln:
                d = json.loads(ln)
                d["gack"] = d["gack"] + 1
                out = list(lines)
                out[i] = json.dumps(d, separators=(",", ":")) + "\n"
                return out
        return None
    clean = os.path.join(ctx.scratch, "repl-clean.ndjson")
    with open(clean, "w") as f:
        for t in vcore.split_traces(vcore.read_lines(tr))[:5]:
            f.write("".join(t))
    vcore.corrupt_selftest(ctx, "ReplicationTrace", "ReplicationTrace.cfg", clean, wrong_follower_byte, "a follower position holds other bytes")
    vcore.corrupt_selftest(ctx, "ReplicationTrace", "ReplicationTrace.cfg", clean, ack_ahead, "leader acknowledged position +1")
    ctx.assumptions += [
        "leader and follower are real Partitions over real FanOutQueues in one process; the transport is an in-process ReplicaServiceClient whose three RPC bodies are those of app/storage/rpc/replica.go",
        "IsReady() && Connect() is one step (there is no seam between them); offline/online notifications are not driven (the follower is always reported live)",
    ]
