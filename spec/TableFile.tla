----------------------------- MODULE TableFile -----------------------------
(* C15 -- table files and merged iteration return exactly what was added.     *)
(*                                                                           *)
(* The REFERENCE: a table is a finite map from keys to values, built from the *)
(* strictly ascending subsequence of the keys offered to the builder (a key   *)
(* that is not above the last accepted one is ignored and changes nothing);   *)
(* a reader answers that map; a merged iterator answers the key-sorted        *)
(* multiset union of its inputs; a version answers, for a key, the files      *)
(* whose key range holds it and the values of every file that has it -- in    *)
(* EVERY level: the files of a level above 0 may overlap (a level-0 compaction *)
(* takes only the level-1 files that overlap one of its level-0 inputs, so its *)
(* output can enclose a level-1 file that was left alone; an edit log installs *)
(* any file at any level).                                                    *)
(* Keys are pairs <<high 16 bits, low 16 bits>> (TLC integers are 32-bit),    *)
(* values are interned byte strings (equal bytes <=> equal id) with a length. *)
(* Every action takes the outputs observed on the real code as parameters and *)
(* is enabled only if they equal the reference.  MCTableFile.tla model-checks *)
(* a transcription of the mechanisms (offset table + rank lookup, stream      *)
(* writer, priority-queue merge, min/max file selection) against it;          *)
(* TableFileTrace.tla judges recorded runs of the real code.                  *)
(*                                                                           *)
(* Code: kv/table/{builder,reader,iterator}.go, kv/version/{snapshot,version, *)
(* file_meta}.go, pkg/encoding/fixed_offset.go                                *)
EXTENDS Integers, Sequences, SequencesExt, FiniteSets, TLC

VARIABLES
  bld,   \* table id -> builder: accepted keys / values so far, bytes written, open
  tab,   \* table id -> closed table: ascending keys ks, their values vs
  ver,   \* file number -> file of the version under test: ks, vs, lvl (its level)
  big    \* table id -> big table described by its size, value palette and sampled keys
vars == <<bld, tab, ver, big>>

Put(f, k, v) == (k :> v) @@ f
KLess(a, b) == a[1] < b[1] \/ (a[1] = b[1] /\ a[2] < b[2])
KLeq(a, b) == a = b \/ KLess(a, b)
Zero == <<0, 0>>
\* (set forms instead of \A where the formula sits in an action: TLC unfolds such a \A recursively)
Ascending(ks) == {i \in 1..(Len(ks) - 1) : ~KLess(ks[i], ks[i + 1])} = {}
NonDescending(ks) == {i \in 1..(Len(ks) - 1) : KLess(ks[i + 1], ks[i])} = {}

Init == bld = <<>> /\ tab = <<>> /\ ver = <<>> /\ big = <<>>

-----------------------------------------------------------------------------
(* Builder: Add(key, value) and StreamWriter Prepare(key) / Write.. / Commit  *)
NewBuilder == [ks |-> <<>>, vs |-> <<>>, size |-> 0, open |-> TRUE]
Accepts(b, k) == b.ks = <<>> \/ KLess(Last(b.ks), k)
Offer(b, k, v, len) ==
  IF Accepts(b, k) THEN [b EXCEPT !.ks = Append(@, k), !.vs = Append(@, v), !.size = @ + len] ELSE b
\* MinKey(), MaxKey(), Count(), Size() of the builder
Proj(b) == [min |-> IF b.ks = <<>> THEN Zero ELSE b.ks[1],
            max |-> IF b.ks = <<>> THEN Zero ELSE Last(b.ks),
            count |-> Len(b.ks), size |-> b.size]

Create(t) ==
  /\ t \notin DOMAIN bld
  /\ bld' = Put(bld, t, NewBuilder) /\ UNCHANGED <<tab, ver, big>>
\* via = "add": Add(k, value v of len bytes);  via = "stream": Prepare(k), Write(parts of v).., Commit
\* (Commit possibly repeated); ssize = the stream writer's Size() before Commit; proj afterwards
Offered(t, k, v, len, via, ssize, proj) ==
  /\ t \in DOMAIN bld /\ bld[t].open
  /\ LET b == Offer(bld[t], k, v, len) IN
       /\ proj = Proj(b)
       /\ via = "stream" => ssize = (IF Accepts(bld[t], k) THEN len ELSE 0)
       /\ bld' = [bld EXCEPT ![t] = b]
  /\ UNCHANGED <<tab, ver, big>>
\* Close(): an error exactly when nothing was accepted; otherwise the table exists
Close(t, err) ==
  /\ t \in DOMAIN bld /\ bld[t].open
  /\ err = (bld[t].ks = <<>>)
  /\ bld' = [bld EXCEPT ![t].open = FALSE]
  /\ tab' = IF err THEN tab ELSE Put(tab, t, [ks |-> bld[t].ks, vs |-> bld[t].vs])
  /\ UNCHANGED <<ver, big>>

-----------------------------------------------------------------------------
(* Reader *)
Open(t, err) == err = (t \notin DOMAIN tab) /\ UNCHANGED vars
Where(T, k) == {i \in DOMAIN T.ks : T.ks[i] = k}
Get(t, k, found, v) ==
  /\ t \in DOMAIN tab
  /\ LET I == Where(tab[t], k) IN
       /\ found = (I # {})
       /\ found => v = tab[t].vs[CHOOSE i \in I : TRUE]
  /\ UNCHANGED vars
Iterate(t, ks, vs) ==
  /\ t \in DOMAIN tab /\ ks = tab[t].ks /\ vs = tab[t].vs
  /\ UNCHANGED vars

(* Merged iterator over the iterators of the tables ts (a table may occur twice) *)
Entries(T) == [i \in 1..Len(T.ks) |-> <<T.ks[i], T.vs[i]>>]
EntryLess(a, b) == KLess(a[1], b[1]) \/ (a[1] = b[1] /\ a[2] < b[2])
Union(Ts) == FoldLeft(LAMBDA acc, T : acc \o Entries(T), <<>>, Ts)
\* out is a merge of Ts: ordered by key, and as a multiset exactly the entries of all inputs
IsMergeOf(ks, vs, Ts) ==
  /\ Len(ks) = Len(vs)
  /\ NonDescending(ks)
  /\ SortSeq([i \in 1..Len(ks) |-> <<ks[i], vs[i]>>], EntryLess) = SortSeq(Union(Ts), EntryLess)
Merged(ts, ks, vs) ==
  /\ {ts[i] : i \in DOMAIN ts} \subseteq DOMAIN tab
  /\ IsMergeOf(ks, vs, [i \in 1..Len(ts) |-> tab[ts[i]]])
  /\ UNCHANGED vars

-----------------------------------------------------------------------------
(* A version (family of a kv store): every flush adds one file to level 0;     *)
(* puts = the <<key, value, length>> triples offered to the flusher in order   *)
FileOf(puts) ==
  LET b == FoldLeft(LAMBDA acc, p : Offer(acc, p[1], p[2], p[3]), NewBuilder, puts) IN [ks |-> b.ks, vs |-> b.vs]
\* the new file f of the version carries min / max in its metadata
Flushed(f, puts, min, max) ==
  /\ f \notin DOMAIN ver
  /\ LET F == FileOf(puts) IN
       /\ F.ks # <<>> /\ min = F.ks[1] /\ max = Last(F.ks)
       /\ ver' = Put(ver, f, [ks |-> F.ks, vs |-> F.vs, lvl |-> 0])
  /\ UNCHANGED <<bld, tab, big>>
Covers(f, k) == KLeq(ver[f].ks[1], k) /\ KLeq(k, Last(ver[f].ks))
\* FindFiles(k) / FindReaders(k): exactly the files whose key range holds k, each once
Found(k, fs) ==
  /\ {fs[i] : i \in DOMAIN fs} = {f \in DOMAIN ver : Covers(f, k)}
  /\ Len(fs) = Cardinality({fs[i] : i \in DOMAIN fs})
  /\ UNCHANGED vars
\* Load(k): the loader saw the values vs (in any order): one per file that has the key
Holding(k) == {f \in DOMAIN ver : Where(ver[f], k) # {}}
ValueIn(f, k) == ver[f].vs[CHOOSE i \in Where(ver[f], k) : TRUE]
\* (compared as multisets; a value is an interned id or, in histories with compactions, a sequence of atoms)
SameBag(a, b) ==
  /\ Len(a) = Len(b)
  /\ {x \in ToSet(a) \cup ToSet(b) :
        Cardinality({i \in DOMAIN a : a[i] = x}) # Cardinality({i \in DOMAIN b : b[i] = x})} = {}
Loaded(k, vs) ==
  /\ LET hs == SetToSeq(Holding(k)) IN SameBag(vs, [i \in 1..Len(hs) |-> ValueIn(hs[i], k)])
  /\ UNCHANGED vars
\* the file selection can never hide a value: a file that has the key covers it
SelectionComplete == \A f \in DOMAIN ver : \A i \in DOMAIN ver[f].ks : Covers(f, ver[f].ks[i])

-----------------------------------------------------------------------------
(* Levels.  An edit log installs a closed table as file f of level lvl (what a *)
(* compaction / rollup commit does) or removes a file; the level-0 compaction  *)
(* (version.go PickL0Compaction + compact_job.go) takes ALL level-0 files and   *)
(* the level-1 files whose range overlaps the range of ONE of them -- not the   *)
(* hull of the level-0 ranges -- merges them key by key with the family's       *)
(* merger and installs the outputs in level 1.  So level 1 is NOT a partition   *)
(* of the key space: Found / Loaded above quantify over the files of all levels.*)
Level(n) == {f \in DOMAIN ver : ver[f].lvl = n}
MinK(f) == ver[f].ks[1]
MaxK(f) == Last(ver[f].ks)
Installed(f, t, lvl, min, max) ==
  /\ f \notin DOMAIN ver /\ t \in DOMAIN tab /\ lvl >= 0
  /\ min = tab[t].ks[1] /\ max = Last(tab[t].ks)
  /\ ver' = Put(ver, f, [ks |-> tab[t].ks, vs |-> tab[t].vs, lvl |-> lvl])
  /\ UNCHANGED <<bld, tab, big>>
Removed(f) ==
  /\ f \in DOMAIN ver
  /\ ver' = [g \in DOMAIN ver \ {f} |-> ver[g]]
  /\ UNCHANGED <<bld, tab, big>>
\* GetFiles(level) of every level: the files <<f, level>> of the version, each once
Listed(fl) ==
  /\ ToSet(fl) = {<<f, ver[f].lvl>> : f \in DOMAIN ver} /\ Len(fl) = Cardinality(DOMAIN ver)
  /\ UNCHANGED vars

Overlap(f, g) == ~KLess(MaxK(g), MinK(f)) /\ ~KLess(MaxK(f), MinK(g))
Picked == Level(0) \cup {g \in Level(1) : \E f \in Level(0) : Overlap(f, g)}
\* The merger is the caller's.  In the histories with compactions a value is an ascending sequence of
\* atoms and the merger answers the ascending union of the atoms of its inputs.
UnionMerge(vals) == SortSeq(SetToSeq(UNION {ToSet(v) : v \in vals}), <)
MergedTable(fs) ==
  LET ks == SortSeq(SetToSeq(UNION {ToSet(ver[f].ks) : f \in fs}), KLess) IN
  [ks |-> ks,
   vs |-> [i \in 1..Len(ks) |-> UnionMerge({ValueIn(f, ks[i]) : f \in {g \in fs : Where(ver[g], ks[i]) # {}}})]]
\* the part of table M between two keys (the outputs of one compaction are cut by size: consecutive parts)
Part(M, lo, hi) ==
  LET E == SelectSeq([i \in 1..Len(M.ks) |-> <<M.ks[i], M.vs[i]>>], LAMBDA e : KLeq(lo, e[1]) /\ KLeq(e[1], hi)) IN
  [ks |-> [i \in 1..Len(E) |-> E[i][1]], vs |-> [i \in 1..Len(E) |-> E[i][2]]]
\* ins = the files that left the version, outs = the files that entered it, in file-number order,
\* as [f, lvl, min, max] (metadata of the new version)
Compacted(ins, outs) ==
  /\ Level(0) # {} /\ ins = Picked /\ outs # <<>>
  /\ LET M == MergedTable(Picked)
         J == DOMAIN outs
         Fs == {outs[j].f : j \in J} IN
       /\ Cardinality(Fs) = Len(outs) /\ Fs \cap DOMAIN ver = {}
       /\ {j \in J : ~(/\ outs[j].lvl = 1
                        /\ outs[j].min \in ToSet(M.ks) /\ outs[j].max \in ToSet(M.ks)
                        /\ KLeq(outs[j].min, outs[j].max))} = {}
       /\ {j \in J : j + 1 \in J /\ ~KLess(outs[j].max, outs[j + 1].min)} = {}
       /\ {i \in DOMAIN M.ks : {j \in J : KLeq(outs[j].min, M.ks[i]) /\ KLeq(M.ks[i], outs[j].max)} = {}} = {}
       /\ ver' = [f \in (DOMAIN ver \ Picked) \cup Fs |->
                    IF f \in Fs
                    THEN LET j == CHOOSE j \in J : outs[j].f = f
                             P == Part(M, outs[j].min, outs[j].max)
                         IN [ks |-> P.ks, vs |-> P.vs, lvl |-> 1]
                    ELSE ver[f]]
  /\ UNCHANGED <<bld, tab, big>>
\* a single level-0 file that overlaps nothing in level 1 is moved, not rewritten
Moved(f) ==
  /\ Level(0) = {f} /\ Picked = {f}
  /\ ver' = [ver EXCEPT ![f].lvl = 1]
  /\ UNCHANGED <<bld, tab, big>>

-----------------------------------------------------------------------------
(* Big tables (10^5 keys): the i-th key (0-based, ascending) carries a value   *)
(* made of i itself and the palette entry i mod |pal|; TLC sees the size, the  *)
(* palette and a sample <<i, key>> of the keys, and judges sampled reads.      *)
PalOf(B, i) == B.pal[(i % Len(B.pal)) + 1]
KeyKnown(B, i, k) == {j \in DOMAIN B.samp : B.samp[j][1] = i /\ <<B.samp[j][2], B.samp[j][3]>> # k} = {}
BigBuilt(t, n, pal, samp, proj) ==
  /\ t \notin DOMAIN big /\ n > 0 /\ pal # <<>>
  /\ Ascending([j \in 1..Len(samp) |-> <<samp[j][2], samp[j][3]>>])
  /\ samp[1][1] = 0 /\ samp[Len(samp)][1] = n - 1
  /\ proj.count = n /\ proj.min = <<samp[1][2], samp[1][3]>> /\ proj.max = <<Last(samp)[2], Last(samp)[3]>>
  /\ big' = Put(big, t, [n |-> n, pal |-> pal, samp |-> samp])
  /\ UNCHANGED <<bld, tab, ver>>
\* Get of the i-th key: found, the value says "i" (vi) and carries the palette bytes (vp)
BigGet(t, i, k, found, vi, vp) ==
  /\ t \in DOMAIN big /\ i \in 0..(big[t].n - 1) /\ KeyKnown(big[t], i, k)
  /\ found /\ vi = i /\ vp = PalOf(big[t], i)
  /\ UNCHANGED vars
\* Get of a key that was never added (chosen between two neighbours / outside the range)
BigAbsent(t, found) == t \in DOMAIN big /\ ~found /\ UNCHANGED vars
\* a full iteration: count entries; rows = sampled <<position, key hi, key lo, vi, vp>>
BigIterated(t, count, rows) ==
  /\ t \in DOMAIN big /\ count = big[t].n
  /\ {j \in DOMAIN rows : ~(/\ rows[j][4] = rows[j][1]
                            /\ rows[j][5] = PalOf(big[t], rows[j][1])
                            /\ KeyKnown(big[t], rows[j][1], <<rows[j][2], rows[j][3]>>))} = {}
  /\ Ascending([j \in 1..Len(rows) |-> <<rows[j][2], rows[j][3]>>])
  /\ UNCHANGED vars

Next == FALSE   \* driven by MCTableFile / TableFileTrace
=============================================================================
