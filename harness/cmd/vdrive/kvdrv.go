package main

import (
	"flag"
	"fmt"
	"math/rand"
	"os"
	"path/filepath"
	"runtime/debug"
	"sort"
	"sync"
	"sync/atomic"

	"github.com/lindb/lindb/kv"
	"github.com/lindb/lindb/pkg/timeutil"

	"verif/harness/internal/kvwrap"
	"verif/harness/internal/trace"
)

func init() { register("kv", kvMain) }

const unionMerger = "verif_union"

var regMergerOnce sync.Once

// unionMergerImpl merges the values of one key into the sorted union of their atoms.
type unionMergerImpl struct{ flusher kv.Flusher }

func (m *unionMergerImpl) Init(map[string]interface{}) {}
func (m *unionMergerImpl) Merge(key uint32, values [][]byte) (err error) {
	// the values are slices of memory-mapped tables: a fault while they are read (the table's file was truncated or
	// unmapped under the compaction: what reusing the number of a live table does) makes the merge fail -- the job
	// reports the error and the history records it -- instead of killing the process inside the merger
	old := debug.SetPanicOnFault(true)
	defer func() {
		debug.SetPanicOnFault(old)
		if p := recover(); p != nil {
			err = fmt.Errorf("fault while reading the values of key %d: %v", key, p)
			unionMergerFaults.Add(1)
		}
	}()
	var atoms []uint32
	for _, v := range values {
		atoms = append(atoms, kvwrap.DecodeAtoms(v)...)
	}
	return m.flusher.Add(key, kvwrap.EncodeAtoms(atoms))
}

// unionMergerFaults counts the merges that faulted (drivers turn a non-zero count into an Error event)
var unionMergerFaults atomic.Int64

func registerUnionMerger() {
	regMergerOnce.Do(func() {
		kv.RegisterMerger(unionMerger, func(f kv.Flusher) (kv.Merger, error) { return &unionMergerImpl{flusher: f}, nil })
	})
}

const kvKeyUniverse = 6

type kvRun struct {
	w       *kvwrap.World
	rec     *trace.Recorder
	path    string
	store   kv.Store
	opt     kv.StoreOption
	rng     *rand.Rand
	atom    uint32
	seq     int64
	lines   [][]byte
	points  []kvPoint
	image   bool
	imgRoot string
	famOpt  map[string]kv.FamilyOption
}

type kvPoint struct {
	dir   string
	lineN int
	nop   int
}

func kvProj(store kv.Store, w *kvwrap.World) trace.F {
	names := store.ListFamilyNames()
	sort.Strings(names)
	fams := []any{}
	w.LoadOptions(store.Path())
	for _, n := range names {
		f := store.GetFamily(n)
		snap := f.GetSnapshot()
		v := snap.GetCurrent()
		files := [][]int64{}
		for lvl := 0; lvl < store.Option().Levels; lvl++ {
			for _, fm := range v.GetFiles(lvl) {
				files = append(files, []int64{int64(lvl), fm.GetFileNumber().Int64()})
			}
		}
		seq := int64(-1)
		if s, ok := v.GetSequences()[1]; ok {
			seq = s
		}
		marks := []any{}
		for file, ivs := range v.GetRollupFiles() {
			for _, iv := range ivs {
				marks = append(marks, []any{"r", file.Int64(), int64(iv)})
			}
		}
		for st, fm := range v.GetAllReferenceFiles() {
			for fid, fl := range fm {
				for _, x := range fl {
					marks = append(marks, []any{"ref", st, int(fid), x.Int64()})
				}
			}
		}
		content := [][]int64{}
		loadErr := ""
		for k := uint32(0); k < kvKeyUniverse; k++ {
			seen := map[uint32]bool{}
			err := func() (err error) {
				// a memory fault while a table is read (its file truncated or unmapped under the reader: what reusing the
				// number of a live table does) is an observation about the code under test, not a failure of the harness
				old := debug.SetPanicOnFault(true)
				defer func() {
					debug.SetPanicOnFault(old)
					if p := recover(); p != nil {
						err = fmt.Errorf("fault while reading key %d: %v", k, p)
					}
				}()
				return snap.Load(k, func(val []byte) error {
					for _, a := range kvwrap.DecodeAtoms(val) {
						if !seen[a] {
							seen[a] = true
							content = append(content, []int64{int64(k), int64(a)})
						}
					}
					return nil
				})
			}()
			if err != nil {
				loadErr = err.Error()
			}
		}
		snap.Close()
		e := trace.F{"id": int(f.ID()), "files": files, "seq": seq, "marks": marks, "content": content}
		if loadErr != "" {
			e["loaderr"] = loadErr
		}
		fams = append(fams, e)
	}
	return trace.F{"fams": fams}
}

func (r *kvRun) open() error {
	r.rec.Emit("OpenBegin", trace.F{})
	s, err := kv.GetStoreManager().CreateStore(r.path, r.opt)
	if err != nil {
		r.rec.Emit("OpenFailed", trace.F{"err": err.Error()})
		return err
	}
	r.store = s
	r.rec.Emit("OpenEnd", trace.F{"proj": kvProj(s, r.w)})
	return nil
}

func (r *kvRun) closeStore() {
	_ = kv.GetStoreManager().CloseStore(r.path)
	r.store = nil
}

func (r *kvRun) flush(name string, nkeys int, withSeq bool) {
	f := r.store.GetFamily(name)
	if f == nil {
		return
	}
	fl := f.NewFlusher()
	keys := r.rng.Perm(kvKeyUniverse)[:nkeys]
	sort.Ints(keys)
	for _, k := range keys {
		r.atom++
		if err := fl.Add(uint32(k), kvwrap.EncodeAtoms([]uint32{r.atom})); err != nil {
			r.rec.Emit("Error", trace.F{"op": "Add", "err": err.Error()})
		}
	}
	if withSeq {
		r.seq++
		fl.Sequence(1, r.seq)
	}
	if err := fl.Commit(); err != nil {
		r.rec.Emit("Error", trace.F{"op": "Commit", "err": err.Error()})
	}
	fl.Release()
	r.rec.Emit("WriterDone", trace.F{"fam": int(f.ID()), "nums": r.w.TakeAllocs(r.w.Thread())})
	r.rec.Emit("Proj", trace.F{"proj": kvProj(r.store, r.w)})
}

func (r *kvRun) compact(name string) {
	f := r.store.GetFamily(name)
	if f == nil {
		return
	}
	snap := f.GetSnapshot()
	n0 := snap.GetCurrent().NumberOfFilesInLevel(0)
	snap.Close()
	if n0 > 1 {
		f.Compact()
	} else if n0 == 1 && len(r.opt.Rollup) == 0 && r.famOpt[name].CompactThreshold == 1 && !r.image {
		// (not in histories whose every file-system operation is imaged: the store-level check starts jobs in
		// several families at once, and a directory copy taken between a file creation of one job and its event
		// would not be an image of a recorded prefix)
		kv.VerifCompactStore(r.store)
	} else {
		return
	}
	// the store-level check may start a job in EVERY family that needs one: wait for all of them
	fams := []kv.Family{}
	for _, n := range r.store.ListFamilyNames() {
		if g := r.store.GetFamily(n); g != nil {
			kv.VerifWaitFamily(g)
			fams = append(fams, g)
		}
	}
	nums := r.w.TakeAllocs("")
	for _, g := range fams {
		r.rec.Emit("WriterDone", trace.F{"fam": int(g.ID()), "nums": nums})
	}
	if n := unionMergerFaults.Swap(0); n > 0 {
		r.rec.Emit("Error", trace.F{"op": "Compact", "err": fmt.Sprintf("%d merge(s) faulted while reading their input tables (a table file truncated or unmapped under the compaction)", n)})
	}
	r.rec.Emit("Proj", trace.F{"proj": kvProj(r.store, r.w)})
}

func (r *kvRun) createFamily(name string) {
	opt := kv.FamilyOption{Merger: unionMerger}
	if r.rng.Intn(2) == 0 {
		opt.CompactThreshold = 1
	}
	if r.rng.Intn(3) == 0 {
		opt.MaxFileSize = 8 // several output files per compaction
	}
	r.famOpt[name] = opt
	if _, err := r.store.CreateFamily(name, opt); err != nil {
		r.rec.Emit("Error", trace.F{"op": "CreateFamily", "err": err.Error()})
		return
	}
	r.rec.Emit("Proj", trace.F{"proj": kvProj(r.store, r.w)})
}

var kvFamNames = []string{"10", "11", "12"}

func (r *kvRun) randomOp() {
	names := r.store.ListFamilyNames()
	sort.Strings(names)
	c := r.rng.Intn(100)
	switch {
	case len(names) == 0 || (c < 8 && len(names) < len(kvFamNames)):
		r.createFamily(kvFamNames[len(names)])
	case c < 60:
		r.flush(names[r.rng.Intn(len(names))], 1+r.rng.Intn(3), r.rng.Intn(2) == 0)
	case c < 85:
		r.compact(names[r.rng.Intn(len(names))])
	default:
		r.rec.Emit("Crash", trace.F{"how": "close"})
		r.closeStore()
		_ = r.open()
	}
}

// recoverKVImage opens a crash image with the real code, appends one more flush and reports.
func recoverKVImage(rec *trace.Recorder, prefix [][]byte, p kvPoint, opt kv.StoreOption, reset trace.F, depth int, scratch string, nimg *int) {
	rec.Reset(reset)
	rec.Raw(prefix)
	rec.Emit("Crash", trace.F{"how": "kill", "ops": p.nop})
	w := kvwrap.NewWorld(p.dir, rec)
	defer w.Drop()
	w.LoadOptions(p.dir)
	run := &kvRun{w: w, rec: rec, path: p.dir, opt: opt, rng: rand.New(rand.NewSource(int64(p.nop))), atom: 900000 + uint32(p.nop)*10, seq: 5000, famOpt: map[string]kv.FamilyOption{}}
	// second-level images: a kill during recovery itself
	var lines [][]byte
	var pts []kvPoint
	if depth > 0 {
		lines = append(lines, prefix...)
		rec.Tap = func(b []byte) { lines = append(lines, append([]byte{}, b...)) }
		w.AfterOp = func(n int, ev string) {
			d := filepath.Join(scratch, fmt.Sprintf("img2-%d-%d", p.nop, n))
			if err := kvwrap.CopyDir(p.dir, d); err == nil {
				pts = append(pts, kvPoint{dir: d, lineN: len(lines), nop: p.nop*1000 + n})
			}
		}
		// the Crash line was written before the tap was set: add it to the prefix copy
		lines = append(lines, []byte(fmt.Sprintf(`{"ev":"Crash","how":"kill","ops":%d}`, p.nop)))
	}
	if err := run.open(); err == nil {
		names := run.store.ListFamilyNames()
		sort.Strings(names)
		if len(names) > 0 {
			run.flush(names[0], 1, true)
		}
		w.AfterOp = nil
		rec.Tap = nil
		run.closeStore()
	}
	w.AfterOp = nil
	rec.Tap = nil
	*nimg++
	for _, q := range pts {
		recoverKVImage(rec, lines[:q.lineN], q, opt, trace.F{"mode": "image2", "ops": q.nop}, 0, scratch, nimg)
		os.RemoveAll(q.dir)
	}
}

func kvMain(args []string) int {
	fs := flag.NewFlagSet("kv", flag.ExitOnError)
	out := fs.String("out", "kv.ndjson", "trace output")
	seed := fs.Int64("seed", 1, "seed")
	nh := fs.Int("histories", 10, "histories")
	nops := fs.Int("ops", 14, "operations per history")
	images := fs.Int("images", 0, "histories imaged at every file-system operation")
	double := fs.Int("double", 0, "images whose recovery is imaged again (kill during recovery)")
	scratch := fs.String("scratch", "", "scratch directory")
	_ = fs.Parse(args)
	if *scratch == "" {
		d, _ := os.MkdirTemp("", "vdrive-kv-")
		*scratch = d
		defer os.RemoveAll(d)
	}
	registerUnionMerger()
	kvwrap.Install()
	rec, err := trace.New(*out)
	if err != nil {
		fmt.Println(err)
		return 2
	}
	rng := rand.New(rand.NewSource(*seed))
	sum := &trace.Summary{Module: "KVStore", Extra: map[string]any{}}
	nimg := 0
	nopsTotal := 0
	for h := 0; h < *nh; h++ {
		root := filepath.Join(*scratch, fmt.Sprintf("h%d", h), "store")
		_ = os.MkdirAll(filepath.Dir(root), 0o755)
		w := kvwrap.NewWorld(root, rec)
		opt := kv.DefaultStoreOption()
		if rng.Intn(2) == 0 {
			opt.Rollup = []timeutil.Interval{timeutil.Interval(300000)}
			opt.Source = timeutil.Interval(10000)
		}
		run := &kvRun{w: w, rec: rec, path: root, opt: opt, rng: rand.New(rand.NewSource(rng.Int63())), image: h < *images,
			imgRoot: filepath.Join(*scratch, fmt.Sprintf("h%d", h), "img"), famOpt: map[string]kv.FamilyOption{}}
		reset := trace.F{"mode": "seq", "h": h, "rollup": len(opt.Rollup) > 0}
		rec.Reset(reset)
		rec.Tap = func(b []byte) { run.lines = append(run.lines, append([]byte{}, b...)) }
		w.AfterOp = func(n int, ev string) {
			nopsTotal++
			if run.image {
				d := filepath.Join(run.imgRoot, fmt.Sprintf("%d", n), "store")
				if err := kvwrap.CopyDir(root, d); err == nil {
					run.points = append(run.points, kvPoint{dir: d, lineN: len(run.lines), nop: n})
				}
			}
		}
		if err := run.open(); err != nil {
			sum.Unresolved = append(sum.Unresolved, "open: "+err.Error())
			continue
		}
		for i := 0; i < *nops; i++ {
			if run.store == nil {
				break
			}
			run.randomOp()
		}
		if run.store != nil {
			run.closeStore()
		}
		rec.Tap = nil
		w.AfterOp = nil
		w.Drop()
		if len(sum.Samples) < 2 && len(run.lines) > 10 {
			var smp []string
			for _, l := range run.lines[:10] {
				smp = append(smp, string(l))
			}
			sum.Samples = append(sum.Samples, smp)
		}
		for i, p := range run.points {
			depth := 0
			if i%7 == 3 && *double > 0 {
				depth = 1
				*double--
			}
			recoverKVImage(rec, run.lines[:p.lineN], p, opt, trace.F{"mode": "image", "h": h, "ops": p.nop}, depth, filepath.Join(*scratch, fmt.Sprintf("h%d", h)), &nimg)
			os.RemoveAll(filepath.Dir(p.dir))
		}
		os.RemoveAll(filepath.Join(*scratch, fmt.Sprintf("h%d", h)))
	}
	_ = rec.Close()
	sum.Traces, sum.Events = rec.Counts()
	sum.Distinct = sum.Traces
	sum.Extra["images"] = nimg
	sum.Extra["fsops"] = nopsTotal
	sum.Print()
	return 0
}
