CONSTANTS
  Node = {n1, n2}
  None = None
  K = 2
  ChCap = 2
  MaxRetry = 3
  RetryDup = FALSE
  StopDropsRetry = FALSE
  StickyNotify = FALSE
  StopChunkFirst = FALSE
  RetryOnTick = TRUE
  TimerPushUnguarded = FALSE
  CloseOnDrop = TRUE
  MaxRow = 3
  MaxFaults = 2
  MaxLeader = 1
  AllowStop = FALSE
  AllowCancel = FALSE
  AllowAbort = FALSE
  AllowTimer = TRUE
  FaultsOnlyBeforeStop = FALSE
SPECIFICATION Fair
SYMMETRY Sym
PROPERTIES EventuallyDelivered
CHECK_DEADLOCK FALSE
