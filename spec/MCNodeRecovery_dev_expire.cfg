CONSTANTS
  SeriesFirst = FALSE
  CommitSeqBeforeWrite = FALSE
  FreezeBeforeMetaFlush = FALSE
  ExpireOnConsumed = TRUE
  IgnoreOverGap = FALSE
  Writable = FALSE
  AtomicRound = FALSE
  Name = {"m1", "m2"}
  MaxEntries = 3
  MaxCrash = 2
  MaxFlush = 3
SPECIFICATION MCSpec
INVARIANTS NoLoss
CHECK_DEADLOCK FALSE
