---------------------------- MODULE MCPipeline ----------------------------
(* Bounded instance of Pipeline: every tree shape of MCTrees, every async    *)
(* flag and every outcome assignment, every interleaving.                     *)
EXTENDS Pipeline

Tree(ch) == [s \in DOMAIN ch |-> ch[s]]

\* tree shapes over up to 4 stages; "r" is the root
T1 == [r |-> << >>]
T2 == [r |-> <<"a">>, a |-> << >>]
T3 == [r |-> <<"a", "b">>, a |-> << >>, b |-> << >>]
T4 == [r |-> <<"a">>, a |-> <<"b">>, b |-> << >>]
T5 == [r |-> <<"a", "b">>, a |-> <<"c">>, b |-> << >>, c |-> << >>]
T6 == [r |-> <<"a">>, a |-> <<"b", "c">>, b |-> << >>, c |-> << >>]
T7 == [r |-> <<"a", "b", "c">>, a |-> << >>, b |-> << >>, c |-> << >>]
T8 == [r |-> <<"a">>, a |-> <<"b">>, b |-> <<"c">>, c |-> << >>]
MCTreesAll == {T1, T2, T3, T4, T5, T6, T7, T8}
MCTreesQuick == {T1, T2, T3, T4, T5}
MCTreesPair == {T2, T3}    \* one / two children finishing beside their parent
CONSTANT MCTrees

\* every stage has a plan of one node (named like the stage); plan TREES are the subject of MCPipelineTree
OnePlan(ch, oc) == [kids |-> [s \in DOMAIN ch |-> << >>],
                    out  |-> [s \in DOMAIN ch |-> IF oc[s] = "planpanic" THEN "ok" ELSE oc[s]],
                    root |-> [s \in DOMAIN ch |-> s]]

\* a panic while a stage plans / registers its next stages: at most one stage of the tree has one, either in
\* NextStages() itself (0) or in the Identifier() of its k-th next stage (k); the operators of those trees return
\* ok / err only (operator panics and plan panics are explored by the first disjunct)
NextPanicChoices(ch) ==
  {[s \in DOMAIN ch |-> IF s = p THEN k ELSE -1] : p \in DOMAIN ch, k \in 0..3} \cap
  {np \in [DOMAIN ch -> -1..3] : \A s \in DOMAIN ch : np[s] <= Len(ch[s])}
CONSTANT WithNextPanic

MCInit ==
  \/ \E ch \in MCTrees :
       \E as \in [DOMAIN ch -> BOOLEAN] :
         \E oc \in [DOMAIN ch -> {"ok", "err", "panic", "planpanic"}] :
           InitWith(ch, "r", as, [s \in DOMAIN ch |-> IF oc[s] = "planpanic" THEN "planpanic" ELSE "tree"],
                    OnePlan(ch, oc), NoNextPanic(ch))
  \/ /\ WithNextPanic
     /\ \E ch \in MCTrees :
          \E as \in [DOMAIN ch -> BOOLEAN] :
            \E oc \in [DOMAIN ch -> {"ok", "err"}] :
              \E np \in NextPanicChoices(ch) :
                InitWith(ch, "r", as, [s \in DOMAIN ch |-> "tree"], OnePlan(ch, oc), np)

MCSpec == MCInit /\ [][Next]_vars /\ WF_vars(Next)
=============================================================================
