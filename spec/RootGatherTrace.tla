-------------------------- MODULE RootGatherTrace --------------------------
(* Trace validation of the REAL root side of a metric data query (harness     *)
(* `vdrive queryroot`): query.MetricDataSearch -> real pipeline / send stages *)
(* -> real RootMetricContext <- real task manager <- scripted transport.      *)
(* The driver logs                                                            *)
(*   Reset   the points of one field (group, slot, value) as they are placed  *)
(*           on the leaves, what each leaf answers, the planned range         *)
(*   Plan    the targets the node chooser handed to the root                  *)
(*   Send    a request left for a target                                      *)
(*   AnswerBegin / AnswerEnd  the root's task context starts / has finished   *)
(*           handling the answer of a target (HandleResponse called/returned) *)
(*   Result  what MetricDataSearch returned (cells as [group, slot, value])   *)
(* Every step must be a step of RootGather (a Result the protocol does not    *)
(* enable -- e.g. before every planned target has answered -- is rejected),   *)
(* and the cells of a successful answer must be the merge, by the field       *)
(* type's aggregate, of the points of ALL leaves.                             *)
(* The two steps of a handler (AnswerCount, AnswerMerge) are not logged: they *)
(* happen somewhere between its AnswerBegin and its AnswerEnd (TInternal),    *)
(* handlers of different answers overlap in the log as they did in the run,   *)
(* a Result may be logged while a handler is between the two.  Whatever the   *)
(* interleaving was, it must be one the specification has: with ONE critical  *)
(* section per answer, an answer whose counting let the query complete is in  *)
(* the result.                                                                *)
EXTENDS RootGather, Json

Trace == ndJsonDeserialize("trace.ndjson")
VARIABLES l,
          pts,    \* [leaf -> sequence of <<group, slot, value>>]
          meta,   \* [ftype, grouped, start, end, iv]
          begun,  \* targets whose handler was entered
          ended   \* targets whose handler returned
tvars == <<vars, l, pts, meta, begun, ended>>
ASSUME TLCSet(1, 0)
Ev(e) == l <= Len(Trace) /\ Trace[l].ev = e /\ l' = l + 1
Line == Trace[l]
Holds(b) == b = TRUE
SeqSet(s) == {s[i] : i \in 1..Len(s)}

TraceInit == l = 1 /\ Init /\ pts = << >> /\ meta = << >> /\ begun = {} /\ ended = {}

TReset ==
  /\ Ev("Reset")
  /\ Holds(/\ Len(Line.leaves) = Cardinality(SeqSet(Line.leaves)) /\ Len(Line.leaves) > 0
           /\ DOMAIN Line.kinds = SeqSet(Line.leaves) /\ DOMAIN Line.pts = SeqSet(Line.leaves)
           /\ \A t \in SeqSet(Line.leaves) :
                /\ Line.kinds[t] \in Kinds
                \* a leaf answers "data" exactly if it holds points -- unless it fails
                /\ Line.kinds[t] = "data" => Len(Line.pts[t]) > 0
                /\ Line.kinds[t] \in {"empty", "notfound"} => Len(Line.pts[t]) = 0
           /\ Line.ftype \in {"sum", "min", "max"})
  /\ SetupState([t \in SeqSet(Line.leaves) |-> Line.kinds[t]])
  /\ pts' = [t \in SeqSet(Line.leaves) |-> Line.pts[t]]
  /\ meta' = [ftype |-> Line.ftype, grouped |-> Line.grouped, start |-> Line.start, end |-> Line.end, iv |-> Line.iv]
  /\ begun' = {} /\ ended' = {}

TPlan ==
  /\ Ev("Plan")
  /\ Holds(Len(Line.targets) = Cardinality(SeqSet(Line.targets)))
  /\ Plan(SeqSet(Line.targets))
  /\ UNCHANGED <<pts, meta, begun, ended>>

TSend == Ev("Send") /\ Send(Line.t) /\ UNCHANGED <<pts, meta, begun, ended>>

\* a handler is entered: the answer is one to a request that was sent, of the kind the leaf was set up to give, and
\* every answer is handled once
TAnswerBegin ==
  /\ Ev("AnswerBegin")
  /\ Holds(Line.t \in DOMAIN kinds /\ Line.kind = kinds[Line.t] /\ phase = "run" /\ Line.t \in sent \ begun)
  /\ begun' = begun \cup {Line.t}
  /\ UNCHANGED <<vars, pts, meta, ended>>

\* the steps of the handlers that are inside HandleResponse (not logged)
TInternal ==
  /\ l <= Len(Trace)
  /\ \E t \in begun \ ended : AnswerCount(t) \/ AnswerMerge(t)
  /\ UNCHANGED <<l, pts, meta, begun, ended>>

\* a handler returned: it has done both steps
TAnswerEnd ==
  /\ Ev("AnswerEnd")
  /\ Holds(Line.t \in begun \ ended /\ Line.t \in handled)
  /\ ended' = ended \cup {Line.t}
  /\ UNCHANGED <<vars, pts, meta, begun>>

\* ------------------------------------------------------------------ the merge of the answers of the leaves M
Idx(M) == UNION {{<<t, i>> : i \in 1..Len(pts[t])} : t \in M}
P(x) == pts[x[1]][x[2]]
RECURSIVE SumOver(_)
SumOver(S) == IF S = {} THEN 0 ELSE LET x == CHOOSE y \in S : TRUE IN P(x)[3] + SumOver(S \ {x})
Agg(S) == CASE meta.ftype = "sum" -> SumOver(S)
            [] meta.ftype = "min" -> P(CHOOSE x \in S : \A y \in S : P(x)[3] <= P(y)[3])[3]
            [] meta.ftype = "max" -> P(CHOOSE x \in S : \A y \in S : P(x)[3] >= P(y)[3])[3]
MergeOf(M) ==
  LET I == Idx(M)
      keys == {<<P(x)[1], P(x)[2]>> : x \in I}
  IN {<<k[1], k[2], Agg({x \in I : <<P(x)[1], P(x)[2]>> = k})>> : k \in keys}

TResult ==
  /\ Ev("Result")
  /\ IF Line.ok
     THEN /\ Result /\ Holds(res'.kind = "ok")
          /\ LET ref == MergeOf(res'.merged)
                 got == {<<Line.cells[i][1], Line.cells[i][2], Line.cells[i][3]>> : i \in 1..Len(Line.cells)}
             IN Holds(/\ Len(Line.bad) = 0
                      /\ Line.start = meta.start /\ Line.end = meta.end /\ Line.iv = meta.iv
                      /\ Len(Line.cells) = Cardinality(got)
                      /\ got = ref
                      /\ Line.series = Cardinality({c[1] : c \in ref}))
     ELSE IF Line.err = "timeout"
     THEN Timeout
     ELSE Result /\ Holds(res'.kind = "err" /\ Line.err \in res'.errs)
  /\ UNCHANGED <<pts, meta, begun, ended>>

TraceNext == TReset \/ TPlan \/ TSend \/ TAnswerBegin \/ TInternal \/ TAnswerEnd \/ TResult
TraceSpec == TraceInit /\ [][TraceNext]_tvars
HighWater == TLCSet(1, IF l > TLCGet(1) THEN l ELSE TLCGet(1))
TraceAccepted ==
  LET hw == TLCGet(1) IN
  IF hw = Len(Trace) + 1 THEN TRUE
  ELSE /\ PrintT(<<"TRACE-REJECTED-AT-LINE", hw>>)
       /\ FALSE
=============================================================================
