CONSTANTS
  Node = {n1, n2, n3}
  None = None
  FailOverMayFail = FALSE
  MaxExpire = 2
  MaxFail = 0
SPECIFICATION MCSpec
CONSTRAINT Bounded
INVARIANTS SettledHasMaster SettledOwnerIsMaster SettledAgreement RoleFollowsBelief DualMasterOnlyWhileDeletePending
CHECK_DEADLOCK FALSE
