// Package sched is a seeded gate scheduler: logical threads park at gates and a
// single scheduler releases one parked thread at a time, so the interleaving of the
// gated steps is chosen by the seed and not by timing.
//
// Gates must never be placed inside a critical section of the code under test.  A
// released thread that neither parks again nor finishes within StepWait is treated
// as blocked on a real lock; the scheduler then releases another parked thread.
package sched

import (
	"math/rand"
	"sort"
	"sync"
	"time"
)

type Sched struct {
	mu      sync.Mutex
	rng     *rand.Rand
	parked  map[string]chan struct{}
	label   map[string]string
	running int
	wake    chan struct{}
	Choices []string // thread released at each step (the schedule, for evidence)
	// Pick, when set, chooses the next thread among the parked ones (sorted); default is seeded random.
	Pick     func(parked []string, labels map[string]string) string
	StepWait time.Duration
	Stuck    time.Duration
	Free     bool // when true gates do not block (free-running mode)
}

func New(seed int64) *Sched {
	return &Sched{
		rng:      rand.New(rand.NewSource(seed)),
		parked:   map[string]chan struct{}{},
		label:    map[string]string{},
		wake:     make(chan struct{}, 1),
		StepWait: 200 * time.Millisecond,
		Stuck:    3 * time.Second,
	}
}

func (s *Sched) signal() {
	select {
	case s.wake <- struct{}{}:
	default:
	}
}

// Spawn announces a thread that is (or is about to be) running.
func (s *Sched) Spawn(tid string) {
	s.mu.Lock()
	s.running++
	s.mu.Unlock()
}

// Done announces that a running thread finished.
func (s *Sched) Done(tid string) {
	s.mu.Lock()
	s.running--
	s.mu.Unlock()
	s.signal()
}

// Yield parks the calling thread at a gate until the scheduler releases it.
func (s *Sched) Yield(tid, label string) {
	if s.Free {
		return
	}
	ch := make(chan struct{})
	s.mu.Lock()
	s.running--
	s.parked[tid] = ch
	s.label[tid] = label
	s.mu.Unlock()
	s.signal()
	<-ch
}

// Run schedules until no thread is running or parked. It returns false if threads
// were still running (not parked, not done) after Stuck.
func (s *Sched) Run() bool {
	lastProgress := time.Now()
	for {
		s.mu.Lock()
		running, nparked := s.running, len(s.parked)
		if running <= 0 && nparked == 0 {
			s.mu.Unlock()
			return true
		}
		blocked := time.Since(lastProgress) > s.StepWait
		if nparked > 0 && (running <= 0 || blocked) {
			ids := make([]string, 0, nparked)
			for id := range s.parked {
				ids = append(ids, id)
			}
			sort.Strings(ids)
			var pick string
			if s.Pick != nil {
				pick = s.Pick(ids, s.label)
			} else {
				pick = ids[s.rng.Intn(len(ids))]
			}
			ch := s.parked[pick]
			delete(s.parked, pick)
			delete(s.label, pick)
			s.running++
			s.Choices = append(s.Choices, pick)
			s.mu.Unlock()
			close(ch)
			lastProgress = time.Now()
			continue
		}
		s.mu.Unlock()
		if nparked == 0 && time.Since(lastProgress) > s.Stuck {
			return false
		}
		select {
		case <-s.wake:
		case <-time.After(20 * time.Millisecond):
		}
	}
}

// ReleaseAll unparks everything (used on abort paths so goroutines do not leak blocked).
func (s *Sched) ReleaseAll() {
	s.mu.Lock()
	s.Free = true
	for id, ch := range s.parked {
		close(ch)
		delete(s.parked, id)
	}
	s.mu.Unlock()
}
