package main

import (
	"bytes"
	"fmt"
	"math/rand"
	"os"
	"path/filepath"
	"runtime"
	"sort"
	"strings"
	"sync/atomic"
	"time"

	protoMetricsV1 "github.com/lindb/common/proto/gen/v1/linmetrics"

	"github.com/lindb/lindb/config"
	"github.com/lindb/lindb/kv"
	"github.com/lindb/lindb/models"
	"github.com/lindb/lindb/pkg/option"
	"github.com/lindb/lindb/pkg/timeutil"
	"github.com/lindb/lindb/series/metric"
	"github.com/lindb/lindb/tsdb"

	"verif/harness/internal/kvwrap"
	"verif/harness/internal/trace"
)

// storageRows converts proto metrics into the rows a data family writes (the broker's wire form)
func storageRows(ms ...*protoMetricsV1.Metric) []*metric.StorageRow {
	ml := protoMetricsV1.MetricList{Metrics: ms}
	var buf bytes.Buffer
	converter := metric.NewProtoConverter(models.NewDefaultLimits())
	_, _ = converter.MarshalProtoMetricListV1To(ml, &buf)
	var br metric.StorageBatchRows
	br.UnmarshalRows(buf.Bytes())
	return br.Rows()
}

func openEngineAt(dir string) (tsdb.Engine, error) {
	cfg := config.NewDefaultStorageBase()
	cfg.TSDB.Dir = dir
	config.SetGlobalStorageConfig(cfg)
	return tsdb.NewEngine()
}

// storesOf returns the kv stores of the database whose name contains the interval type directory
func storesOf(db, intervalType string) []kv.Store {
	var out []kv.Store
	for _, s := range kv.GetStoreManager().GetStores() {
		if strings.Contains(s.Name(), string(filepath.Separator)+db+string(filepath.Separator)) &&
			strings.Contains(s.Name(), string(filepath.Separator)+"segment"+string(filepath.Separator)+intervalType+string(filepath.Separator)) {
			out = append(out, s)
		}
	}
	sort.Slice(out, func(i, j int) bool { return out[i].Name() < out[j].Name() })
	return out
}

func storeBlocks(stores []kv.Store, metricID uint32) ([][]mcell, []string, error) {
	blocks := [][]mcell{}
	where := []string{}
	for _, s := range stores {
		names := s.ListFamilyNames()
		sort.Strings(names)
		for _, n := range names {
			f := s.GetFamily(n)
			bl, err := familyBlocks(f, []uint32{metricID})
			if err != nil {
				return nil, nil, err
			}
			for _, b := range bl[metricID] {
				blocks = append(blocks, b)
				where = append(where, filepath.Base(s.Name())+"/"+n)
			}
		}
	}
	return blocks, where, nil
}

func waitStores(stores []kv.Store) {
	for _, s := range stores {
		for _, n := range s.ListFamilyNames() {
			kv.VerifWaitFamily(s.GetFamily(n))
		}
	}
}

// one rollup history on a real engine: 10s -> 5min (and 1h), one source family (one hour)
func mdataRollupHistory(rec *trace.Recorder, dir string, rng *rand.Rand, h int, sum *trace.Summary, images bool) {
	var w *kvwrap.World
	if images {
		// the world must exist before the stores are opened (their manifest writers are wrapped at creation)
		w = kvwrap.NewWorld(dir, rec)
		w.Silent = true
		defer w.Drop()
	}
	engine, err := openEngineAt(dir)
	if err != nil {
		sum.Unresolved = append(sum.Unresolved, err.Error())
		return
	}
	closed := false
	defer func() {
		if !closed {
			engine.Close()
		}
	}()
	db := fmt.Sprintf("db%d", h)
	src := timeutil.Interval(10 * 1000)
	t5m := timeutil.Interval(5 * 60 * 1000)
	t1h := timeutil.Interval(3600 * 1000)
	ivs := option.Intervals{{Interval: src, Retention: timeutil.Interval(3650 * 24 * 3600 * 1000)},
		{Interval: t5m, Retention: timeutil.Interval(3650 * 24 * 3600 * 1000)}}
	// every fourth history is scripted: two targets, the second one out of reach during the first pass
	withYear := rng.Intn(2) == 0 || h%4 == 1
	if withYear {
		ivs = append(ivs, option.Interval{Interval: t1h, Retention: timeutil.Interval(3650 * 24 * 3600 * 1000)})
	}
	opt := &option.DatabaseOption{Intervals: ivs, AutoCreateNS: true}
	if err := engine.CreateShards(db, opt, models.ShardID(1)); err != nil {
		sum.Unresolved = append(sum.Unresolved, err.Error())
		return
	}
	database, _ := engine.GetDatabase(db)
	shard, _ := database.GetShard(models.ShardID(1))
	// a family position: any hour of a day; month ends and a leap day included
	days := []time.Time{
		time.Date(2019, 7, 2, 0, 0, 0, 0, time.UTC), time.Date(2020, 2, 29, 0, 0, 0, 0, time.UTC),
		time.Date(2021, 1, 31, 0, 0, 0, 0, time.UTC), time.Date(2021, 12, 31, 0, 0, 0, 0, time.UTC),
		time.Date(2022, 3, 1, 0, 0, 0, 0, time.UTC),
	}
	day := days[rng.Intn(len(days))]
	hour := []int{0, 1, 11, 12, 22, 23}[rng.Intn(6)]
	familyStart := day.Add(time.Duration(hour) * time.Hour).UnixMilli()
	family, err := shard.GetOrCrateDataFamily(familyStart)
	if err != nil {
		sum.Unresolved = append(sum.Unresolved, err.Error())
		return
	}
	compactFirst := rng.Intn(3) == 0
	rec.Reset(trace.F{"mode": "rollup", "h": h, "day": day.Format("20060102"), "hour": hour, "year": withYear, "compactfirst": compactFirst,
		"types": map[string]string{}})
	hosts := []string{"a", "b", "c"}
	nfiles := 1 + rng.Intn(3)
	for i := 0; i < nfiles; i++ {
		var ms []*protoMetricsV1.Metric
		npts := 3 + rng.Intn(12)
		for p := 0; p < npts; p++ {
			slot := rng.Intn(360)
			v := float64(1 + rng.Intn(40))
			ms = append(ms, &protoMetricsV1.Metric{Name: "cpu", Timestamp: familyStart + int64(slot)*10000 + int64(rng.Intn(9000)),
				Tags: []*protoMetricsV1.KeyValue{{Key: "host", Value: hosts[rng.Intn(len(hosts))]}},
				SimpleFields: []*protoMetricsV1.SimpleField{
					{Name: "s", Value: v, Type: protoMetricsV1.SimpleFieldType_DELTA_SUM},
					{Name: "mi", Value: v, Type: protoMetricsV1.SimpleFieldType_Min},
					{Name: "ma", Value: v, Type: protoMetricsV1.SimpleFieldType_Max},
					{Name: "la", Value: v, Type: protoMetricsV1.SimpleFieldType_LAST},
				}})
		}
		if err := family.WriteRows(storageRows(ms...)); err != nil {
			rec.Emit("Error", trace.F{"op": "WriteRows", "err": err.Error()})
			return
		}
		if err := family.Flush(); err != nil {
			rec.Emit("Error", trace.F{"op": "Flush", "err": err.Error()})
			return
		}
	}
	metricID, err := database.MetaDB().GetMetricID("default-ns", "cpu")
	if err != nil {
		rec.Emit("Error", trace.F{"op": "GetMetricID", "err": err.Error()})
		return
	}
	schema, _ := database.MetaDB().GetSchema(metricID)
	types := map[string]string{}
	if schema != nil {
		for _, f := range schema.Fields {
			types[fmt.Sprint(int(f.ID))] = f.Type.String()
		}
	}
	rec.Emit("Types", trace.F{"types": types})
	source, _, err := storeBlocks(storesOf(db, "day"), uint32(metricID))
	if err != nil {
		rec.Emit("Error", trace.F{"op": "read source", "err": err.Error()})
		return
	}
	if compactFirst && nfiles > 1 {
		family.Family().Compact()
		waitStores(storesOf(db, "day"))
		rec.Emit("Note", trace.F{"what": "source compacted before rollup"})
	}
	type imgPt struct {
		dir string
		n   int
	}
	var imgs []imgPt
	if w != nil {
		// the images are restarted and (some of them) written to again: names must resolve to the same ids there
		if err := database.FlushMeta(); err != nil {
			rec.Emit("Error", trace.F{"op": "FlushMeta", "err": err.Error()})
			return
		}
		database.WaitFlushMetaCompleted()
		if err := shard.FlushIndex(); err != nil {
			rec.Emit("Error", trace.F{"op": "FlushIndex", "err": err.Error()})
			return
		}
		shard.WaitFlushIndexCompleted()
		w.AfterOp = func(n int, ev string) {
			if ev != "ManifestAppend" {
				return
			}
			d := fmt.Sprintf("%s-img%d", dir, n)
			if err := kvwrap.CopyDir(dir, d); err == nil {
				imgs = append(imgs, imgPt{d, n})
			}
		}
	}
	yearOpen := true
	check := func(label string) bool {
		for _, s := range storesOf(db, "day") {
			s.ForceRollup()
		}
		waitStores(storesOf(db, "day"))
		waitStores(storesOf(db, "month"))
		waitStores(storesOf(db, "year"))
		t5, w5, err := storeBlocks(storesOf(db, "month"), uint32(metricID))
		if err != nil {
			rec.Emit("Error", trace.F{"op": "read target", "err": err.Error()})
			return false
		}
		rec.Emit("Rollup", trace.F{"label": label, "target": "5m", "source": source, "targetblocks": t5, "where": w5,
			"base": hour * 12, "ratio": 30, "wantfamily": fmt.Sprintf("%s/%d", day.Format("200601"), day.Day())})
		if withYear && yearOpen {
			t1, w1, err := storeBlocks(storesOf(db, "year"), uint32(metricID))
			if err != nil {
				rec.Emit("Error", trace.F{"op": "read target", "err": err.Error()})
				return false
			}
			rec.Emit("Rollup", trace.F{"label": label, "target": "1h", "source": source, "targetblocks": t1, "where": w1,
				"base": (day.Day()-1)*24 + hour, "ratio": 360, "wantfamily": fmt.Sprintf("%s/%d", day.Format("2006"), int(day.Month()))})
		}
		return true
	}
	// one target out of reach during the first pass (its store is not open, as after a restart before
	// anything touched that segment): the pass completes the other target; the skipped one must be rolled
	// up by a later pass
	lateYear := rng.Intn(2) == 0 || h%4 == 1
	lateYear = lateYear && withYear && w == nil
	if lateYear {
		for _, s := range storesOf(db, "year") {
			if err := kv.GetStoreManager().CloseStore(s.Name()); err != nil {
				rec.Emit("Error", trace.F{"op": "close year store", "err": err.Error()})
				return
			}
		}
		yearOpen = false
		rec.Emit("Note", trace.F{"what": "1h target store closed during the first rollup pass"})
	}
	if !check("first") {
		return
	}
	if w != nil {
		w.AfterOp = nil
	}
	// triggered again: every source file contributes once
	if !lateYear && !check("again") {
		return
	}
	// ... also after a restart
	engine.Close()
	closed = true
	engine, err = openEngineAt(dir)
	if err != nil {
		rec.Emit("Error", trace.F{"op": "reopen", "err": err.Error()})
		return
	}
	closed = false
	database, _ = engine.GetDatabase(db)
	if database == nil {
		rec.Emit("Error", trace.F{"op": "reopen", "err": "database missing"})
		return
	}
	shard, _ = database.GetShard(models.ShardID(1))
	if _, err := shard.GetOrCrateDataFamily(familyStart); err != nil {
		rec.Emit("Error", trace.F{"op": "reopen family", "err": err.Error()})
		return
	}
	yearOpen = true
	check("after-restart")
	// a kill after each manifest commit of the rollup job: restart from that image and roll up again
	for _, im := range imgs {
		if !closed {
			engine.Close()
		}
		closed = true
		engine, err = openEngineAt(im.dir)
		if err != nil {
			rec.Emit("Error", trace.F{"op": "open image", "err": err.Error()})
			os.RemoveAll(im.dir)
			continue
		}
		closed = false
		if im.n%2 == 1 {
			// the node restarts twice before the rollup runs again (every open rewrites the manifest from the
			// recovered state: what the first restart recovered must survive its own snapshot)
			if database, _ = engine.GetDatabase(db); database != nil {
				if sh, ok := database.GetShard(models.ShardID(1)); ok {
					_, _ = sh.GetOrCrateDataFamily(familyStart)
				}
			}
			engine.Close()
			engine, err = openEngineAt(im.dir)
			if err != nil {
				rec.Emit("Error", trace.F{"op": "reopen image", "err": err.Error()})
				os.RemoveAll(im.dir)
				closed = true
				continue
			}
			rec.Emit("Note", trace.F{"what": "image restarted twice before the rollup"})
		}
		if database, _ = engine.GetDatabase(db); database != nil {
			shard, _ = database.GetShard(models.ShardID(1))
			if fam, err := shard.GetOrCrateDataFamily(familyStart); err == nil {
				label := fmt.Sprintf("image-after-commit-%d", im.n)
				if im.n%3 != 1 {
					// late data: after the restart one more file is flushed into the source family before the rollup
					// runs again -- the files the killed rollup had already brought into a target must not be brought
					// in a second time next to the new one
					if err := fam.WriteRows(storageRows(rollupPoints(rng, familyStart)...)); err != nil {
						rec.Emit("Error", trace.F{"op": "WriteRows(image)", "err": err.Error()})
					} else if err := fam.Flush(); err != nil {
						rec.Emit("Error", trace.F{"op": "Flush(image)", "err": err.Error()})
					}
					src2, _, err := storeBlocks(storesOf(db, "day"), uint32(metricID))
					if err != nil {
						rec.Emit("Error", trace.F{"op": "read source(image)", "err": err.Error()})
					} else {
						keep := source
						source = src2
						rec.Emit("Note", trace.F{"what": "one more source file flushed after the restart of the image"})
						check(label + "-lateflush")
						source = keep
					}
				} else {
					check(label)
				}
			}
		}
		engine.Close()
		closed = true
		os.RemoveAll(im.dir)
	}
	if len(sum.Samples) < 4 {
		sum.Samples = append(sum.Samples, map[string]any{"day": day.Format("20060102"), "hour": hour, "files": nfiles, "year": withYear, "compactfirst": compactFirst, "lateyear": lateYear})
	}
}

// ---- several source days rolling up into the same target family ------------------------------------------------
//
// The 1h target (year calculator) has ONE family per month: every source family (day, hour) of that month is rolled
// up into it, each from its own source store (day/<yyyymmdd>).  The 5min target (month calculator) has one family
// per day.  Source family ids and file numbers are allocated per source store, so they repeat from day to day (the
// first family of every day's store, its first flushed file): what the target family knows about "already rolled
// up" must not confuse them.  The judgement (RollupM in MetricDataTrace): every target family holds the reference
// rollup of ALL source families that belong to it, each source file once, and nothing sits in any other family.

type mdSrcFam struct {
	day   time.Time
	hour  int
	start int64
	fam   tsdb.DataFamily
}

func rollupPoints(rng *rand.Rand, familyStart int64) []*protoMetricsV1.Metric {
	hosts := []string{"a", "b", "c"}
	var ms []*protoMetricsV1.Metric
	npts := 2 + rng.Intn(8)
	for p := 0; p < npts; p++ {
		slot := rng.Intn(360)
		v := float64(1 + rng.Intn(40))
		ms = append(ms, &protoMetricsV1.Metric{Name: "cpu", Timestamp: familyStart + int64(slot)*10000 + int64(rng.Intn(9000)),
			Tags: []*protoMetricsV1.KeyValue{{Key: "host", Value: hosts[rng.Intn(len(hosts))]}},
			SimpleFields: []*protoMetricsV1.SimpleField{
				{Name: "s", Value: v, Type: protoMetricsV1.SimpleFieldType_DELTA_SUM},
				{Name: "mi", Value: v, Type: protoMetricsV1.SimpleFieldType_Min},
				{Name: "ma", Value: v, Type: protoMetricsV1.SimpleFieldType_Max},
				{Name: "la", Value: v, Type: protoMetricsV1.SimpleFieldType_LAST},
			}})
	}
	return ms
}

func mdataMultiDayHistory(rec *trace.Recorder, dir string, rng *rand.Rand, h int, sum *trace.Summary, images bool) {
	var w *kvwrap.World
	if images {
		w = kvwrap.NewWorld(dir, rec)
		w.Silent = true
		defer w.Drop()
	}
	engine, err := openEngineAt(dir)
	if err != nil {
		sum.Unresolved = append(sum.Unresolved, err.Error())
		return
	}
	closed := false
	defer func() {
		if !closed {
			engine.Close()
		}
	}()
	db := fmt.Sprintf("dm%d", h)
	long := timeutil.Interval(3650 * 24 * 3600 * 1000)
	opt := &option.DatabaseOption{Intervals: option.Intervals{
		{Interval: timeutil.Interval(10 * 1000), Retention: long},
		{Interval: timeutil.Interval(5 * 60 * 1000), Retention: long},
		{Interval: timeutil.Interval(3600 * 1000), Retention: long}}, AutoCreateNS: true}
	if err := engine.CreateShards(db, opt, models.ShardID(1)); err != nil {
		sum.Unresolved = append(sum.Unresolved, err.Error())
		return
	}
	database, _ := engine.GetDatabase(db)
	shard, _ := database.GetShard(models.ShardID(1))

	// 2-3 days: of one month (one 1h target family for all of them); every fifth history adds the first day of the
	// next month / year (another 1h family, maybe another 1h store)
	months := []time.Time{
		time.Date(2019, 7, 1, 0, 0, 0, 0, time.UTC), time.Date(2020, 2, 1, 0, 0, 0, 0, time.UTC),
		time.Date(2021, 12, 1, 0, 0, 0, 0, time.UTC), time.Date(2022, 4, 1, 0, 0, 0, 0, time.UTC),
	}
	month := months[rng.Intn(len(months))]
	last := month.AddDate(0, 1, -1).Day()
	ndays := 2 + rng.Intn(2)
	var days []time.Time
	for _, dn := range rng.Perm(last)[:ndays] {
		days = append(days, month.AddDate(0, 0, dn))
	}
	if rng.Intn(2) == 0 {
		// adjacent days, the month's end included
		days = days[:0]
		for i := 0; i < ndays; i++ {
			days = append(days, month.AddDate(0, 0, last-ndays+i))
		}
	}
	sort.Slice(days, func(i, j int) bool { return days[i].Before(days[j]) })
	if h%5 == 4 {
		days = append(days, month.AddDate(0, 1, 0))
	}
	mode := []string{"day-by-day", "together", "interleaved", "random"}[h%4]
	if images {
		mode = "day-by-day"
	}
	sameHour := rng.Intn(2) == 0
	hourPool := []int{0, 1, 11, 12, 22, 23}
	nhours := 1 + rng.Intn(2)
	common := rng.Perm(len(hourPool))[:nhours]
	var fams []*mdSrcFam
	perDay := make([][]*mdSrcFam, len(days))
	maxFiles := 0
	nfilesOf := map[*mdSrcFam]int{}
	for d, day := range days {
		hs := common
		if !sameHour {
			hs = rng.Perm(len(hourPool))[:1+rng.Intn(2)]
		}
		if images && d == len(days)-1 {
			// the pass that is cut at every manifest append has one rollup job (one pending source family)
			hs = hs[:1]
		}
		for _, hi := range hs {
			f := &mdSrcFam{day: day, hour: hourPool[hi], start: day.Add(time.Duration(hourPool[hi]) * time.Hour).UnixMilli()}
			fams = append(fams, f)
			perDay[d] = append(perDay[d], f)
			nfilesOf[f] = 1 + rng.Intn(2)
			if nfilesOf[f] > maxFiles {
				maxFiles = nfilesOf[f]
			}
		}
	}
	// the order of the flushes and the places where a rollup pass runs
	var writes []*mdSrcFam
	rollupAfter := map[int]bool{}
	switch mode {
	case "day-by-day", "together":
		for d := range days {
			for _, f := range perDay[d] {
				for k := 0; k < nfilesOf[f]; k++ {
					writes = append(writes, f)
				}
			}
			if mode == "day-by-day" {
				rollupAfter[len(writes)-1] = true
			}
		}
	case "interleaved":
		// first file of every family of every day, rollup, second files (later file numbers of the same families), rollup
		for k := 0; k < maxFiles; k++ {
			for d := range days {
				for _, f := range perDay[d] {
					if k < nfilesOf[f] {
						writes = append(writes, f)
					}
				}
			}
			rollupAfter[len(writes)-1] = true
		}
	default:
		for _, f := range fams {
			for k := 0; k < nfilesOf[f]; k++ {
				writes = append(writes, f)
			}
		}
		rng.Shuffle(len(writes), func(i, j int) { writes[i], writes[j] = writes[j], writes[i] })
		for i := range writes {
			if rng.Intn(5) < 2 {
				rollupAfter[i] = true
			}
		}
	}
	rollupAfter[len(writes)-1] = true
	var dayNames []string
	for _, d := range days {
		dayNames = append(dayNames, d.Format("20060102"))
	}
	rec.Reset(trace.F{"mode": "rollup-multiday", "h": h, "days": dayNames, "schedule": mode, "samehour": sameHour, "types": map[string]string{}})

	var metricID uint32
	haveTypes := false
	openFamilies := func() bool {
		for _, f := range fams {
			if f.fam == nil {
				continue
			}
			nf, err := shard.GetOrCrateDataFamily(f.start)
			if err != nil {
				rec.Emit("Error", trace.F{"op": "reopen family", "err": err.Error()})
				return false
			}
			f.fam = nf
		}
		return true
	}
	type srcJ struct {
		Day    string    `json:"day"`
		Hour   int       `json:"hour"`
		Base   int       `json:"base"`
		Blocks [][]mcell `json:"blocks"`
	}
	type famJ struct {
		Want    string `json:"want"`
		Sources []srcJ `json:"sources"`
	}
	check := func(label string) bool {
		// what the sources hold (every source family that was written so far), read through the real reader
		var srcs []struct {
			f      *mdSrcFam
			blocks [][]mcell
		}
		coincide := map[string][]string{}
		for _, f := range fams {
			if f.fam == nil {
				continue
			}
			bl, err := familyBlocks(f.fam.Family(), []uint32{metricID})
			if err != nil {
				rec.Emit("Error", trace.F{"op": "read source", "err": err.Error()})
				return false
			}
			b := bl[metricID]
			if b == nil {
				b = [][]mcell{}
			}
			srcs = append(srcs, struct {
				f      *mdSrcFam
				blocks [][]mcell
			}{f, b})
			snap := f.fam.Family().GetSnapshot()
			for fn := range snap.GetCurrent().GetRollupFiles() {
				k := fmt.Sprintf("%d/%d", f.fam.Family().ID(), fn.Int64())
				coincide[k] = append(coincide[k], fmt.Sprintf("%s-%02d", f.day.Format("20060102"), f.hour))
			}
			snap.Close()
		}
		ncoin := 0
		for _, v := range coincide {
			if len(v) > 1 {
				ncoin++
			}
		}
		rec.Emit("Note", trace.F{"what": "pending (source family id, file number) pairs shared by several source stores", "shared": ncoin})
		for _, s := range storesOf(db, "day") {
			s.ForceRollup()
		}
		waitStores(storesOf(db, "day"))
		waitStores(storesOf(db, "month"))
		waitStores(storesOf(db, "year"))
		for _, tg := range []struct {
			name, itype string
			ratio       int
		}{{"5m", "month", 30}, {"1h", "year", 360}} {
			tb, wh, err := storeBlocks(storesOf(db, tg.itype), metricID)
			if err != nil {
				rec.Emit("Error", trace.F{"op": "read target", "err": err.Error()})
				return false
			}
			// expected target families, from the civil date of the source family (independent of lindb's calculators)
			var famsJ []*famJ
			idx := map[string]*famJ{}
			for _, s := range srcs {
				var want string
				var base int
				if tg.name == "5m" {
					want = fmt.Sprintf("%s/%d", s.f.day.Format("200601"), s.f.day.Day())
					base = s.f.hour * 12
				} else {
					want = fmt.Sprintf("%s/%d", s.f.day.Format("2006"), int(s.f.day.Month()))
					base = (s.f.day.Day()-1)*24 + s.f.hour
				}
				fj := idx[want]
				if fj == nil {
					fj = &famJ{Want: want}
					idx[want] = fj
					famsJ = append(famsJ, fj)
				}
				fj.Sources = append(fj.Sources, srcJ{Day: s.f.day.Format("20060102"), Hour: s.f.hour, Base: base, Blocks: s.blocks})
			}
			rec.Emit("RollupM", trace.F{"label": label, "target": tg.name, "ratio": tg.ratio, "families": famsJ, "targetblocks": tb, "where": wh})
		}
		return true
	}

	type imgPt struct {
		dir string
		n   int
	}
	var imgs []imgPt
	pass := 0
	for i, f := range writes {
		if f.fam == nil {
			nf, err := shard.GetOrCrateDataFamily(f.start)
			if err != nil {
				sum.Unresolved = append(sum.Unresolved, err.Error())
				return
			}
			f.fam = nf
		}
		if err := f.fam.WriteRows(storageRows(rollupPoints(rng, f.start)...)); err != nil {
			rec.Emit("Error", trace.F{"op": "WriteRows", "err": err.Error()})
			return
		}
		if err := f.fam.Flush(); err != nil {
			rec.Emit("Error", trace.F{"op": "Flush", "err": err.Error()})
			return
		}
		if !haveTypes {
			mid, err := database.MetaDB().GetMetricID("default-ns", "cpu")
			if err != nil {
				rec.Emit("Error", trace.F{"op": "GetMetricID", "err": err.Error()})
				return
			}
			metricID = uint32(mid)
			types := map[string]string{}
			if schema, _ := database.MetaDB().GetSchema(mid); schema != nil {
				for _, fm := range schema.Fields {
					types[fmt.Sprint(int(fm.ID))] = fm.Type.String()
				}
			}
			rec.Emit("Types", trace.F{"types": types})
			haveTypes = true
		}
		if !rollupAfter[i] {
			continue
		}
		lastPass := i == len(writes)-1
		if lastPass && w != nil {
			w.AfterOp = func(n int, ev string) {
				if ev != "ManifestAppend" {
					return
				}
				d := fmt.Sprintf("%s-img%d", dir, n)
				if err := kvwrap.CopyDir(dir, d); err == nil {
					imgs = append(imgs, imgPt{d, n})
				}
			}
		}
		pass++
		ok := check(fmt.Sprintf("pass-%d", pass))
		if w != nil {
			w.AfterOp = nil
		}
		if !ok {
			return
		}
	}
	// triggered again: every source file contributes once
	if !check("again") {
		return
	}
	// ... also after a restart
	reopen := func(at string) bool {
		if !closed {
			engine.Close()
		}
		closed = true
		engine, err = openEngineAt(at)
		if err != nil {
			rec.Emit("Error", trace.F{"op": "reopen", "err": err.Error()})
			return false
		}
		closed = false
		database, _ = engine.GetDatabase(db)
		if database == nil {
			rec.Emit("Error", trace.F{"op": "reopen", "err": "database missing"})
			return false
		}
		shard, _ = database.GetShard(models.ShardID(1))
		return openFamilies()
	}
	if !reopen(dir) {
		return
	}
	if !check("after-restart") {
		return
	}
	// a kill after a manifest commit of the last rollup pass (the earlier days are in the target already): restart
	// from that image and roll up again
	for _, im := range imgs {
		if reopen(im.dir) {
			check(fmt.Sprintf("image-after-commit-%d", im.n))
		}
		if !closed {
			engine.Close()
			closed = true
		}
		os.RemoveAll(im.dir)
	}
	if len(sum.Samples) < 6 {
		sum.Samples = append(sum.Samples, map[string]any{"multiday": dayNames, "schedule": mode, "samehour": sameHour, "families": len(fams), "flushes": len(writes), "passes": pass, "images": len(imgs)})
	}
}

// ---- observation (not a check): closing a source store while its rollup job is between two target stores ----------
//
// kv.StoreManager.CloseStore holds the manager's mutex while it waits for the background jobs of the store's families
// (family.close -> condition.Wait); the rollup job of a family looks every target store up through the same manager
// (GetStoreByName takes the same mutex), once per target interval.  A close that arrives while the job still has a
// target interval to go never returns, and neither does the job.  The window is opened from outside: the rollup job is
// parked at the manifest append of its first target (kvwrap gate), CloseStore(source store) is started and seen blocked
// in WaitGroup.Wait below family.close, then the job is released.  The process is lost afterwards (the manager mutex is
// held for good), so this runs as a process of its own and reports what the goroutine dump shows.
func goroutineBlocks() []string {
	buf := make([]byte, 1<<20)
	for {
		n := runtime.Stack(buf, true)
		if n < len(buf) {
			buf = buf[:n]
			break
		}
		buf = make([]byte, 2*len(buf))
	}
	return strings.Split(string(buf), "\n\n")
}

func findBlock(all ...string) string {
	for _, b := range goroutineBlocks() {
		ok := true
		for _, s := range all {
			if !strings.Contains(b, s) {
				ok = false
				break
			}
		}
		if ok {
			return b
		}
	}
	return ""
}

func mdataCloseProbe(rec *trace.Recorder, dir string) map[string]any {
	res := map[string]any{"deadlock": false}
	kvwrap.Install()
	w := kvwrap.NewWorld(dir, rec)
	w.Silent = true
	engine, err := openEngineAt(dir)
	if err != nil {
		res["error"] = err.Error()
		return res
	}
	_ = engine
	db := "dp"
	long := timeutil.Interval(3650 * 24 * 3600 * 1000)
	opt := &option.DatabaseOption{Intervals: option.Intervals{
		{Interval: timeutil.Interval(10 * 1000), Retention: long},
		{Interval: timeutil.Interval(5 * 60 * 1000), Retention: long},
		{Interval: timeutil.Interval(3600 * 1000), Retention: long}}, AutoCreateNS: true}
	if err := engine.CreateShards(db, opt, models.ShardID(1)); err != nil {
		res["error"] = err.Error()
		return res
	}
	database, _ := engine.GetDatabase(db)
	shard, _ := database.GetShard(models.ShardID(1))
	start := time.Date(2019, 7, 2, 3, 0, 0, 0, time.UTC).UnixMilli()
	family, err := shard.GetOrCrateDataFamily(start)
	if err != nil {
		res["error"] = err.Error()
		return res
	}
	if err := family.WriteRows(storageRows(rollupPoints(rand.New(rand.NewSource(1)), start)...)); err != nil {
		res["error"] = err.Error()
		return res
	}
	if err := family.Flush(); err != nil {
		res["error"] = err.Error()
		return res
	}
	var armed atomic.Bool
	parked := make(chan struct{})
	release := make(chan struct{})
	w.Gate = func(label string) {
		if label != "manifest-append" || !armed.Load() {
			return
		}
		buf := make([]byte, 1<<16)
		me := string(buf[:runtime.Stack(buf, false)])
		if !strings.Contains(me, "kv.(*family).rollup.func1") || !armed.CompareAndSwap(true, false) {
			return
		}
		close(parked)
		<-release
	}
	src := storesOf(db, "day")
	if len(src) != 1 {
		res["error"] = "source store not found"
		return res
	}
	armed.Store(true)
	src[0].ForceRollup()
	select {
	case <-parked:
	case <-time.After(20 * time.Second):
		res["error"] = "the rollup job did not reach the commit of its first target"
		return res
	}
	closeDone := make(chan error, 1)
	go func() { closeDone <- kv.GetStoreManager().CloseStore(src[0].Name()) }()
	deadline := time.Now().Add(20 * time.Second)
	closer := ""
	for closer == "" && time.Now().Before(deadline) {
		closer = findBlock("kv.(*storeManager).CloseStore", "kv.(*family).close", "sync.(*WaitGroup).Wait")
		if closer == "" {
			time.Sleep(5 * time.Millisecond)
		}
	}
	if closer == "" {
		res["error"] = "CloseStore not seen waiting for the family's jobs"
		return res
	}
	close(release)
	job := ""
	for job == "" && time.Now().Before(deadline) {
		select {
		case err := <-closeDone:
			res["closed"] = fmt.Sprint(err)
			return res
		default:
		}
		job = findBlock("kv.(*family).rollup.func1", "kv.(*storeManager).GetStoreByName", "sync.(*Mutex).Lock")
		if job == "" {
			time.Sleep(5 * time.Millisecond)
		}
	}
	if job == "" {
		res["error"] = "rollup job not seen at its second target lookup"
		return res
	}
	// each waits for the other: the picture cannot change any more; looked at again after a while all the same
	time.Sleep(1500 * time.Millisecond)
	select {
	case err := <-closeDone:
		res["closed"] = fmt.Sprint(err)
		return res
	default:
	}
	closer = findBlock("kv.(*storeManager).CloseStore", "kv.(*family).close", "sync.(*WaitGroup).Wait")
	job = findBlock("kv.(*family).rollup.func1", "kv.(*storeManager).GetStoreByName", "sync.(*Mutex).Lock")
	if closer != "" && job != "" {
		res["deadlock"] = true
		frames := func(b string) []string {
			var out []string
			for _, ln := range strings.Split(b, "\n") {
				if strings.Contains(ln, "lindb/kv.") || strings.HasPrefix(ln, "sync.") {
					ln = strings.TrimSpace(ln)
					if i := strings.LastIndex(ln, "("); i > 0 && strings.HasSuffix(ln, ")") {
						ln = ln[:i] // without the argument words (addresses)
					}
					out = append(out, ln)
				}
			}
			return out
		}
		res["closer"] = frames(closer)
		res["job"] = frames(job)
	}
	return res
}
