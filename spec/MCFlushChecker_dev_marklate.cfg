\* the code BEFORE the repair: Send ; Mark -- must violate NoStaleMark
CONSTANTS
  Req = {r1, r2, r3}
  MarkBeforeSend = FALSE
SPECIFICATION Spec
INVARIANTS NoStaleMark
CHECK_DEADLOCK FALSE
