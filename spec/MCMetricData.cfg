CONSTANTS
  Series = {1}
  Slots = {0, 1}
  Vals = {1, 2}
  Types <- TypesA
SPECIFICATION Spec
INVARIANTS OneStepOK RepeatedCompactionOK RollupAfterCompactOK
CHECK_DEADLOCK FALSE
