---------------------------- MODULE MCWALQueue ----------------------------
(* Bounded instance of WALQueue: two caller threads, two groups, message     *)
(* lengths that force page roll-over with an abstract page of 4 units.       *)
EXTENDS WALQueue

CONSTANTS Threads, Groups, Lens, MaxPut, MaxOps, MaxDown

VARIABLES nput, nops, ndown
mcvars == <<vars, nput, nops, ndown>>

MCInit == Init /\ nput = 0 /\ nops = 0 /\ ndown = 0

Count(isput) == /\ nops < MaxOps /\ nops' = nops + 1
                /\ IF isput THEN nput < MaxPut /\ nput' = nput + 1 ELSE nput' = nput
                /\ UNCHANGED ndown
Same == UNCHANGED <<nput, nops, ndown>>

Seqs == -1..MaxPut

MCNext ==
  \/ \E t \in Threads, len \in Lens : PutStart(t, len, nput + 1) /\ Count(TRUE)
  \/ \E t \in Threads : PutPublish(t) /\ Same
  \/ \E t \in Threads, g \in Groups : ConsumeStart(t, g) /\ Count(FALSE)
  \/ \E t \in Threads, g \in Groups, s \in Seqs : AckStart(t, g, s) /\ Count(FALSE)
  \/ \E t \in Threads, g \in Groups : (g \in DOMAIN gm /\ \E s \in gm[g].ack..mApp : SetConsumedStart(t, g, s)) /\ Count(FALSE)
  \/ \E t \in Threads : SyncStart(t) /\ Count(FALSE)
  \/ \E t \in Threads : GCStart(t) /\ Count(FALSE)
  \/ \E t \in Threads, g \in Groups : CreateGroupStart(t, g) /\ Count(FALSE)
  \/ \E t \in Threads, g \in Groups : CreateGroupFailStart(t, g) /\ Count(FALSE)
  \/ \E t \in Threads, g \in Groups : StopGroup(t, g) /\ Count(FALSE)
  \/ \E t \in Threads, s \in Seqs : SetAppendedStart(t, s) /\ Count(FALSE)
  \/ \E t \in Threads : DoStore(t) /\ Same
  \/ Down /\ ndown < MaxDown /\ ndown' = ndown + 1 /\ UNCHANGED <<nput, nops>>
  \/ Reopen /\ Same

MCSpec == MCInit /\ [][MCNext]_mcvars
MCView == <<idx, data, dpages, meta, gd, gdir, open, mApp, mAck, curPage, curOff, gm, ops, truth, nput, nops, ndown>>
=============================================================================
