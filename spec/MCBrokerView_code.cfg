CONSTANTS
  Node = {1, 2}
  Db = {"d1", "d2"}
  Broker = {1}
  MaxShards = 2
  RenotifyOnDb = FALSE
  GrowRouting = FALSE
  DropChannel = FALSE
  MaxPub = 2
  MaxDbEv = 3
  MaxNodeEv = 1
SPECIFICATION MCSpec
INVARIANTS QueryableCoversOnline
CHECK_DEADLOCK FALSE
