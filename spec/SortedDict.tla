------------------------------ MODULE SortedDict ------------------------------
(* Reference semantics of lindb's on-disk string dictionary (pkg/trie,          *)
(* index/model trie bucket, index/v1 flusher / reader / merger): a SORTED MAP   *)
(* from byte strings to ids.                                                    *)
(*                                                                              *)
(* A byte string is a sequence of integers 0..255, a dictionary is a set of     *)
(* <<key, id>> pairs with pairwise distinct keys.  Every query of the real      *)
(* structure has a reference answer defined here by comprehension over that     *)
(* set; the "...OK" operators are the judges used by SortedDictTrace (leg T):   *)
(* they decide whether a logged answer of the real code IS the reference        *)
(* answer, in time linear in the dictionary.  The constructive operators        *)
(* (SortedSeq, PrefixSeq, ...) are used by MCSortedDict (leg M) to check the      *)
(* algebra of the reference on every small key set.                             *)
(*                                                                              *)
(* The state machine is deliberately small: building, loading (= unmarshal of   *)
(* the marshalled form, specified as identity) and merging (= union).           *)
EXTENDS Integers, Sequences, FiniteSets, TLC

CONSTANTS
  \* Named deviations of the real code from the sorted map (found by this check, see known_findings.json).
  \* Iterator.Seek(k) is a lower-bound seek only when some key starts with k (which is all that prefix
  \* iteration needs).  Otherwise the real iterator stops wherever its descent ended: on the last key when k is
  \* above every key, on the single key that shares a head with k even when that key is smaller than k, on the
  \* greatest key of the sub-trie whose labels are all smaller than the next byte of k.  TRUE = accept that.
  Deviation_SeekExactOnlyWhenProbeIsPrefix,
  \* FindValuesByRegexp scans only keys that start with the regexp's literal prefix although the
  \* pattern is not anchored (TRUE = model that scan; used only by leg M to show what it loses).
  Deviation_RegexScansLiteralPrefixOnly

VARIABLE dicts          \* dictionary id -> set of <<key, id>> pairs
vars == <<dicts>>

-------------------------------------------------------------------------------
(* byte strings *)
MinI(a, b) == IF a < b THEN a ELSE b
IsPrefix(p, k) == Len(p) <= Len(k) /\ \A i \in 1..Len(p) : k[i] = p[i]
IsSuffix(s, k) == Len(s) <= Len(k) /\ \A i \in 1..Len(s) : k[Len(k) - Len(s) + i] = s[i]
IsInfix(m, k) == Len(m) <= Len(k) /\ \E o \in 0..(Len(k) - Len(m)) : \A i \in 1..Len(m) : k[o + i] = m[i]
\* bytewise lexicographic order (bytes.Compare): the first differing byte decides, a proper prefix is smaller
Lt(a, b) ==
  LET n == MinI(Len(a), Len(b)) IN
  \E i \in 1..(n + 1) :
     /\ \A j \in 1..(i - 1) : a[j] = b[j]
     /\ IF i = n + 1 THEN Len(a) < Len(b) ELSE a[i] < b[i]
Le(a, b) == a = b \/ Lt(a, b)

(* dictionaries *)
KeysOf(D) == {kv[1] : kv \in D}
ValsOf(D) == {kv[2] : kv \in D}
IsDict(D) == Cardinality(KeysOf(D)) = Cardinality(D)
ToSet(s) == {s[i] : i \in 1..Len(s)}
PairsOf(ks, vs) == {<<ks[i], vs[i]>> : i \in 1..Len(ks)}
Asc(ks) == \A i \in 1..(Len(ks) - 1) : Lt(ks[i], ks[i + 1])        \* strictly ascending
Desc(ks) == \A i \in 1..(Len(ks) - 1) : Lt(ks[i + 1], ks[i])
NoDup(s) == Cardinality(ToSet(s)) = Len(s)
WithPrefix(D, p) == {kv \in D : IsPrefix(p, kv[1])}

Absent == -1
Get(D, k) == IF \E kv \in D : kv[1] = k THEN (CHOOSE kv \in D : kv[1] = k)[2] ELSE Absent

-------------------------------------------------------------------------------
(* judges: is a logged answer the reference answer?  K must be KeysOf(D) (kept in the state by the trace spec) *)

\* exact lookup: found iff the key is present, and then with its id (absent keys: proper prefixes, extensions, ...)
GetOK(D, K, k, found, v) == (found <=> k \in K) /\ (found => <<k, v>> \in D)

\* prefix enumeration in key order: exactly the pairs whose key starts with p, ascending
PrefixOK(D, p, ks, vs) == Len(ks) = Len(vs) /\ Asc(ks) /\ PairsOf(ks, vs) = WithPrefix(D, p)
\* ordered iteration forward / backward over the whole dictionary
IterOK(D, ks, vs) == Len(ks) = Len(vs) /\ Asc(ks) /\ PairsOf(ks, vs) = D
IterBackOK(D, ks, vs) == Len(ks) = Len(vs) /\ Desc(ks) /\ PairsOf(ks, vs) = D

\* seek: the sorted map lands on the least key >= k, or nowhere
GE(K, k) == {x \in K : ~Lt(x, k)}
IsLeast(S, x) == x \in S /\ \A y \in S : Le(x, y)
IsGreatest(S, x) == x \in S /\ \A y \in S : Le(y, x)
SeekIdeal(K, k, valid, r) == IF GE(K, k) = {} THEN ~valid ELSE valid /\ IsLeast(GE(K, k), r)
SeekDevNoExtension(K, k, valid, r) == {x \in K : IsPrefix(k, x)} = {} /\ (valid => r \in K)
SeekOK(K, k, valid, r) ==
  \/ SeekIdeal(K, k, valid, r)
  \/ Deviation_SeekExactOnlyWhenProbeIsPrefix /\ SeekDevNoExtension(K, k, valid, r)

\* suggestion: the first `limit` keys with the prefix, ascending (limit >= 1)
SuggestOK(K, p, limit, ks) ==
  LET P == {x \in K : IsPrefix(p, x)} IN
  /\ Asc(ks) /\ ToSet(ks) \subseteq P
  /\ Len(ks) = MinI(limit, Cardinality(P))
  /\ \A x \in P \ ToSet(ks) : \A i \in 1..Len(ks) : Lt(ks[i], x)

\* like patterns of the index:  lit*  /  *lit  /  *lit*
LikeMatch(kind, lit, k) ==
  CASE kind = "prefix" -> IsPrefix(lit, k)
    [] kind = "suffix" -> IsSuffix(lit, k)
    [] kind = "contains" -> IsInfix(lit, k)
    [] kind = "exact" -> lit = k
\* structured regular expressions (TLC has no regex): an alternation of literals, anchored or not
\*   "prefix":  ^(l1|l2|..)     "suffix": (l1|..)$     "contains": (l1|..)     "exact": ^(l1|..)$
\*   "prefixany": ^(l1|..).*    "bare": l1  (unanchored single literal, = contains)
RegexMatch(kind, lits, k) ==
  \E i \in 1..Len(lits) :
     LikeMatch(IF kind = "prefixany" THEN "prefix" ELSE IF kind = "bare" THEN "contains" ELSE kind, lits[i], k)
IdsOK(D, ids, Match(_)) == NoDup(ids) /\ ToSet(ids) = {kv[2] : kv \in {x \in D : Match(x[1])}}
LikeOK(D, kind, lit, ids) == LET M(k) == LikeMatch(kind, lit, k) IN IdsOK(D, ids, M)
RegexOK(D, kind, lits, ids) == LET M(k) == RegexMatch(kind, lits, k) IN IdsOK(D, ids, M)

\* all ids / reverse lookup of a set of ids
ValuesOK(D, vs) == NoDup(vs) /\ ToSet(vs) = ValsOf(D)
CollectOK(D, want, gotIds, gotKeys) ==
  /\ Len(gotIds) = Len(gotKeys) /\ NoDup(gotIds)
  /\ PairsOf(gotKeys, gotIds) = {kv \in D : kv[2] \in ToSet(want)}

-------------------------------------------------------------------------------
(* state machine *)
Init == dicts = <<>>
Put(d, D) == dicts' = [x \in DOMAIN dicts \cup {d} |-> IF x = d THEN D ELSE dicts[x]]

\* trie.Builder.Build + Trie() / TrieBucketBuilder.Write / IndexKVFlusher: any set of distinct keys builds
Build(d, D) == IsDict(D) /\ Put(d, D)
\* Write + UnmarshalBinary / TrieBucket.Unmarshal / IndexKVReader.GetBucket of one file: identity
Load(d, from) == from \in DOMAIN dicts /\ Put(d, dicts[from])
\* several dictionaries of one bucket (reader over several files, TrieBucket.Write, IndexKVMerger): union.
\* Keys of one bucket are created once (C09), so parts never disagree on a key.
Mergeable(froms) == \A f \in froms : f \in DOMAIN dicts
Union(froms) == UNION {dicts[f] : f \in froms}
Merge(d, froms) == Mergeable(froms) /\ IsDict(Union(froms)) /\ Put(d, Union(froms))

\* state invariant of the machine
AllDicts == \A d \in DOMAIN dicts : IsDict(dicts[d])
=============================================================================
