package main

import (
	"errors"
	"flag"
	"fmt"
	"math/rand"
	"os"
	"path/filepath"
	"runtime/debug"
	"sort"
	"strings"
	"sync"
	"sync/atomic"
	"time"

	"github.com/lindb/common/pkg/ltoml"

	"github.com/lindb/lindb/kv"
	"github.com/lindb/lindb/kv/table"
	"github.com/lindb/lindb/kv/version"

	"verif/harness/internal/kvwrap"
	"verif/harness/internal/sched"
	"verif/harness/internal/trace"
)

func init() { register("kvc", kvConcMain) }

func snapFields(id string, fam int, snap version.Snapshot, levels int, withFiles bool) trace.F {
	f := trace.F{"id": id, "fam": fam}
	if withFiles {
		files := [][]int64{}
		v := snap.GetCurrent()
		for lvl := 0; lvl < levels; lvl++ {
			for _, fm := range v.GetFiles(lvl) {
				files = append(files, []int64{int64(lvl), fm.GetFileNumber().Int64()})
			}
		}
		f["files"] = files
	}
	content := [][]int64{}
	for k := uint32(0); k < kvKeyUniverse; k++ {
		seen := map[uint32]bool{}
		err := func() (err error) {
			// a read through an unmapped reader is a memory fault: an observation, not the end of the driver
			old := debug.SetPanicOnFault(true)
			defer func() {
				debug.SetPanicOnFault(old)
				if p := recover(); p != nil {
					err = fmt.Errorf("fault while reading: %v", p)
				}
			}()
			return snap.Load(k, func(val []byte) error {
				for _, a := range kvwrap.DecodeAtoms(val) {
					if !seen[a] {
						seen[a] = true
						content = append(content, []int64{int64(k), int64(a)})
					}
				}
				return nil
			})
		}()
		if err != nil {
			f["loaderr"] = err.Error()
		}
	}
	f["content"] = content
	return f
}

// readHeld reads every key again through the table readers obtained when the snapshot was taken
func readHeld(held map[uint32][]table.Reader) (msg string) {
	old := debug.SetPanicOnFault(true)
	defer func() {
		debug.SetPanicOnFault(old)
		if p := recover(); p != nil {
			msg = fmt.Sprintf("fault while reading through a held reader: %v", p)
		}
	}()
	for k, rs := range held {
		for _, r := range rs {
			// (a file whose key range covers k need not hold k)
			if _, err := r.Get(k); err != nil && !errors.Is(err, table.ErrKeyNotExist) {
				return fmt.Sprintf("held reader of %s: key %d: %v", r.Path(), k, err)
			}
		}
	}
	return ""
}

// one concurrent history on one family: readers, a flusher, a compaction, an independent cleanup
func kvConcHistory(rec *trace.Recorder, root string, seed int64, h int, sum *trace.Summary) {
	w := kvwrap.NewWorld(root, rec)
	defer w.Drop()
	rng := rand.New(rand.NewSource(seed))
	opt := kv.DefaultStoreOption()
	opt.TTL = ltoml.Duration(time.Millisecond)
	run := &kvRun{w: w, rec: rec, path: root, opt: opt, rng: rng, famOpt: map[string]kv.FamilyOption{}}
	rec.Reset(trace.F{"mode": "concurrent", "h": h})
	if err := run.open(); err != nil {
		sum.Unresolved = append(sum.Unresolved, "open: "+err.Error())
		return
	}
	fopt := kv.FamilyOption{Merger: unionMerger}
	if rng.Intn(2) == 0 {
		fopt.MaxFileSize = 8
	}
	f, err := run.store.CreateFamily("10", fopt)
	if err != nil {
		sum.Unresolved = append(sum.Unresolved, "family: "+err.Error())
		return
	}
	rec.Emit("Proj", trace.F{"proj": kvProj(run.store, w)})
	for i := 0; i < 2+rng.Intn(2); i++ {
		run.flush("10", 1+rng.Intn(3), false)
	}
	fam := int(f.ID())
	levels := opt.Levels

	type preparedFlusher struct {
		name string
		fl   kv.Flusher
	}
	var extra []preparedFlusher
	// (in half of the histories: a committer that waits for the lock costs the scheduler one StepWait)
	if n := rng.Intn(4) - 1; n > 0 {
		for i := 0; i <= n; i++ {
			name := "fl"
			if i > 0 {
				name = fmt.Sprintf("fl%d", i+1)
			}
			w.BindThread(name)
			extra = append(extra, preparedFlusher{name: name, fl: run.prepareFlusher(f, 1+rng.Intn(2))})
			w.BindThread("")
		}
	}

	sc := sched.New(rng.Int63())
	sc.StepWait = 300 * time.Millisecond
	w.Gate = func(label string) {
		t := w.Thread()
		if t == "" {
			return
		}
		sc.Yield(t, label)
	}
	var wg sync.WaitGroup
	start := func(name string, body func()) {
		sc.Spawn(name)
		wg.Add(1)
		go func() {
			defer wg.Done()
			defer sc.Done(name)
			w.BindThread(name)
			sc.Yield(name, "start")
			body()
		}()
	}
	nreaders := 2
	for r := 0; r < nreaders; r++ {
		name := fmt.Sprintf("r%d", r+1)
		rounds := 1 + rng.Intn(2)
		reads := 1 + rng.Intn(2)
		again := rng.Intn(2) == 0
		start(name, func() {
			for i := 0; i < rounds; i++ {
				id := fmt.Sprintf("%s.%d", name, i)
				snap := f.GetSnapshot()
				rec.Emit("SnapAcquire", snapFields(id, fam, snap, levels, true))
				// the readers of the snapshot, held across the later steps as the query path holds them
				held := map[uint32][]table.Reader{}
				for k := uint32(0); k < kvKeyUniverse; k++ {
					if rs, err := snap.FindReaders(k); err == nil {
						held[k] = rs
					}
				}
				for j := 0; j < reads; j++ {
					sc.Yield(name, "read")
					sf := snapFields(id, fam, snap, levels, false)
					if msg := readHeld(held); msg != "" {
						sf["loaderr"] = msg
					}
					rec.Emit("SnapRead", sf)
				}
				sc.Yield(name, "close")
				snap.Close()
				rec.Emit("SnapClose", trace.F{"id": id})
				if again {
					// Close is idempotent (a snapshot shared by several result sets is closed by each)
					sc.Yield(name, "close-again")
					snap.Close()
					rec.Emit("SnapCloseAgain", trace.F{"id": id})
				}
				sc.Yield(name, "next")
			}
		})
	}
	if len(extra) == 0 {
		nfl := 1 + rng.Intn(2)
		start("fl", func() {
			for i := 0; i < nfl; i++ {
				run.flushQuiet("10", 1+rng.Intn(2))
				sc.Yield("fl", "next")
			}
		})
	}
	// several committers on the same family (two or three flushers, each with its own table, beside the compaction), so
	// that commits overlap: a committer reaches CommitFamilyEditLog while another one is parked inside it, at the
	// manifest append.  The scheduled part of these flushers is the commit only: their tables were started above, one
	// thread at a time, and stay pending outputs until then.  (File numbers are allocated under the version-set lock
	// but announced after it: two flushers that wait for that lock together, or a flusher beside the compaction, would
	// announce their numbers in either order.  Here the compaction is the only thread that allocates.)
	for _, x := range extra {
		x := x
		start(x.name, func() {
			run.commitPrepared(x.name, f, x.fl)
		})
	}
	start("cp", func() {
		// the compaction job runs on a goroutine lindb starts; it takes the announced name
		w.Announce("bg")
		sc.Spawn("bg")
		started := compactStarted(f)
		if !started {
			sc.Done("bg")
			return
		}
		go func() {
			for kv.VerifIsCompacting(f) {
				time.Sleep(200 * time.Microsecond)
			}
			sc.Done("bg")
		}()
	})
	ncl := 1 + rng.Intn(2)
	start("cl", func() {
		for i := 0; i < ncl; i++ {
			kv.VerifDeleteObsoleteFiles(f)
			sc.Yield("cl", "next")
			// the periodic store check also evicts expired, unreferenced readers from the reader cache (TTL 1 ms
			// here): a reader an open snapshot uses must survive
			time.Sleep(3 * time.Millisecond)
			kv.VerifCacheCleanup(run.store)
			sc.Yield("cl", "after-cache-cleanup")
		}
	})
	ok := sc.Run()
	if !ok {
		// the background compaction may still be running without further gates: let it finish
		sc.ReleaseAll()
	}
	wg.Wait()
	kv.VerifWaitFamily(f)
	w.Gate = nil
	rec.Emit("WriterDone", trace.F{"fam": fam, "nums": append(w.TakeAllocs("bg"), w.TakeAllocs("")...)})
	rec.Emit("Proj", trace.F{"proj": kvProj(run.store, w)})
	run.closeStore()
	if len(sum.Samples) < 3 {
		sum.Samples = append(sum.Samples, map[string]any{"schedule": sc.Choices})
	}
	sum.Extra["schedules"] = sum.Extra["schedules"].(int) + 1
	sum.Extra["steps"] = sum.Extra["steps"].(int) + len(sc.Choices)
}

// kvCleanupWindow: the obsolete-file cleanup is parked right before it lists the family directory while a
// complete flush (table created, closed, committed) runs; the cleanup must not remove that table
func kvCleanupWindow(rec *trace.Recorder, root string, seed int64, h int, sum *trace.Summary) {
	w := kvwrap.NewWorld(root, rec)
	defer w.Drop()
	rng := rand.New(rand.NewSource(seed))
	opt := kv.DefaultStoreOption()
	run := &kvRun{w: w, rec: rec, path: root, opt: opt, rng: rng, famOpt: map[string]kv.FamilyOption{}}
	rec.Reset(trace.F{"mode": "concurrent", "h": h, "scenario": "cleanup-window"})
	if err := run.open(); err != nil {
		sum.Unresolved = append(sum.Unresolved, "open: "+err.Error())
		return
	}
	f, err := run.store.CreateFamily("10", kv.FamilyOption{Merger: unionMerger})
	if err != nil {
		sum.Unresolved = append(sum.Unresolved, "family: "+err.Error())
		return
	}
	rec.Emit("Proj", trace.F{"proj": kvProj(run.store, w)})
	for i := 0; i < 1+rng.Intn(2); i++ {
		run.flush("10", 1+rng.Intn(3), false)
	}
	// the flush runs either right before or right after the directory is listed
	gateLabel := []string{"before-listdir:", "listdir:"}[h/5%2]
	parked := make(chan struct{})
	release := make(chan struct{})
	var once sync.Once
	w.Gate = func(label string) {
		if w.Thread() == "cl" && strings.HasPrefix(label, gateLabel) {
			once.Do(func() {
				close(parked)
				<-release
			})
		}
	}
	done := make(chan struct{})
	go func() {
		w.BindThread("cl")
		kv.VerifDeleteObsoleteFiles(f)
		close(done)
	}()
	select {
	case <-parked:
	case <-done:
	case <-time.After(5 * time.Second):
		sum.Unresolved = append(sum.Unresolved, "cleanup did not reach the directory listing")
		return
	}
	w.BindThread("main")
	run.flushQuiet("10", 1+rng.Intn(3))
	close(release)
	<-done
	w.Gate = nil
	rec.Emit("Proj", trace.F{"proj": kvProj(run.store, w)})
	snap := f.GetSnapshot()
	rec.Emit("SnapAcquire", snapFields("check", int(f.ID()), snap, opt.Levels, true))
	rec.Emit("SnapRead", snapFields("check", int(f.ID()), snap, opt.Levels, false))
	snap.Close()
	rec.Emit("SnapClose", trace.F{"id": "check"})
	run.closeStore()
	sum.Extra["schedules"] = sum.Extra["schedules"].(int) + 1
}

// kvCreateWindow: a flush (or the output of nothing else: a plain flusher) is parked right AFTER its table file was
// created and before it writes anything; the obsolete-file cleanup runs completely (directory listing, live-file set,
// removals); then the flush goes on, commits, and a new snapshot must read every key of it.  The file of an
// unfinished writer must be protected from the moment it exists.
func kvCreateWindow(rec *trace.Recorder, root string, seed int64, h int, sum *trace.Summary) {
	w := kvwrap.NewWorld(root, rec)
	defer w.Drop()
	rng := rand.New(rand.NewSource(seed))
	opt := kv.DefaultStoreOption()
	run := &kvRun{w: w, rec: rec, path: root, opt: opt, rng: rng, famOpt: map[string]kv.FamilyOption{}}
	rec.Reset(trace.F{"mode": "concurrent", "h": h, "scenario": "create-window"})
	if err := run.open(); err != nil {
		sum.Unresolved = append(sum.Unresolved, "open: "+err.Error())
		return
	}
	f, err := run.store.CreateFamily("10", kv.FamilyOption{Merger: unionMerger})
	if err != nil {
		sum.Unresolved = append(sum.Unresolved, "family: "+err.Error())
		return
	}
	rec.Emit("Proj", trace.F{"proj": kvProj(run.store, w)})
	for i := 0; i < 1+rng.Intn(2); i++ {
		run.flush("10", 1+rng.Intn(3), false)
	}
	parked := make(chan struct{})
	release := make(chan struct{})
	var once sync.Once
	w.Gate = func(label string) {
		if w.Thread() == "fl" && label == "table-created" {
			once.Do(func() {
				close(parked)
				<-release
			})
		}
	}
	done := make(chan struct{})
	go func() {
		w.BindThread("fl")
		run.flushQuiet("10", 1+rng.Intn(3))
		close(done)
	}()
	select {
	case <-parked:
	case <-done:
		sum.Unresolved = append(sum.Unresolved, "create-window: the flush finished without passing the table-created gate")
		return
	case <-time.After(5 * time.Second):
		sum.Unresolved = append(sum.Unresolved, "create-window: the flush did not reach the creation of its table")
		return
	}
	w.BindThread("cl")
	for i := 0; i < 1+h%2; i++ {
		kv.VerifDeleteObsoleteFiles(f)
	}
	w.BindThread("main")
	close(release)
	<-done
	w.Gate = nil
	rec.Emit("Proj", trace.F{"proj": kvProj(run.store, w)})
	snap := f.GetSnapshot()
	rec.Emit("SnapAcquire", snapFields("check", int(f.ID()), snap, opt.Levels, true))
	sf := snapFields("check", int(f.ID()), snap, opt.Levels, false)
	held := map[uint32][]table.Reader{}
	for k := uint32(0); k < kvKeyUniverse; k++ {
		if rs, err := snap.FindReaders(k); err == nil {
			held[k] = rs
		} else {
			sf["loaderr"] = fmt.Sprintf("FindReaders(%d): %v", k, err)
		}
	}
	if msg := readHeld(held); msg != "" {
		sf["loaderr"] = msg
	}
	rec.Emit("SnapRead", sf)
	snap.Close()
	rec.Emit("SnapClose", trace.F{"id": "check"})
	run.closeStore()
	sum.Extra["schedules"] = sum.Extra["schedules"].(int) + 1
}

// kvReaderCache: a snapshot creates the table readers and closes; a second snapshot gets the same readers from
// the cache and stays open while the reader cache is cleaned up after its TTL; the open snapshot still reads
func kvReaderCache(rec *trace.Recorder, root string, seed int64, h int, sum *trace.Summary) {
	w := kvwrap.NewWorld(root, rec)
	defer w.Drop()
	rng := rand.New(rand.NewSource(seed))
	opt := kv.DefaultStoreOption()
	opt.TTL = ltoml.Duration(time.Millisecond)
	run := &kvRun{w: w, rec: rec, path: root, opt: opt, rng: rng, famOpt: map[string]kv.FamilyOption{}}
	rec.Reset(trace.F{"mode": "concurrent", "h": h, "scenario": "reader-cache"})
	if err := run.open(); err != nil {
		sum.Unresolved = append(sum.Unresolved, "open: "+err.Error())
		return
	}
	f, err := run.store.CreateFamily("10", kv.FamilyOption{Merger: unionMerger})
	if err != nil {
		sum.Unresolved = append(sum.Unresolved, "family: "+err.Error())
		return
	}
	rec.Emit("Proj", trace.F{"proj": kvProj(run.store, w)})
	for i := 0; i < 1+rng.Intn(3); i++ {
		run.flush("10", 1+rng.Intn(3), false)
	}
	fam := int(f.ID())
	hold := func(snap version.Snapshot) map[uint32][]table.Reader {
		held := map[uint32][]table.Reader{}
		for k := uint32(0); k < kvKeyUniverse; k++ {
			if rs, err := snap.FindReaders(k); err == nil {
				held[k] = rs
			}
		}
		return held
	}
	// the first reader takes every table reader exactly once (one reference each) and goes away: the
	// cache entries are unreferenced afterwards.  It reads nothing, so it is not an event of the trace
	a := f.GetSnapshot()
	cur := a.GetCurrent()
	for lvl := 0; lvl < opt.Levels; lvl++ {
		for _, fm := range cur.GetFiles(lvl) {
			_, _ = a.GetReader(fm.GetFileNumber())
		}
	}
	a.Close()
	b := f.GetSnapshot()
	rec.Emit("SnapAcquire", snapFields("b", fam, b, opt.Levels, true))
	held := hold(b)
	time.Sleep(3 * time.Millisecond)
	kv.VerifCacheCleanup(run.store)
	sf := snapFields("b", fam, b, opt.Levels, false)
	if msg := readHeld(held); msg != "" {
		sf["loaderr"] = msg
	}
	rec.Emit("SnapRead", sf)
	b.Close()
	rec.Emit("SnapClose", trace.F{"id": "b"})
	run.closeStore()
	sum.Extra["schedules"] = sum.Extra["schedules"].(int) + 1
}

// kvDoubleClose: two snapshots of one version, the first is closed twice (Close is idempotent: a snapshot shared by
// several result sets is closed by each), then a compaction obsoletes the files of that version and the cleanup
// runs: the files the second, still open snapshot retains stay until it is closed
func kvDoubleClose(rec *trace.Recorder, root string, seed int64, h int, sum *trace.Summary) {
	w := kvwrap.NewWorld(root, rec)
	defer w.Drop()
	rng := rand.New(rand.NewSource(seed))
	opt := kv.DefaultStoreOption()
	run := &kvRun{w: w, rec: rec, path: root, opt: opt, rng: rng, famOpt: map[string]kv.FamilyOption{}}
	rec.Reset(trace.F{"mode": "concurrent", "h": h, "scenario": "double-close"})
	if err := run.open(); err != nil {
		sum.Unresolved = append(sum.Unresolved, "open: "+err.Error())
		return
	}
	f, err := run.store.CreateFamily("10", kv.FamilyOption{Merger: unionMerger})
	if err != nil {
		sum.Unresolved = append(sum.Unresolved, "family: "+err.Error())
		return
	}
	rec.Emit("Proj", trace.F{"proj": kvProj(run.store, w)})
	for i := 0; i < 2+rng.Intn(3); i++ {
		run.flush("10", 1+rng.Intn(3), false)
	}
	fam := int(f.ID())
	a := f.GetSnapshot()
	rec.Emit("SnapAcquire", snapFields("a", fam, a, opt.Levels, true))
	b := f.GetSnapshot()
	rec.Emit("SnapAcquire", snapFields("b", fam, b, opt.Levels, true))
	a.Close()
	rec.Emit("SnapClose", trace.F{"id": "a"})
	for i := 0; i < 1+rng.Intn(2); i++ {
		a.Close()
		rec.Emit("SnapCloseAgain", trace.F{"id": "a"})
	}
	run.compact("10")
	kv.VerifDeleteObsoleteFiles(f)
	rec.Emit("Proj", trace.F{"proj": kvProj(run.store, w)})
	rec.Emit("SnapRead", snapFields("b", fam, b, opt.Levels, false))
	b.Close()
	rec.Emit("SnapClose", trace.F{"id": "b"})
	kv.VerifDeleteObsoleteFiles(f)
	rec.Emit("Proj", trace.F{"proj": kvProj(run.store, w)})
	run.closeStore()
	sum.Extra["schedules"] = sum.Extra["schedules"].(int) + 1
}

// compactStarted triggers Family.Compact and reports whether a background job was started.
func compactStarted(f kv.Family) bool {
	snap := f.GetSnapshot()
	n0 := snap.GetCurrent().NumberOfFilesInLevel(0)
	snap.Close()
	if n0 <= 1 {
		return false
	}
	f.Compact()
	return true
}

// flushQuiet is flush without the full projection (other threads are running).
func (r *kvRun) flushQuiet(name string, nkeys int) {
	f := r.store.GetFamily(name)
	fl := f.NewFlusher()
	keys := r.rng.Perm(kvKeyUniverse)[:nkeys]
	sort.Ints(keys)
	for _, k := range keys {
		r.atom++
		_ = fl.Add(uint32(k), kvwrap.EncodeAtoms([]uint32{r.atom}))
	}
	if err := fl.Commit(); err != nil {
		r.rec.Emit("Error", trace.F{"op": "Commit", "err": err.Error()})
	}
	fl.Release()
	r.rec.Emit("WriterDone", trace.F{"fam": int(f.ID()), "nums": r.w.TakeAllocs(r.w.Thread())})
}

// prepareFlusher starts a flush on the calling thread: the table is allocated, created and filled, not yet closed.
func (r *kvRun) prepareFlusher(f kv.Family, nkeys int) kv.Flusher {
	fl := f.NewFlusher()
	keys := r.rng.Perm(kvKeyUniverse)[:nkeys]
	sort.Ints(keys)
	for _, k := range keys {
		r.atom++
		if err := fl.Add(uint32(k), kvwrap.EncodeAtoms([]uint32{r.atom})); err != nil {
			r.rec.Emit("Error", trace.F{"op": "Add", "err": err.Error()})
		}
	}
	return fl
}

// commitPrepared is the second half: table close, commit of the edit log, the output stops being pending.
// A panic of the code under test is an observation (the trace specification explains no Error event).
func (r *kvRun) commitPrepared(thread string, f kv.Family, fl kv.Flusher) {
	func() {
		defer func() {
			if p := recover(); p != nil {
				r.rec.Emit("Error", trace.F{"op": "Commit", "err": fmt.Sprintf("panic: %v", p)})
			}
		}()
		if err := fl.Commit(); err != nil {
			r.rec.Emit("Error", trace.F{"op": "Commit", "err": err.Error()})
		}
		fl.Release()
	}()
	r.rec.Emit("WriterDone", trace.F{"fam": int(f.ID()), "nums": r.w.TakeAllocs(thread)})
}

// kvOverlappingCommits: commits of one family that overlap.  Committer A is parked at its manifest append, i.e.
// INSIDE CommitFamilyEditLog with the version-set lock held; the other committers (own tables, built before) are
// started one by one and run until they wait for that lock; then A is released, and of the waiting committers the
// one that got the lock is parked at its manifest append until every other one waits for the lock again, and so on.
// Every commit returned success, so afterwards a NEW snapshot shows every one of them (the model installs the
// commits in the order of their ManifestAppend events, the linearization point inside the lock), and the obsolete
// file cleanup removes none of their tables.  With `other` the first committer works on a second family: the lock
// belongs to the store's version set, not to the family.
func kvOverlappingCommits(rec *trace.Recorder, root string, seed int64, h int, sum *trace.Summary) {
	w := kvwrap.NewWorld(root, rec)
	defer w.Drop()
	rng := rand.New(rand.NewSource(seed))
	opt := kv.DefaultStoreOption()
	run := &kvRun{w: w, rec: rec, path: root, opt: opt, rng: rng, famOpt: map[string]kv.FamilyOption{}}
	rec.Reset(trace.F{"mode": "concurrent", "h": h, "scenario": "overlapping-commits"})
	if err := run.open(); err != nil {
		sum.Unresolved = append(sum.Unresolved, "open: "+err.Error())
		return
	}
	f, err := run.store.CreateFamily("10", kv.FamilyOption{Merger: unionMerger})
	if err != nil {
		sum.Unresolved = append(sum.Unresolved, "family: "+err.Error())
		return
	}
	fams := []kv.Family{f}
	other := rng.Intn(3) == 0
	if other {
		g, err := run.store.CreateFamily("11", kv.FamilyOption{Merger: unionMerger})
		if err != nil {
			sum.Unresolved = append(sum.Unresolved, "family: "+err.Error())
			return
		}
		fams = append(fams, g)
	}
	rec.Emit("Proj", trace.F{"proj": kvProj(run.store, w)})
	for i := 0; i < 1+rng.Intn(2); i++ {
		run.flush("10", 1+rng.Intn(3), false)
	}

	const (
		stRunning int32 = iota
		stParked
		stDone
	)
	type committer struct {
		name    string
		fam     kv.Family
		fl      kv.Flusher
		gid     int64
		state   atomic.Int32
		goCh    chan struct{}
		release chan struct{}
	}
	n := 3 + rng.Intn(2)
	cs := make([]*committer, n)
	byName := map[string]*committer{}
	for i := range cs {
		c := &committer{name: fmt.Sprintf("f%c", 'a'+i), fam: f, goCh: make(chan struct{}), release: make(chan struct{})}
		if i == 0 && other {
			c.fam = fams[1]
		}
		// the tables are built one thread at a time (allocation order = order of the TableAlloc events)
		w.BindThread(c.name)
		c.fl = run.prepareFlusher(c.fam, 1+rng.Intn(2))
		w.BindThread("")
		cs[i] = c
		byName[c.name] = c
	}
	w.Gate = func(label string) {
		if label != "manifest-append" {
			return
		}
		if c := byName[w.Thread()]; c != nil {
			c.state.Store(stParked)
			<-c.release
			c.state.Store(stRunning)
		}
	}
	var wg sync.WaitGroup
	for _, c := range cs {
		c := c
		wg.Add(1)
		ready := make(chan struct{})
		go func() {
			defer wg.Done()
			defer c.state.Store(stDone)
			w.BindThread(c.name)
			c.gid = kvwrap.GoroutineID()
			close(ready)
			<-c.goCh
			run.commitPrepared(c.name, c.fam, c.fl)
		}()
		<-ready
	}
	// waitFor polls (the waits below end on an observed state, the timeout only guards the driver)
	waitFor := func(cond func() bool) bool {
		deadline := time.Now().Add(10 * time.Second)
		for !cond() {
			if time.Now().After(deadline) {
				return false
			}
			time.Sleep(200 * time.Microsecond)
		}
		return true
	}
	settled := func(c *committer) bool {
		st := c.state.Load()
		return st == stParked || st == stDone || kvwrap.BlockedOnLock(c.gid, "storeVersionSet")
	}
	stuck := ""
	// A runs into its manifest append and stays there, the lock held
	close(cs[0].goCh)
	if !waitFor(func() bool { return cs[0].state.Load() != stRunning }) {
		stuck = "the first committer did not reach its manifest append"
	}
	// every other committer runs until it waits for the lock
	waiting := []*committer{}
	for _, c := range cs[1:] {
		close(c.goCh)
		if stuck == "" && !waitFor(func() bool { return settled(c) }) {
			stuck = "committer " + c.name + " neither parked nor blocked"
		}
		waiting = append(waiting, c)
	}
	order := []string{cs[0].name}
	close(cs[0].release)
	if !waitFor(func() bool { return cs[0].state.Load() == stDone }) {
		stuck = "the first committer did not finish"
	}
	for len(waiting) > 0 && stuck == "" {
		// one of the waiting committers got the lock and reaches its manifest append; the others wait again
		var x *committer
		if !waitFor(func() bool {
			for _, c := range waiting {
				if c.state.Load() != stRunning {
					x = c
					return true
				}
			}
			return false
		}) {
			stuck = "no waiting committer reached its manifest append"
			break
		}
		rest := []*committer{}
		for _, c := range waiting {
			if c != x {
				rest = append(rest, c)
				if !waitFor(func() bool { return settled(c) }) {
					stuck = "committer " + c.name + " neither parked nor blocked"
				}
			}
		}
		order = append(order, x.name)
		if x.state.Load() == stParked {
			close(x.release)
		}
		if !waitFor(func() bool { return x.state.Load() == stDone }) {
			stuck = "committer " + x.name + " did not finish"
		}
		waiting = rest
	}
	if stuck != "" {
		// free whatever is still parked so that no goroutine stays behind
		w.Gate = nil
		for _, c := range cs {
			select {
			case <-c.release:
			default:
				close(c.release)
			}
		}
		wg.Wait()
		sum.Unresolved = append(sum.Unresolved, "overlapping-commits: "+stuck)
		run.closeStore()
		return
	}
	wg.Wait()
	w.Gate = nil
	fam := int(f.ID())
	// a reader that starts now sees every commit that completed
	snap := f.GetSnapshot()
	rec.Emit("SnapAcquire", snapFields("check", fam, snap, opt.Levels, true))
	rec.Emit("SnapRead", snapFields("check", fam, snap, opt.Levels, false))
	// ... and the cleanup removes no committed table
	for _, g := range fams {
		kv.VerifDeleteObsoleteFiles(g)
	}
	rec.Emit("SnapRead", snapFields("check", fam, snap, opt.Levels, false))
	snap.Close()
	rec.Emit("SnapClose", trace.F{"id": "check"})
	rec.Emit("Proj", trace.F{"proj": kvProj(run.store, w)})
	if rng.Intn(2) == 0 {
		// the compaction of the committed tables keeps the content
		run.compact("10")
		kv.VerifDeleteObsoleteFiles(f)
		snap = f.GetSnapshot()
		rec.Emit("SnapAcquire", snapFields("after", fam, snap, opt.Levels, true))
		rec.Emit("SnapRead", snapFields("after", fam, snap, opt.Levels, false))
		snap.Close()
		rec.Emit("SnapClose", trace.F{"id": "after"})
		rec.Emit("Proj", trace.F{"proj": kvProj(run.store, w)})
	}
	run.closeStore()
	if len(sum.Samples) < 3 {
		sum.Samples = append(sum.Samples, map[string]any{"overlapping-commits": order})
	}
	sum.Extra["schedules"] = sum.Extra["schedules"].(int) + 1
	sum.Extra["overlapping"] = sum.Extra["overlapping"].(int) + 1
}

func kvConcMain(args []string) int {
	fs := flag.NewFlagSet("kvc", flag.ExitOnError)
	out := fs.String("out", "kvc.ndjson", "trace output")
	seed := fs.Int64("seed", 1, "seed")
	nh := fs.Int("histories", 20, "concurrent histories")
	scratch := fs.String("scratch", "", "scratch directory")
	_ = fs.Parse(args)
	if *scratch == "" {
		d, _ := os.MkdirTemp("", "vdrive-kvc-")
		*scratch = d
		defer os.RemoveAll(d)
	}
	registerUnionMerger()
	kvwrap.Install()
	rec, err := trace.New(*out)
	if err != nil {
		fmt.Println(err)
		return 2
	}
	rng := rand.New(rand.NewSource(*seed))
	sum := &trace.Summary{Module: "KVStore", Extra: map[string]any{"schedules": 0, "steps": 0, "overlapping": 0}}
	for h := 0; h < *nh; h++ {
		root := filepath.Join(*scratch, fmt.Sprintf("c%d", h), "store")
		_ = os.MkdirAll(filepath.Dir(root), 0o755)
		if h%5 == 4 {
			kvCleanupWindow(rec, root, rng.Int63(), h, sum)
		} else if h%5 == 3 {
			kvReaderCache(rec, root, rng.Int63(), h, sum)
		} else if h%10 == 2 {
			kvDoubleClose(rec, root, rng.Int63(), h, sum)
		} else if h%10 == 6 {
			kvCreateWindow(rec, root, rng.Int63(), h, sum)
		} else if h%10 == 7 {
			kvOverlappingCommits(rec, root, rng.Int63(), h, sum)
		} else {
			kvConcHistory(rec, root, rng.Int63(), h, sum)
		}
		os.RemoveAll(filepath.Dir(root))
	}
	_ = rec.Close()
	sum.Traces, sum.Events = rec.Counts()
	sum.Distinct = sum.Extra["schedules"].(int)
	sum.Print()
	return 0
}
