package main

// famlife, write-vs-flush: a writer is parked INSIDE DataFamily.WriteRows right after it obtained the memory database
// (gate hook tsdb.VerifGate, point "writerows.gotdb"), a flush of the family starts on a goroutine of its own.
//
// Repaired code (81b03b7: the writer is registered in the mutex section that hands the database out): the flush
// freezes the database and then WAITS for the writer (FlushFamilyTo: writeCondition.Wait) -- seen in the goroutine
// dump; the driver observes the freeze through GetState, lets the writer finish (the row goes into the frozen
// database), and the file of the flush holds the row.
// Code before the repair: the flush does not wait; it writes the file, acknowledges, closes the database; the row of
// the writer then goes into the closed database -- accepted, in no file.  The specification (RegisterAtGet) rejects
// the FlushCommit of such a history.

import (
	"sync/atomic"
	"time"

	"github.com/lindb/lindb/tsdb"

	"verif/harness/internal/trace"
)

func init() {
	flExtra["writerace"] = func(c *flCtx) { c.writeRace(1, false) }
	flExtra["writerace-more"] = func(c *flCtx) { c.writeRace(2, true) }
}

func (c *flCtx) writeRace(leader int, more bool) {
	o := c.cur
	if o == nil || o.closed || c.job != nil {
		return
	}
	c.ackReg(o, 1)
	if more {
		c.ackReg(o, 2)
	}
	// the mutable database exists and has a series: a flush has something to freeze
	c.write(o, 1)
	c.commit(o, 1)
	c.read()
	if c.dead {
		return
	}
	row := c.next
	srows := storageRows(c.metric(row))
	arrived, goOn := make(chan struct{}), make(chan struct{})
	var gW int64
	tsdb.VerifGate = func(point string) {
		if point == "writerows.gotdb" && flGid() == atomic.LoadInt64(&gW) {
			close(arrived)
			<-goOn
		}
	}
	released := false
	release := func() {
		if !released {
			released = true
			close(goOn)
		}
	}
	writeDone := make(chan struct{})
	var werr error
	defer func() {
		release()
		<-writeDone
		tsdb.VerifGate = nil
	}()
	flGo(&gW, func() { werr = o.f.WriteRows(srows); close(writeDone) })
	select {
	case <-arrived:
	case <-writeDone:
		c.unresolved("write-vs-flush: WriteRows returned without passing the gate writerows.gotdb")
		return
	case <-time.After(60 * time.Second):
		c.unresolved("write-vs-flush: WriteRows did not reach the gate")
		return
	}
	c.note("writerace:parked")
	c.emit("WriteGet", trace.F{"obj": o.id})

	// the flush, on a goroutine of its own; it is stopped at the creation of its table file
	j := &flJob{o: o, mode: "gated", gateAt: "p1", arrived: make(chan struct{}), goOn: make(chan struct{})}
	c.job = j
	flushDone := make(chan struct{})
	var ferr error
	var gF int64
	flGo(&gF, func() { ferr = o.f.Flush(); close(flushDone) })
	finishFlush := func() bool {
		close(j.goOn)
		select {
		case <-flushDone:
		case <-time.After(60 * time.Second):
			c.unresolved("write-vs-flush: the flush did not return")
			c.poison, c.dead = true, true
			return false
		}
		c.job = nil
		if ferr != nil {
			c.emit("Unexpected", trace.F{"what": "Flush failed: " + ferr.Error(), "obj": o.id})
			c.dead = true
			return false
		}
		if !j.committed {
			c.emit("FlushCommit", trace.F{"obj": o.id})
		}
		c.emit("FlushRelease", trace.F{"obj": o.id})
		c.emit("FlushDrop", trace.F{"obj": o.id})
		return true
	}
	finishWrite := func() bool {
		release()
		select {
		case <-writeDone:
		case <-time.After(60 * time.Second):
			c.unresolved("write-vs-flush: WriteRows did not return")
			c.poison, c.dead = true, true
			return false
		}
		if werr != nil {
			c.emit("Unexpected", trace.F{"what": "WriteRows failed: " + werr.Error(), "obj": o.id, "row": row})
			c.dead = true
			return false
		}
		c.emit("WritePut", trace.F{"leader": leader, "row": row})
		c.next++
		c.pend[[2]int{o.id, leader}] = row
		return true
	}
	waits := func() bool {
		return flParked(&gF, "tsdb/memdb.(*memoryDatabase).FlushFamilyTo", "sync.(*WaitGroup).Wait")
	}
	arrivedAt := func(ch chan struct{}) bool {
		select {
		case <-ch:
			return true
		default:
			return false
		}
	}
	// the table file of the flush is created before the rows are collected: the freeze has happened (FlushFreeze was
	// emitted by the seam), nothing is written yet
	select {
	case <-j.arrived:
	case <-flushDone:
		c.job = nil
		c.emit("Unexpected", trace.F{"what": "write-vs-flush: the flush returned without freezing anything", "obj": o.id})
		c.dead = true
		return
	case <-time.After(60 * time.Second):
		c.unresolved("write-vs-flush: the flush did not reach its table file")
		c.poison, c.dead = true, true
		return
	}
	c.proj()
	c.read()
	// second stop of the flush: its table file is closed (rows written, nothing committed)
	arrived2, goOn2ch := make(chan struct{}), make(chan struct{})
	j.arrived2, j.goOn2 = arrived2, goOn2ch
	close(j.goOn)
	goOn2 := func() { close(goOn2ch); j.goOn = make(chan struct{}) }
	switch flAwait(func() bool { return waits() || arrivedAt(arrived2) }, flushDone, 60) {
	case "done":
		c.job = nil
		c.emit("Unexpected", trace.F{"what": "write-vs-flush: the flush returned without closing a table file", "obj": o.id})
		c.dead = true
		return
	case "timeout":
		c.unresolved("write-vs-flush: the flush neither waits for the writer nor wrote its table file")
		c.poison, c.dead = true, true
		return
	}
	if !arrivedAt(arrived2) {
		// the flush waits for the registered writer
		c.note("writerace:flush-waits")
		c.counts["flush-waits-for-writer"]++
		if !finishWrite() {
			return
		}
		c.proj()
		select {
		case <-arrived2:
		case <-time.After(60 * time.Second):
			c.unresolved("write-vs-flush: the flush did not go on after the writer completed")
			c.poison, c.dead = true, true
			return
		}
		c.read()
		c.commit(o, leader)
		goOn2()
		if !finishFlush() {
			return
		}
	} else {
		// the flush did not wait: it completes, the writer goes on afterwards
		c.note("writerace:flush-did-not-wait")
		c.counts["flush-did-not-wait-for-writer"]++
		goOn2()
		if !finishFlush() {
			return
		}
		c.proj()
		if !finishWrite() {
			return
		}
		c.commit(o, leader)
	}
	c.proj()
	c.read()
	if more {
		c.write(o, 1)
		c.commit(o, 1)
		c.flush(o, flPlan{})
		c.read()
		c.closeObj(o)
		c.read()
	}
}
