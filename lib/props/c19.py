"""C19 -- a query pipeline completes exactly once and reports failure (module Pipeline)."""
import json
import os

import vcore


def describe(sig, lines, rel, info):
    # classify by what the scenario contained, so a known finding only matches its own class
    try:
        reset = json.loads(lines[0])
        oc = set(reset.get("outcome", {}).values()) | set(reset.get("pout", {}).values())
        tags = []
        if "panic" in oc or "planpanic" in oc:
            tags.append("panic")
        if "err" in oc:
            tags.append("err")
        if any(reset.get("async", {}).values()):
            tags.append("async")
        return sig + ":" + "+".join(tags or ["plain"])
    except ValueError:
        return sig


def run(ctx, replay):
    if replay:
        ok, info = ctx.validate_trace("PipelineTrace", "PipelineTrace.cfg", replay)
        if not ok:
            ctx.violation("Pipeline:replay", "replayed trace rejected: %s" % info, replay_src=replay)
        return
    thorough = ctx.tier == "thorough"
    # leg M: every tree shape x async x outcome x interleaving
    ctx.model_check("MCPipeline", "MCPipeline.cfg" if thorough else "MCPipeline_quick.cfg", coverage=thorough, timeout=1800)
    # sensitivity: the pre-repair behaviour must violate the property in the model
    ctx.model_check("MCPipeline", "MCPipeline_dev.cfg", expect="violation")
    # sensitivity: completeStage in four steps (lock section, unlock, pending.Dec(), read of the first error + callback):
    # an error sampled inside the lock section instead of after pending reached zero must violate ErrorReported
    ctx.model_check("MCPipeline", "MCPipeline_dev_errsample.cfg", expect="violation")
    # a panic while a stage plans / registers its next stages (NextStages() itself, Identifier() of the k-th next stage):
    # a success completion deferred at the top of the complete-callback (seeded change C19f) completes the stage twice;
    # counting the stage as pending before its Identifier() is evaluated (before the repair 37fa917) never completes
    ctx.model_check("MCPipeline", "MCPipeline_dev_defersuccess.cfg", expect="violation")
    ctx.model_check("MCPipeline", "MCPipeline_dev_registerfirst.cfg", expect="violation")
    # the plan tree of a stage (baseStage.execute): pre-order, first failing operator = outcome of the stage
    ctx.model_check("MCPipelineTree", "MCPipelineTree.cfg" if thorough else "MCPipelineTree_quick.cfg", timeout=1800)
    # sensitivity: "the result of the last child wins" in the child loop must violate the property in the model
    ctx.model_check("MCPipelineTree", "MCPipelineTree_dev_lasterr.cfg", expect="violation")
    # leg T: real pipeline + real baseStage (Execute and the plan tree walk) + real plan nodes + real pool under a
    # seeded gate scheduler; scripted plan-tree cases first, then random stage trees with random plan trees
    n = 3000 if thorough else 400
    tr = os.path.join(ctx.scratch, "pipeline.ndjson")
    # ... and concurrently finishing stages (one failing) in every order of the lock sections and decrements of their
    # completeStage calls (all 3 / 30 orders of two / three stages, a sample of the 630 orders of four)
    summ, rc, _ = ctx.run_vdrive(["pipeline", "--seed", ctx.seed, "--traces", n, "--out", tr,
                                  "--stages", 6 if thorough else 5, "--orders", 630 if thorough else 60])
    for s in summ["samples"]:
        ctx.sample(s)
    extra = summ.get("extra") or {}
    gate = bool(extra.get("completeStage_gate"))
    ctx.extra["finishing_orders"] = extra.get("finishing_orders")
    ctx.extra["completeStage_gate"] = gate
    ctx.extra["distinct_schedules"] = summ["distinct"]
    ctx.extra["events"] = summ["events"]
    vcore.validate_all(ctx, "PipelineTrace", "PipelineTrace.cfg", tr, describe=describe)
    # a finishing order that could not be scheduled although every thread finished: the exploration is not what it claims
    # (judged after the validation: what the real code did in those runs is evidence either way)
    for u in summ["unresolved"]:
        raise vcore.Unresolved("pipeline driver: %s" % u)
    # free-running (no gates): the timing-dependent interleavings of the real pool
    tr2 = os.path.join(ctx.scratch, "pipeline-free.ndjson")
    summ2, rc, _ = ctx.run_vdrive(["pipeline", "--seed", ctx.seed + 7, "--traces", n // 2, "--out", tr2, "--free"])
    vcore.validate_all(ctx, "PipelineTrace", "PipelineTrace.cfg", tr2, describe=describe)

    def mutate(lines):
        # flip the error flag of the first Callback that reports an error
        for i, ln in enumerate(lines):
            if '"ev":"Callback"' in ln and '"err":true' in ln:
                out = list(lines)
                out[i] = ln.replace('"err":true', '"err":false')
                return out
        return None
    vcore.corrupt_selftest(ctx, "PipelineTrace", "PipelineTrace.cfg", tr, mutate, "callback error flag flipped")

    def drop(lines):
        for i, ln in enumerate(lines):
            if '"ev":"FinMark"' in ln:
                return lines[:i] + lines[i + 1:]
        return None
    vcore.corrupt_selftest(ctx, "PipelineTrace", "PipelineTrace.cfg", tr, drop, "one FinMark event dropped")

    if gate:
        def drop_unlocked(lines):
            for i, ln in enumerate(lines):
                if '"ev":"Unlocked"' in ln:
                    return lines[:i] + lines[i + 1:]
            return None
        vcore.corrupt_selftest(ctx, "PipelineTrace", "PipelineTrace.cfg", tr, drop_unlocked, "one Unlocked event dropped")

    def late_op(lines):
        # an operator "runs" after a failed one of the same stage: repeat the line of the failing operator's predecessor
        for i, ln in enumerate(lines):
            if '"ev":"Op"' in ln and '"outcome":"err"' in ln and i > 0 and '"ev":"Op"' in lines[i - 1]:
                return lines[:i + 1] + [lines[i - 1]] + lines[i + 1:]
        return None
    vcore.corrupt_selftest(ctx, "PipelineTrace", "PipelineTrace.cfg", tr, late_op, "an operator runs after the failed one")
    # "each request produces one response, never none and never two": the leaf's answer (LeafExecuteContext.SendResponse
    # called by the completion callback of a real pipeline), every receiver's stream recorded
    ctx.model_check("LeafResponse", "MCLeafResponse.cfg", timeout=300)
    ctx.model_check("LeafResponse", "MCLeafResponse_dev_fallthrough.cfg", expect="violation", timeout=300)
    trl = os.path.join(ctx.scratch, "leafresp.ndjson")
    summ, rc, _ = ctx.run_vdrive(["leafresp", "--seed", ctx.seed, "--random", 200 if thorough else 30, "--out", trl], timeout=600)
    for u in summ["unresolved"]:
        raise vcore.Unresolved("leafresp driver: %s" % u)
    ctx.extra["leaf_response_cases"] = summ["traces"]
    vcore.validate_all(ctx, "LeafResponseTrace", "LeafResponseTrace.cfg", trl, dfs=False)

    def second_response(lines):
        for i, ln in enumerate(lines):
            if '"ev":"Proj"' in ln and '"r1":["' in ln:
                d = json.loads(ln)
                d["sent"]["r1"] = d["sent"]["r1"] + ["result"]
                out = list(lines)
                out[i] = json.dumps(d, separators=(",", ":")) + "\n"
                return out
        return None
    vcore.corrupt_selftest(ctx, "LeafResponseTrace", "LeafResponseTrace.cfg", trl, second_response, "a receiver gets a second response")
    ctx.assumptions += [
        "operators of the plan trees are scripted (ok/err/panic/not-found); the pipeline, state machine, baseStage.Execute/execute, "
        "the plan nodes and the worker pool are the real code",
        "schedules are explored at the granularity of the gates (every operator, NextStages, error handler, and -- when the "
        "gate hook of package query is in the tree -- between the unlock and pending.Dec() of completeStage) plus free-running timing",
    ]
