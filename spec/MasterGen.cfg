CONSTANTS
  ReadFaultGivesUp = TRUE
  Node = {1, 2, 3, 4, 5}
  Db = {"d1", "d2"}
  MaxShards = 6
  MaxRf = 3
  MaxEnv = 40
SPECIFICATION GSpec
CHECK_DEADLOCK FALSE
