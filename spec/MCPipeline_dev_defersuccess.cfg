\* completeStage(stage, nil) deferred at the top of the complete-callback (seeded change C19f): a panic while the next
\* stages are planned / registered completes the stage as a success first and with the error afterwards: must violate
CONSTANTS
  MCTrees <- MCTreesQuick
  WithNextPanic = TRUE
  SuccessOnlyAtEnd = FALSE
  RegisterAtomic = TRUE
  KeepFirstError = TRUE
  RecoverPerStage = TRUE
  FirstErrorWins = TRUE
  ErrReadAtCompletion = TRUE
SPECIFICATION MCSpec
INVARIANTS AtMostOnce OnlyAfterAll ErrorReported ExactlyOnceAtEnd CompletedOnce PendingSane
CHECK_DEADLOCK FALSE
