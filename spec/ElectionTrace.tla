--------------------------- MODULE ElectionTrace ---------------------------
(* Trace validation of the real coordinator/elect.Election objects of three *)
(* nodes over one in-memory repository whose Elect is gated and whose watch  *)
(* events are delivered one at a time by the driver (`vdrive election`).     *)
EXTENDS Election, Json

Trace == ndJsonDeserialize("trace.ndjson")
VARIABLE l
tvars == <<vars, l>>
ASSUME TLCSet(1, 0)
Ev(e) == l <= Len(Trace) /\ Trace[l].ev = e /\ l' = l + 1
Line == Trace[l]

TraceInit == l = 1 /\ Init
TReset ==
  /\ Ev("Reset")
  /\ key' = None /\ evq' = [n \in Node |-> << >>]
  /\ isMaster' = [n \in Node |-> FALSE] /\ cached' = [n \in Node |-> None]
  /\ loop' = [n \in Node |-> "trying"] /\ handler' = [n \in Node |-> "idle"]
  /\ role' = [n \in Node |-> "none"]

\* the result the real repo.Elect returned: success iff nobody owned the key
TElect == Ev("Elect") /\ Line.ok = (key = None) /\ Elect(Line.node)
TLeaseExpire == Ev("LeaseExpire") /\ LeaseExpire
TDelete == Ev("HandleDelete") /\ HandleDelete(Line.node)
TModify == Ev("HandleModify") /\ Head(evq[Line.node]).m = Line.m /\ HandleModify(Line.node, Line.failover)

TProj ==
  /\ Ev("Proj")
  /\ Line.key = key
  /\ \A n \in Node :
       /\ Line.ismaster[n] = isMaster[n]
       /\ Line.cached[n] = cached[n]
       /\ Line.role[n] = role[n]
       /\ Line.loop[n] = loop[n]
       /\ Line.qlen[n] = Len(evq[n])
       /\ handler[n] = "idle"
  /\ UNCHANGED vars

TraceNext == TReset \/ TElect \/ TLeaseExpire \/ TDelete \/ TModify \/ TProj
TraceSpec == TraceInit /\ [][TraceNext]_tvars
HighWater == TLCSet(1, IF l > TLCGet(1) THEN l ELSE TLCGet(1))
TraceAccepted ==
  LET hw == TLCGet(1) IN
  IF hw = Len(Trace) + 1 THEN TRUE
  ELSE /\ PrintT(<<"TRACE-REJECTED-AT-LINE", hw>>)
       /\ FALSE
=============================================================================
