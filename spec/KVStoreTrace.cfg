CONSTANTS
  SwitchCurrentEarly = FALSE
  NoNextFileNumberLog = FALSE
  StoreSnapshotLogsManifest = FALSE
SPECIFICATION TraceSpec
INVARIANTS SnapshotFilesExist NeededFilesExist RecoveredIsCommitted NoPartialVisible ContentIsCommitted AlwaysReopens NoNumberReuse
CONSTRAINT HighWater
POSTCONDITION TraceAccepted
CHECK_DEADLOCK FALSE
