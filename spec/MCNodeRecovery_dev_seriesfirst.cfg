CONSTANTS
  SeriesFirst = TRUE
  CommitSeqBeforeWrite = FALSE
  FreezeBeforeMetaFlush = FALSE
  ExpireOnConsumed = FALSE
  IgnoreOverGap = FALSE
  Writable = FALSE
  AtomicRound = FALSE
  Name = {"m1", "m2"}
  MaxEntries = 3
  MaxCrash = 2
  MaxFlush = 3
SPECIFICATION MCSpec
INVARIANTS SeriesIndexed
CHECK_DEADLOCK FALSE
