CONSTANTS
  ContainerSize = 65536
  Deviation_RegexScansLiteralPrefixOnly = FALSE
  Deviation_FamilyReadAllOrNothing = FALSE
  Deviation_LikeLoneStarPanics = TRUE
  Deviation_ForwardLutNotCumulative = FALSE
  Deviation_NotIgnoresKey = FALSE
SPECIFICATION TraceSpec
INVARIANTS TypeOK SidOK
CONSTRAINT HighWater
POSTCONDITION TraceAccepted
CHECK_DEADLOCK FALSE
