\* the code BEFORE the repair -- must violate AcceptedCanBeDurable (rows accepted by a family whose flushes all fail)
CONSTANTS
  Writer = {w1, w2}
  MaxObj = 3
  MaxFam = 3
  MaxRow = 3
  ClosedSegmentRejects = FALSE
  ClosedFamilyRejects = TRUE
SPECIFICATION Spec
INVARIANTS AcceptedCanBeDurable
CHECK_DEADLOCK FALSE
