CONSTANTS
  DevPartial = FALSE
  DevOrder = FALSE
  DevMulti = FALSE
  DevCompute = FALSE
  DevEmptySeries = FALSE
  DevHide = FALSE
  DevWindow = FALSE
  DevLikeStar = FALSE
  DevSwallow = FALSE
  MCSids = {1, 2}
  MCOffs = {0, 200}
  MCVals = {1, 2}
  MaxRows = 3
  MCIntervals = {0, 600}
  MCCompleteErases = TRUE
  MCTolerantPerTarget = TRUE
  MCShards = 1
SPECIFICATION MCSpec
INVARIANTS C11Placement
CHECK_DEADLOCK FALSE
