----------------------------- MODULE MCKVStore -----------------------------
(* Bounded instance of KVStore: the writers of one store run one at a time   *)
(* (C01 is about crash points; concurrency of readers and writers is C02),   *)
(* a kill may happen between any two file-system operations, recovery        *)
(* included.                                                                  *)
EXTENDS KVStore

CONSTANTS Family, Key, MaxFlush, MaxCompact, MaxCrash, MaxRollup

VARIABLES op, nflush, ncompact, ncrash, nrollup
mcvars == <<vars, op, nflush, ncompact, ncrash, nrollup>>

NoOp == [k |-> "none"]
MCInit == Init /\ op = NoOp /\ nflush = 0 /\ ncompact = 0 /\ ncrash = 0 /\ nrollup = 0
Cnt == UNCHANGED <<nflush, ncompact, ncrash, nrollup>>
Idle == phase = "ready" /\ op = NoOp

\* ---- open / recovery: driven by the phase variable of KVStore
Recovery ==
  /\ \/ OpenBegin
     \/ (phase = "mkman" /\ current = 0 /\ optfams = {} /\ manifests = Empty /\ OptionsWrite({}))   \* brand-new store
     \/ ManifestCreate(mfn)
     \/ \E f \in snapTodo : SnapshotRecord(f)
     \/ StoreRecord \/ CurrentTmpWrite(mfn) \/ CurrentRename
     \/ \E n \in DOMAIN manifests : RemoveManifest(n)
     \/ (phase = "gc" /\ \E t \in tables : RemoveTable(t.fam, t.num))
     \/ (OpenEnd /\ ~\E n \in DOMAIN manifests : n # mfn)
  /\ UNCHANGED op /\ Cnt

CreateFamily ==
  /\ Idle /\ \E f \in Family \ fams : OptionsWrite(optfams \cup {f})
  /\ UNCHANGED op /\ Cnt

\* ---- flush: table create, close, commit (file + sequence + rollup mark in one record), unpend
FlushStart ==
  /\ Idle /\ nflush < MaxFlush
  /\ \E f \in fams, k \in Key, mark \in BOOLEAN :
       /\ TableAllocCreate(f, nfn)
       /\ op' = [k |-> "flush", fam |-> f, num |-> nfn, key |-> k, mark |-> mark /\ nrollup < MaxRollup, step |-> "close"]
  /\ nflush' = nflush + 1 /\ UNCHANGED <<ncompact, ncrash, nrollup>>
FlushClose ==
  /\ op.k = "flush" /\ op.step = "close"
  /\ TableClose(op.fam, op.num, {<<op.key, op.num>>})
  /\ op' = [op EXCEPT !.step = "commit"] /\ Cnt
FlushCommit ==
  /\ op.k = "flush" /\ op.step = "commit"
  /\ Commit(Rec(op.fam, {<<0, op.num>>}, {}, nflush, IF NoNextFileNumberLog THEN 0 ELSE nfn,
                IF op.mark THEN {<<"r", op.num, 1>>} ELSE {}, {}), {<<op.key, op.num>>})
  /\ op' = [op EXCEPT !.step = "unpend"] /\ Cnt
FlushUnpend ==
  /\ op.k = "flush" /\ op.step = "unpend"
  /\ Unpend(op.fam, op.num)
  /\ op' = NoOp /\ Cnt

\* ---- level-0 compaction: move (one file) or merge (all level-0 files + any level-1 files)
L0(f) == {x \in ver[f].files : x[1] = 0}
L1(f) == {x \in ver[f].files : x[1] = 1}
CompactStart ==
  /\ Idle /\ ncompact < MaxCompact
  /\ \E f \in fams :
       /\ L0(f) # {}
       /\ IF Cardinality(L0(f)) = 1 /\ L1(f) = {}
            THEN \* trivial move
                 LET x == CHOOSE y \in L0(f) : TRUE IN
                 /\ Commit(Rec(f, {<<1, x[2]>>}, {x}, -1, IF NoNextFileNumberLog THEN 0 ELSE nfn, {}, {}), {})
                 /\ op' = NoOp
            ELSE \E extra \in SUBSET L1(f) :
                 /\ TableAllocCreate(f, nfn)
                 /\ op' = [k |-> "compact", fam |-> f, num |-> nfn, ins |-> L0(f) \cup extra, step |-> "close"]
  /\ ncompact' = ncompact + 1 /\ UNCHANGED <<nflush, ncrash, nrollup>>
CompactClose ==
  /\ op.k = "compact" /\ op.step = "close"
  /\ TableClose(op.fam, op.num, UNION {TableOf(op.fam, x[2]).content : x \in op.ins})
  /\ op' = [op EXCEPT !.step = "commit"] /\ Cnt
CompactCommit ==
  /\ op.k = "compact" /\ op.step = "commit"
  /\ Commit(Rec(op.fam, {<<1, op.num>>}, op.ins, -1, IF NoNextFileNumberLog THEN 0 ELSE nfn, {}, {}), {})
  /\ op' = [op EXCEPT !.step = "unpend"] /\ Cnt
CompactUnpend ==
  /\ op.k = "compact" /\ op.step = "unpend"
  /\ Unpend(op.fam, op.num)
  /\ op' = [op EXCEPT !.step = "gc"] /\ Cnt
CompactGc ==
  /\ op.k = "compact" /\ op.step = "gc"
  /\ \/ \E t \in tables : t.fam = op.fam /\ RemoveTable(t.fam, t.num) /\ UNCHANGED op
     \/ (UNCHANGED vars /\ op' = NoOp)
  /\ Cnt

\* ---- rollup bookkeeping on the source family: the rollup marks are deleted by one record, then
\* the files they kept alive may be removed
RollupDone ==
  /\ Idle /\ \E f \in fams :
       /\ ver[f].marks # {}
       /\ Commit(Rec(f, {}, {}, -1, IF NoNextFileNumberLog THEN 0 ELSE nfn, {}, ver[f].marks), {})
       /\ op' = [k |-> "compact", fam |-> f, num |-> 0, ins |-> {}, step |-> "gc"]
  /\ nrollup' = nrollup + 1 /\ UNCHANGED <<nflush, ncompact, ncrash>>

MCCrash == Crash /\ ncrash < MaxCrash /\ ncrash' = ncrash + 1 /\ op' = NoOp /\ UNCHANGED <<nflush, ncompact, nrollup>>

MCNext == Recovery \/ CreateFamily \/ FlushStart \/ FlushClose \/ FlushCommit \/ FlushUnpend
          \/ CompactStart \/ CompactClose \/ CompactCommit \/ CompactUnpend \/ CompactGc
          \/ RollupDone \/ MCCrash
MCSpec == MCInit /\ [][MCNext]_mcvars
=============================================================================
