CONSTANTS
  Thread = {t1, t2}
  Name = {n1, n2, n3}
  MaxCalls = 5
  RecheckMem = TRUE
  RecheckDisk = TRUE
  GuardCacheAdd = TRUE
SPECIFICATION Spec
INVARIANTS Stable Injective
CHECK_DEADLOCK FALSE
