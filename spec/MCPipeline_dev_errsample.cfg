\* the error handed to the completion callback is sampled inside the stage's own lock section, before
\* pending.Dec() (instead of being read after pending reached zero): must violate ErrorReported
CONSTANTS
  MCTrees <- MCTreesPair
  WithNextPanic = FALSE
  SuccessOnlyAtEnd = TRUE
  RegisterAtomic = TRUE
  KeepFirstError = TRUE
  RecoverPerStage = TRUE
  FirstErrorWins = TRUE
  ErrReadAtCompletion = FALSE
SPECIFICATION MCSpec
INVARIANTS AtMostOnce OnlyAfterAll OnlyAfterAllStrong ExactlyOnceAtEnd PendingSane ErrorReported CompletedOnce
PROPERTY Terminates
CHECK_DEADLOCK FALSE
