----------------------------- MODULE MCStmtWire -----------------------------
(* Bounded universe of StmtWire: every tree over a small alphabet up to MaxDepth where, at each level, *)
(* one child is any tree of the level below and its siblings come from MCSiblingsAt (every leaf at level *)
(* 1, a few small trees further up), and products of statement clauses.                                *)
EXTENDS StmtWire
CONSTANTS MCMaxDepth

F(n) == [k |-> "field", name |-> n]
N(v) == [k |-> "num", v |-> v]
MCLeaves == {F("a"), F(""), N("1"), N("0.5"),
             [k |-> "eq", key |-> "host", val |-> "h1"], [k |-> "like", key |-> "host", val |-> "*"],
             [k |-> "regex", key |-> "dc", re |-> "^a"], [k |-> "in", key |-> "dc", vals |-> <<"x">>],
             [k |-> "in", key |-> "dc", vals |-> <<"x", "">>]}
MCFuncs == {1, 8}
MCOps == {1, 3, 9}       \* AND, ADD, GREATER
MCAliases == {"", "al"}
Level1 == MCLeaves \cup UNION {Grown(n, MCLeaves) : n \in MCLeaves}
MCSiblingsAt(lvl) == IF lvl = 1 THEN MCLeaves ELSE IF lvl = 2 THEN {F("a"), N("1"), [k |-> "call", f |-> 1, ps |-> <<F("a")>>],
                                                                    [k |-> "eq", key |-> "host", val |-> "h1"]} ELSE {F("a")}

It(e, a) == [k |-> "item", e |-> e, alias |-> a]
Or(e, b) == [k |-> "order", e |-> e, desc |-> b]
Sum(e) == [k |-> "call", f |-> 1, ps |-> <<e>>]
Bin(o, l, r) == [k |-> "bin", op |-> o, l |-> l, r |-> r]
Items == {<<It(F("a"), "")>>, <<It(Sum(F("a")), "s"), It(Bin(6, Sum(F("a")), N("2")), "")>>,
          <<It([k |-> "paren", e |-> Bin(3, F("a"), Sum(Sum(F("b"))))], "x")>>}
Conds == {Nil, [k |-> "eq", key |-> "host", val |-> "h1"],
          Bin(2, [k |-> "not", e |-> [k |-> "in", key |-> "dc", vals |-> <<"a", "b">>]], [k |-> "paren", e |-> [k |-> "like", key |-> "h", val |-> "*"]])}
Havings == {Nil, Bin(9, Sum(F("a")), N("10")), Bin(1, Bin(12, F("a"), N("1")), [k |-> "paren", e |-> Bin(7, F("b"), F("a"))])}
Orders == {<<>>, <<Or(F("a"), TRUE)>>, <<Or(Sum(F("a")), FALSE), Or(F("s"), TRUE)>>}
WholeIntervals == {<<0, 0>>, <<10, 0>>, <<90, 0>>, <<7200, 0>>, <<86400, 0>>, <<45 * 86400, 0>>, <<30 * 86400, 0>>, <<730 * 86400, 0>>}
MCIntervals == IF SubSecond THEN WholeIntervals \cup {<<0, 500>>, <<1, 500>>} ELSE WholeIntervals
Q(ex, ns, it, al, c, rg, iv, siv, ra, au, g, h, o, li) ==
  [k |-> "query", explain |-> ex, ns |-> ns, metric |-> "cpu", items |-> it, all |-> al, cond |-> c,
   from |-> rg[1], to |-> rg[2], iv |-> iv, siv |-> siv, ratio |-> ra, auto |-> au, group |-> g, having |-> h,
   order |-> o, limit |-> li]
Ranges == {<<<<0, 0>>, <<0, 0>>>>, <<<<1562094600, 0>>, <<1562098200, 999>>>>}
\* every combination of the clauses that hold trees, the scalar clauses all at zero / all non-zero ...
ClauseStmts ==
  {Q(b, IF b THEN "ns" ELSE "", it, b, c, rg, IF b THEN <<90, 0>> ELSE <<0, 0>>, IF b THEN <<10, 0>> ELSE <<0, 0>>,
     IF b THEN 9 ELSE 0, b, IF b THEN <<"host", "dc">> ELSE <<>>, h, o, IF b THEN 20 ELSE 0) :
     b \in BOOLEAN, it \in Items \cup {<<>>}, c \in Conds, rg \in Ranges, h \in Havings, o \in Orders}
\* ... and every combination of the scalar clauses around two fixed sets of trees
ScalarStmts ==
  {Q(ex, ns, IF t THEN <<>> ELSE CHOOSE i \in Items : Len(i) = 2, al, IF t THEN Nil ELSE CHOOSE c \in Conds : c # Nil /\ c.k = "bin",
     CHOOSE r \in Ranges : r[1] # <<0, 0>>, iv, siv, ra, au, g, IF t THEN Nil ELSE CHOOSE h \in Havings : h # Nil,
     IF t THEN <<>> ELSE CHOOSE o \in Orders : Len(o) = 2, li) :
     t \in BOOLEAN, ex \in BOOLEAN, ns \in {"", "ns"}, al \in BOOLEAN, iv \in MCIntervals, siv \in {<<0, 0>>, <<10, 0>>},
     ra \in {0, 6}, au \in BOOLEAN, g \in {<<>>, <<"host", "dc">>}, li \in {0, 20}}
MCStmts == ClauseStmts \cup ScalarStmts
\* mode "calls": texts as token sequences (one a prefix of another, one empty, two of equal length)
MCTexts == {<<"a", "b">>, <<"a">>, <<"c", "d">>, <<>>}
=============================================================================
