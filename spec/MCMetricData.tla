--------------------------- MODULE MCMetricData ---------------------------
(* Algebra of the reference merge on a small universe: compacting in any     *)
(* grouping / repeatedly gives what compacting all inputs at once gives, and  *)
(* a rollup of a compacted source equals the rollup of the original files.    *)
EXTENDS MetricData
CONSTANTS Series, Slots, Vals
CONSTANT Types
TypesA == (1 :> "sum") @@ (2 :> "last")
TypesB == (1 :> "min") @@ (2 :> "max")
Cells == [s : Series, f : DOMAIN Types, slot : Slots, v : Vals]
SmallBlocks == {b \in SUBSET Cells : Cardinality(b) <= 2 /\ WellFormed(b)}
VARIABLE bs
Init == bs \in [1..3 -> SmallBlocks]
Next == UNCHANGED bs
Spec == Init /\ [][Next]_bs
S3 == <<bs[1], bs[2], bs[3]>>
\* compaction of {1,2} first, its output compacted with 3 later (level-0 with an overlapping level-1 file)
TwoStep == RefMerge(<<RefMerge(<<bs[1], bs[2]>>, Types), bs[3]>>, Types)
RepeatedCompactionOK == CompactionOK(S3, Types, TwoStep)
OneStepOK == CompactionOK(S3, Types, RefMerge(S3, Types))
\* rollup after compaction = rollup of the original files (ratio 2, base 5)
RollupAfterCompactOK ==
  LET direct == RefMerge(S3, Types) IN
  \A out \in {{[s |-> k[1], f |-> k[2], slot |-> k[3],
               v |-> IF Exact(Types, k[2]) THEN RollupAgg(Types, <<direct>>, k, 5, 2)
                     ELSE (CHOOSE c \in RollupSources(<<direct>>, k, 5, 2) : TRUE).v] : k \in RollupKeys(<<direct>>, 5, 2)}} :
     RollupOK(S3, Types, 5, 2, out)
\* several sources into one target family (ratio 2): the target accumulates one output per rollup job -- the rollup of
\* source family A (files 1, 2; base ba) and, by a later job or pass, of source family B (file 3; base bb, the same
\* family when ba = bb: a later file of it); a reader merges what it finds.  That must be the reference rollup of all
\* three source files at their own bases, each once -- also when A's two files went in by two separate jobs.
MultiSourceOK ==
  \A bp \in {<<5, 5>>, <<5, 6>>} :
    LET ba == bp[1]  bb == bp[2]
        srcs == <<[base |-> ba, blocks |-> <<bs[1], bs[2]>>], [base |-> bb, blocks |-> <<bs[3]>>]>>
        a12 == RefRollup(<<bs[1], bs[2]>>, Types, ba, 2)
        a1 == RefRollup(<<bs[1]>>, Types, ba, 2)
        a2 == RefRollup(<<bs[2]>>, Types, ba, 2)
        b3 == RefRollup(<<bs[3]>>, Types, bb, 2)
    IN /\ MultiRollupOK(srcs, Types, 2, RefMerge(<<a12, b3>>, Types))
       /\ MultiRollupOK(srcs, Types, 2, RefMerge(<<a1, b3, a2>>, Types))
\* ---- the target family's bookkeeping (kv/version/rollup.go referenceFiles, kv/family_rollup.go doRollupWork): a source
\* file that is offered to the target family is rolled in unless its reference key is already recorded there (the
\* reference is committed together with the output).  Three source files: two of family 1 of source store "A" (files
\* 1, 2), one of family 1 of source store "B" (file 1): family ids and file numbers are allocated per source store, so
\* they repeat.  Every file is offered again later (rollup triggered again / repeated after a kill between the target's
\* commit and the source's commit).
SrcFiles(ba, bb) ==
  <<[store |-> "A", fam |-> 1, file |-> 1, base |-> ba, block |-> bs[1]],
    [store |-> "A", fam |-> 1, file |-> 2, base |-> ba, block |-> bs[2]],
    [store |-> "B", fam |-> 1, file |-> 1, base |-> bb, block |-> bs[3]]>>
Offered(fs) == <<fs[1], fs[2], fs[3], fs[1], fs[3], fs[2]>>
FullKey(x) == <<x.store, x.fam, x.file>>
ShortKey(x) == <<x.fam, x.file>>      \* deviation: the reference does not name the source store
NoKey(x) == <<x.store, x.fam, x.file, x.pos>>   \* deviation: nothing is remembered (every offer is new)
TargetAfter(offers, K(_)) ==
  LET o == [i \in 1..Len(offers) |-> [store |-> offers[i].store, fam |-> offers[i].fam, file |-> offers[i].file,
                                      base |-> offers[i].base, block |-> offers[i].block, pos |-> i]]
      acc == SelectSeq(o, LAMBDA x : \A j \in 1..(x.pos - 1) : K(o[j]) # K(x))
  IN RefMerge([i \in 1..Len(acc) |-> RefRollup(<<acc[i].block>>, Types, acc[i].base, 2)], Types)
Bookkeeping(K(_)) ==
  \A bp \in {<<5, 5>>, <<5, 6>>} :
    LET fs == SrcFiles(bp[1], bp[2])
        srcs == <<[base |-> bp[1], blocks |-> <<bs[1], bs[2]>>], [base |-> bp[2], blocks |-> <<bs[3]>>]>>
    IN MultiRollupOK(srcs, Types, 2, TargetAfter(Offered(fs), K))
BookkeepingOK == Bookkeeping(FullKey)
BookkeepingShortKey == Bookkeeping(ShortKey)   \* must be violated (a file of store "B" is taken for one of store "A")
BookkeepingNoKey == Bookkeeping(NoKey)         \* must be violated (a sum counted twice)
=============================================================================
