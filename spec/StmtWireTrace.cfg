CONSTANTS
  Leaves = {}
  Funcs = {}
  Ops = {}
  Aliases = {}
  MaxDepth = 0
  SiblingsAt <- NoneAt
  Stmts = {}
  SubSecond = FALSE
  Modes = {}
  Texts = {}
  Calls = {}
  Lexers = {}
  EarlyRelease = FALSE
SPECIFICATION TraceSpec
CONSTRAINT HighWater
POSTCONDITION TraceAccepted
CHECK_DEADLOCK FALSE
