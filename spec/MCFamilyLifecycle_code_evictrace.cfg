\* code: checks of Evict and Close are separate steps -- must violate EvictOnlyIdle
CONSTANTS
  Leader = {1}
  MaxRow = 2
  MaxObj = 2
  MaxDb = 3
  MaxFail = 1
  MaxRef = 1
  DoubleWindow = FALSE
  CloseLocksFirst = FALSE
  RetryFailed = TRUE
  ClosedRejects = TRUE
  AtomicWrite = TRUE
  RegisterAtGet = TRUE
  AtomicEvict = FALSE
  UniqueStamp = TRUE
  EvictChecksRef = TRUE
  EvictChecksMem = TRUE
  CloseFlushes = TRUE
  AckFrozen = TRUE
SPECIFICATION MCSpec
INVARIANTS EvictOnlyIdle
CHECK_DEADLOCK FALSE
