----------------------------- MODULE BrokerView -----------------------------
(***************************************************************************)
(* Extension module (beyond the listed properties): what a BROKER knows.   *)
(* coordinator/broker/state_manager.go (the broker's cache of database     *)
(* configs, broker nodes and the storage state the master publishes, the   *)
(* answer of GetQueryableReplicas that the query planner uses) and         *)
(* replica/channel_manager.go + channel_database.go (the write channels    *)
(* the broker builds from shard-state notifications).                      *)
(*                                                                         *)
(* Three discovery watchers feed the state manager: database configs,      *)
(* broker nodes, storage state.  Each delivers in order; ACROSS watchers   *)
(* the order is arbitrary (three etcd watches, one event channel), so the  *)
(* model keeps one pending queue per watcher and lets any head be handled. *)
(*                                                                         *)
(* Switches (the values of the code are FALSE):                            *)
(*   RenotifyOnDb   a database-config event re-runs the shard-state        *)
(*                  notification for that database.  The code notifies     *)
(*                  only from the storage-state handler and looks the      *)
(*                  config up there: a state event that overtakes the      *)
(*                  config event of a NEW database finds no config, the    *)
(*                  channel constructor dereferences the nil option, the   *)
(*                  panic ends the whole notification (the handler's       *)
(*                  recover swallows it) -- the database stays without     *)
(*                  write channel until the NEXT storage-state event.      *)
(*   GrowRouting    the routing shard count of a database channel follows  *)
(*                  a grown shard count.  The code fixes it when the       *)
(*                  channel is created: after a growth new shard channels  *)
(*                  exist, rows keep being hashed over the old count.      *)
(*   DropChannel    deleting a database removes its write channel (the     *)
(*                  code keeps it).                                        *)
(***************************************************************************)
EXTENDS Integers, Sequences, FiniteSets, TLC

CONSTANTS Node, Db, Broker, MaxShards, RenotifyOnDb, GrowRouting, DropChannel

VARIABLES
  pendD, pendN, pendS,  \* pending events of the three watchers
  bDbs,                 \* databases the broker has a config of
  bNodes,               \* live broker nodes
  bLive,                \* storage live nodes of the cached storage state
  bShards,              \* [db -> [shard -> [state, leader]]] of the cached storage state
  chans                 \* [db -> [n |-> routing shard count, shards |-> shard ids with a shard channel]]

vars == <<pendD, pendN, pendS, bDbs, bNodes, bLive, bShards, chans>>

Empty == [x \in {} |-> 0]
Put1(f, k, v) == [x \in (DOMAIN f) \cup {k} |-> IF x = k THEN v ELSE f[x]]
Del1(f, k) == [x \in (DOMAIN f) \ {k} |-> f[x]]

\* a storage state as the master publishes it (C18 on the master side): an online shard has an alive leader
ShardStates == [state : {"online", "offline"}, leader : Node \cup {-1}]
WellFormed(live, sh) ==
  \A db \in DOMAIN sh : \A sid \in DOMAIN sh[db] :
     /\ sh[db][sid].state = "online" => sh[db][sid].leader \in live
     /\ sh[db][sid].state = "offline" => sh[db][sid].leader = -1
States == {s \in [live : SUBSET Node,
                  shards : UNION {[D -> UNION {[0..(n - 1) -> ShardStates] : n \in 1..MaxShards}] : D \in SUBSET Db}] :
             WellFormed(s.live, s.shards)}

Init ==
  /\ pendD = << >> /\ pendN = << >> /\ pendS = << >>
  /\ bDbs = {} /\ bNodes = {} /\ bLive = {} /\ bShards = Empty /\ chans = Empty

\* ---- environment
PutDb(db)  == pendD' = Append(pendD, [t |-> "put", db |-> db]) /\ UNCHANGED <<pendN, pendS, bDbs, bNodes, bLive, bShards, chans>>
DropDb(db) == pendD' = Append(pendD, [t |-> "drop", db |-> db]) /\ UNCHANGED <<pendN, pendS, bDbs, bNodes, bLive, bShards, chans>>
BrokerUp(b)   == pendN' = Append(pendN, [t |-> "up", b |-> b]) /\ UNCHANGED <<pendD, pendS, bDbs, bNodes, bLive, bShards, chans>>
BrokerDown(b) == pendN' = Append(pendN, [t |-> "down", b |-> b]) /\ UNCHANGED <<pendD, pendS, bDbs, bNodes, bLive, bShards, chans>>
Publish(s) == pendS' = Append(pendS, s) /\ UNCHANGED <<pendD, pendN, bDbs, bNodes, bLive, bShards, chans>>

\* ---- the channel manager's handler for ONE database of a notification (CreateChannel per shard + SyncShardState)
Synced(ch, db, sh) ==
  LET want == DOMAIN sh
      n == Cardinality(want)
  IN IF db \notin DOMAIN ch
       THEN Put1(ch, db, [n |-> n, shards |-> want])
       ELSE IF n < ch[db].n
         THEN ch        \* "numOfShard < origin": every CreateChannel of the round fails, existing shard channels are synced
         ELSE Put1(ch, db, [n |-> IF GrowRouting THEN n ELSE ch[db].n, shards |-> ch[db].shards \cup want])

\* notification over the databases of a storage state, in SOME order (Go map); a database without config makes the
\* channel constructor panic: the databases after it in that order are not handled (`done` = the ones before it)
Notify(ch, known, sh, done) ==
  LET RECURSIVE F(_, _)
      F(c, S) == IF S = {} THEN c ELSE LET d == CHOOSE x \in S : TRUE IN F(Synced(c, d, sh[d]), S \ {d})
  IN F(ch, done)

\* ---- handlers
ProcDb ==
  /\ pendD # << >>
  /\ LET e == Head(pendD) IN
     /\ bDbs' = IF e.t = "put" THEN bDbs \cup {e.db} ELSE bDbs \ {e.db}
     /\ chans' = IF e.t = "drop"
                   THEN (IF DropChannel /\ e.db \in DOMAIN chans THEN Del1(chans, e.db) ELSE chans)
                   ELSE IF RenotifyOnDb /\ e.db \in DOMAIN bShards THEN Synced(chans, e.db, bShards[e.db]) ELSE chans
  /\ pendD' = Tail(pendD)
  /\ UNCHANGED <<pendN, pendS, bNodes, bLive, bShards>>

ProcNode ==
  /\ pendN # << >>
  /\ LET e == Head(pendN) IN bNodes' = IF e.t = "up" THEN bNodes \cup {e.b} ELSE bNodes \ {e.b}
  /\ pendN' = Tail(pendN)
  /\ UNCHANGED <<pendD, pendS, bDbs, bLive, bShards, chans>>

\* onStorageStateChange: the state is cached FIRST, then the notification runs
ProcState(done) ==
  /\ pendS # << >>
  /\ LET s == Head(pendS)
         all == DOMAIN s.shards
         unknown == all \ bDbs
     IN /\ bLive' = s.live /\ bShards' = s.shards
        /\ done \subseteq all
        \* the databases handled: all of them if every one has its config, else those before the first unknown one
        \* (the repaired design skips a database without config instead of panicking, and catches up at its config event)
        /\ IF unknown = {} THEN done = all
           ELSE IF RenotifyOnDb THEN done = all \ unknown
           ELSE done \subseteq (all \ unknown)
        /\ chans' = Notify(chans, bDbs, s.shards, done)
  /\ pendS' = Tail(pendS)
  /\ UNCHANGED <<pendD, pendN, bDbs, bNodes>>

Next ==
  \/ \E db \in Db : PutDb(db) \/ DropDb(db)
  \/ \E b \in Broker : BrokerUp(b) \/ BrokerDown(b)
  \/ \E s \in States : Publish(s)
  \/ ProcDb \/ ProcNode
  \/ \E done \in SUBSET Db : ProcState(done)

Spec == Init /\ [][Next]_vars

\* ------------------------------------------------------------------ what the broker answers
\* GetQueryableReplicas(db): the error ("nodb" / "nolive" / "noshard") or "ok" and [node -> set of shards]
QueryErr(db) ==
  IF db \notin bDbs THEN "nodb"
  ELSE IF bLive = {} THEN "nolive"
  ELSE IF db \notin DOMAIN bShards \/ DOMAIN bShards[db] = {} THEN "noshard"
  ELSE "ok"
Queryable(db) ==
  LET on == {sid \in DOMAIN bShards[db] : bShards[db][sid].state = "online"}
      leaders == {bShards[db][sid].leader : sid \in on}
  IN [n \in leaders |-> {sid \in on : bShards[db][sid].leader = n}]

\* ------------------------------------------------------------------ properties
Settled == pendD = << >> /\ pendN = << >> /\ pendS = << >>
\* the plan a query gets covers every online shard exactly once and only through live leaders
QueryableCoversOnline ==
  \A db \in bDbs : (bLive # {} /\ db \in DOMAIN bShards /\ DOMAIN bShards[db] # {}) =>
     LET q == Queryable(db) IN
     /\ DOMAIN q \subseteq bLive
     /\ \A n \in DOMAIN q, m \in DOMAIN q : n # m => q[n] \cap q[m] = {}
     /\ UNION {q[n] : n \in DOMAIN q} = {sid \in DOMAIN bShards[db] : bShards[db][sid].state = "online"}
\* when every event is handled, every database the broker knows and the storage state lists can be written to, through
\* a shard channel for each of its shards (the code: violated when the state event overtakes the config event)
Writable ==
  Settled => \A db \in bDbs \cap DOMAIN bShards :
     db \in DOMAIN chans /\ DOMAIN bShards[db] \subseteq chans[db].shards
\* rows are hashed over the current shard count (the code: violated after a growth)
RoutingFollowsCount ==
  Settled => \A db \in (bDbs \cap DOMAIN bShards) \cap DOMAIN chans :
     Cardinality(DOMAIN bShards[db]) >= chans[db].n => chans[db].n = Cardinality(DOMAIN bShards[db])
\* no write channel outlives its database (the code: violated by a drop)
NoOrphanChannel == Settled => DOMAIN chans \subseteq bDbs
=============================================================================
