#!/usr/bin/env python3
"""Condensed view of a TLC counterexample: error lines + per-state diffs (reads TLC output on stdin)."""
import re
import sys

txt = sys.stdin.read()
for m in re.finditer(r"^Error: .*$", txt, re.M):
    print(m.group(0))
states = re.split(r"^State (\d+): ", txt, flags=re.M)
prev = {}
for i in range(1, len(states), 2):
    n, body = states[i], states[i + 1]
    head, _, rest = body.partition("\n")
    rest = rest.split("\n\n")[0]
    cur = {}
    for m in re.finditer(r"^/\\ (\w+) = (.*?)(?=^/\\ |\Z)", rest, re.M | re.S):
        cur[m.group(1)] = " ".join(m.group(2).split())
    print("State %s: %s" % (n, head.strip()[:90]))
    for k in sorted(cur):
        if prev.get(k) != cur[k]:
            print("    %s = %s" % (k, cur[k][:400]))
    prev = cur
m = re.search(r"\d+ states generated.*", txt)
if m:
    print(m.group(0))
