package main

// vdrive stmtwire -- property C17 (module StmtWire).
//
// Derives statements from the query grammar (seeded, nesting bound), parses them with the real
// sql.Parse, sends them over the real wire form (stmt.Query.MarshalJSON -> UnmarshalJSON, the
// payload RootMetricContext.MakePlan really builds, stmt.Marshal / stmt.Unmarshal on expression
// trees) and records PROJECTIONS of the real statement trees; TLC judges every event against
// spec/StmtWire.tla (spec/StmtWireTrace.tla): the tree after the wire must be the tree before it,
// a second parse must give the same tree, and the real bytes of an expression must be the
// specified tagged envelope of its tree.
//
// Projection of a tree node: {"k": kind, ...children}; nil and empty slices both project to [] (the
// JSON form cannot distinguish them); a float64 projects to its shortest round-trip decimal string;
// int64 millisecond instants project to [seconds, ms], intervals to [days, ms of day].
//
// Overlapping parse calls (parse determinism: the statement is a function of the text, whatever other
// calls are in flight): a fixed, seeded list of texts is parsed sequentially (ParseRef: what each text
// means) and then by several goroutines at once (ParseBegin / ParseEnd per call, in the order of a
// shared counter read right before / right after the call); TLC compares every result with the
// sequential one.  Variants: one P (goroutines interleave by preemption only), two Ps with a goroutine
// forcing GC cycles (every cycle stops the world: many more preemptions and moves between Ps), all Ps.
// Which interleavings occur there is up to the scheduler; the scripted form -- a second Parse started
// INSIDE the first one, on the same goroutine -- needs the parser seam of package sql (a `verif` hook)
// and lives in stmtwire_overlap.go (swOverlapLeg).

import (
	"bytes"
	"context"
	"encoding/json"
	"flag"
	"fmt"
	"math/rand"
	"os"
	"runtime"
	"sort"
	"strconv"
	"strings"
	"sync"
	"sync/atomic"
	"time"

	"github.com/lindb/lindb/aggregation/function"
	"github.com/lindb/lindb/models"
	"github.com/lindb/lindb/pkg/option"
	"github.com/lindb/lindb/pkg/timeutil"
	querycontext "github.com/lindb/lindb/query/context"
	"github.com/lindb/lindb/sql"
	"github.com/lindb/lindb/sql/stmt"

	"verif/harness/internal/trace"
)

func init() { register("stmtwire", stmtwireMain) }

// ---------------------------------------------------------------- projection
func swNum(f float64) string { return strconv.FormatFloat(f, 'g', -1, 64) }

func swMs(ms int64) []int64 {
	if ms < 0 {
		return []int64{-((-ms) / 1000), -((-ms) % 1000)}
	}
	return []int64{ms / 1000, ms % 1000}
}

// an interval (ms) as [days, ms of day]: years of seconds do not fit TLC's 32-bit integers
func swIv(ms int64) []int64 {
	if ms < 0 {
		return []int64{-((-ms) / 86400000), -((-ms) % 86400000)}
	}
	return []int64{ms / 86400000, ms % 86400000}
}

func swStrs(s []string) []string {
	if s == nil {
		return []string{}
	}
	return s
}

func swExprs(es []stmt.Expr) []any {
	out := []any{}
	for _, e := range es {
		out = append(out, swExpr(e))
	}
	return out
}

func swIsNil(e stmt.Expr) bool {
	if e == nil {
		return true
	}
	switch x := e.(type) {
	case *stmt.FieldExpr:
		return x == nil
	case *stmt.NumberLiteral:
		return x == nil
	case *stmt.CallExpr:
		return x == nil
	case *stmt.ParenExpr:
		return x == nil
	case *stmt.BinaryExpr:
		return x == nil
	case *stmt.EqualsExpr:
		return x == nil
	case *stmt.LikeExpr:
		return x == nil
	case *stmt.RegexExpr:
		return x == nil
	case *stmt.InExpr:
		return x == nil
	case *stmt.NotExpr:
		return x == nil
	case *stmt.SelectItem:
		return x == nil
	case *stmt.OrderByExpr:
		return x == nil
	}
	return false
}

func swExpr(e stmt.Expr) any {
	if swIsNil(e) {
		return map[string]any{"k": "nil"}
	}
	switch x := e.(type) {
	case *stmt.FieldExpr:
		return map[string]any{"k": "field", "name": x.Name}
	case *stmt.NumberLiteral:
		return map[string]any{"k": "num", "v": swNum(x.Val)}
	case *stmt.CallExpr:
		return map[string]any{"k": "call", "f": int(x.FuncType), "ps": swExprs(x.Params)}
	case *stmt.ParenExpr:
		return map[string]any{"k": "paren", "e": swExpr(x.Expr)}
	case *stmt.BinaryExpr:
		return map[string]any{"k": "bin", "op": int(x.Operator), "l": swExpr(x.Left), "r": swExpr(x.Right)}
	case *stmt.EqualsExpr:
		return map[string]any{"k": "eq", "key": x.Key, "val": x.Value}
	case *stmt.LikeExpr:
		return map[string]any{"k": "like", "key": x.Key, "val": x.Value}
	case *stmt.RegexExpr:
		return map[string]any{"k": "regex", "key": x.Key, "re": x.Regexp}
	case *stmt.InExpr:
		return map[string]any{"k": "in", "key": x.Key, "vals": swStrs(x.Values)}
	case *stmt.NotExpr:
		return map[string]any{"k": "not", "e": swExpr(x.Expr)}
	case *stmt.SelectItem:
		return map[string]any{"k": "item", "e": swExpr(x.Expr), "alias": x.Alias}
	case *stmt.OrderByExpr:
		return map[string]any{"k": "order", "e": swExpr(x.Expr), "desc": x.Desc}
	default:
		return map[string]any{"k": "other", "t": fmt.Sprintf("%T", e)}
	}
}

func swQuery(q *stmt.Query) map[string]any {
	return map[string]any{"k": "query", "explain": q.Explain, "ns": q.Namespace, "metric": q.MetricName,
		"items": swExprs(q.SelectItems), "all": q.AllFields, "cond": swExpr(q.Condition),
		"from": swMs(q.TimeRange.Start), "to": swMs(q.TimeRange.End),
		"iv": swIv(q.Interval.Int64()), "siv": swIv(q.StorageInterval.Int64()), "ratio": q.IntervalRatio, "auto": q.AutoGroupByTime,
		"group": swStrs(q.GroupBy), "having": swExpr(q.Having), "order": swExprs(q.OrderByItems), "limit": q.Limit}
}

func swMeta(q *stmt.MetricMetadata) map[string]any {
	return map[string]any{"k": "meta", "ns": q.Namespace, "metric": q.MetricName, "type": int(q.Type), "tagkey": q.TagKey,
		"prefix": q.Prefix, "cond": swExpr(q.Condition), "limit": q.Limit}
}

func swStmt(s stmt.Statement) map[string]any {
	switch x := s.(type) {
	case *stmt.Query:
		return swQuery(x)
	case *stmt.MetricMetadata:
		return swMeta(x)
	}
	return map[string]any{"k": "otherstmt", "t": fmt.Sprintf("%T", s)}
}

// the real bytes of stmt.Marshal as a JSON value TLC can read: null -> [] (the empty list), the number under the
// key "val" -> its shortest decimal string (as in the projection); nothing else is touched
func swWire(b []byte) (any, error) {
	if len(b) == 0 {
		return "<empty>", nil
	}
	dec := json.NewDecoder(bytes.NewReader(b))
	dec.UseNumber()
	var v any
	if err := dec.Decode(&v); err != nil {
		return nil, err
	}
	var walk func(key string, v any) any
	walk = func(key string, v any) any {
		switch x := v.(type) {
		case nil:
			return []any{}
		case json.Number:
			if key == "val" {
				f, err := strconv.ParseFloat(x.String(), 64)
				if err != nil {
					return "<badnumber:" + x.String() + ">"
				}
				return swNum(f)
			}
			n, err := strconv.ParseInt(x.String(), 10, 32)
			if err != nil {
				return "<number:" + x.String() + ">"
			}
			return n
		case map[string]any:
			out := map[string]any{}
			for k, c := range x {
				out[k] = walk(k, c)
			}
			return out
		case []any:
			out := []any{}
			for _, c := range x {
				out = append(out, walk("", c))
			}
			return out
		}
		return v
	}
	return walk("", v), nil
}

// ---------------------------------------------------------------- grammar derivations (text)
type swGen struct {
	rng   *rand.Rand
	depth int
	// names seen in the select list (order by must refer to them)
	selFields []string
	selCalls  []string
}

var (
	swIdents   = []string{"f", "usage", "cpu.load", "mem_used", "'free space'", "a1", "Idle", "`q`", "host", "dc", "_sys", "$v1", "@at"}
	swTagKeys  = []string{"host", "dc", "node_name", "ip", "zone.id"}
	swTagVals  = []string{"'h1'", "h2", "'a b'", "'1.1.1.1'", "'*web*'", "'^a.*z$'", "'db-1'", "'中文'", "'x\"y'", "'<&>'", "'a\\\\b'", "''",
		// control characters and non-printable runes: JSON and Go quote them differently
		"'web\x7f01'", "'a\x1bb'", "'bell\a'", "'v\vt'", "'u\x1f'", "'\U000e0001tag'", "'ls\u2028'", "'nul\x00'"}
	swFuncs    = []string{"sum", "min", "max", "avg", "count", "last", "first", "stddev", "quantile", "rate", "SUM", "Max"}
	swOrdFuncs = []string{"sum", "min", "max", "avg", "count", "last", "first", "stddev"}
	swUnits    = []string{"s", "m", "h", "d", "w", "M", "y", "S", "H", "D"}
)

func (g *swGen) pick(l []string) string { return l[g.rng.Intn(len(l))] }

func (g *swGen) number() string {
	switch g.rng.Intn(6) {
	case 0:
		return strconv.Itoa(g.rng.Intn(100))
	case 1:
		return fmt.Sprintf("%d.%d", g.rng.Intn(1000), g.rng.Intn(1000))
	case 2:
		return "0.99"
	case 3:
		return "-" + strconv.Itoa(1+g.rng.Intn(9))
	case 4:
		return fmt.Sprintf("%d.%02d", g.rng.Intn(3), g.rng.Intn(100))
	default:
		return strconv.FormatInt(g.rng.Int63n(1<<40), 10)
	}
}

func (g *swGen) duration() string { return strconv.Itoa(1+g.rng.Intn(90)) + g.pick(swUnits) }

func (g *swGen) tagFilter(d int) string {
	if d > 0 && g.rng.Intn(3) == 0 {
		switch g.rng.Intn(3) {
		case 0:
			return "(" + g.tagFilter(d-1) + ")"
		case 1:
			return g.tagFilter(d-1) + " and " + g.tagFilter(d-1)
		default:
			return g.tagFilter(d-1) + " or " + g.tagFilter(d-1)
		}
	}
	k := g.pick(swTagKeys)
	switch g.rng.Intn(9) {
	case 0:
		return k + " like " + g.pick(swTagVals)
	case 1:
		return k + " not like " + g.pick(swTagVals)
	case 2:
		return k + " =~ " + g.pick(swTagVals)
	case 3:
		return k + " !~ " + g.pick(swTagVals)
	case 4:
		return k + " != " + g.pick(swTagVals)
	case 5:
		return k + " <> " + g.pick(swTagVals)
	case 6, 7:
		vs := []string{}
		for i := 0; i <= g.rng.Intn(3); i++ {
			vs = append(vs, g.pick(swTagVals))
		}
		not := ""
		if g.rng.Intn(3) == 0 {
			not = " not"
		}
		return k + not + " in (" + strings.Join(vs, ",") + ")"
	default:
		return k + "=" + g.pick(swTagVals)
	}
}

// fieldExpr of the grammar; top: a select item / sort field (so that names can be remembered)
func (g *swGen) fieldExpr(d int, odd bool) string {
	if d <= 0 || g.rng.Intn(4) == 0 {
		switch g.rng.Intn(12) {
		case 0, 1:
			return g.number()
		case 2:
			if odd {
				return g.pick(swIdents) + "[" + g.tagFilter(1) + "]"
			}
		case 3:
			if odd {
				return g.duration()
			}
		}
		return g.pick(swIdents)
	}
	switch g.rng.Intn(7) {
	case 0:
		return "(" + g.fieldExpr(d-1, odd) + ")"
	case 1, 2:
		return g.fieldExpr(d-1, odd) + g.pick([]string{"+", "-", "*", "/", " + ", " / "}) + g.fieldExpr(d-1, odd)
	default:
		n := g.rng.Intn(3)
		if g.rng.Intn(8) > 0 && n == 0 {
			n = 1
		}
		ps := []string{}
		for i := 0; i < n; i++ {
			if odd && g.rng.Intn(10) == 0 {
				ps = append(ps, g.tagFilter(1))
			} else {
				ps = append(ps, g.fieldExpr(d-1, odd))
			}
		}
		return g.pick(swFuncs) + "(" + strings.Join(ps, ",") + ")"
	}
}

func (g *swGen) boolExpr(d int, odd bool) string {
	if d > 0 && g.rng.Intn(3) == 0 {
		switch g.rng.Intn(3) {
		case 0:
			return "(" + g.boolExpr(d-1, odd) + ")"
		case 1:
			return g.boolExpr(d-1, odd) + " and " + g.boolExpr(d-1, odd)
		default:
			return g.boolExpr(d-1, odd) + " or " + g.boolExpr(d-1, odd)
		}
	}
	op := g.pick([]string{"=", "!=", "<>", "<", "<=", ">", ">=", " like ", "=~"})
	return g.fieldExpr(d-1, odd) + op + g.fieldExpr(d-1, odd)
}

var swAbsTimes = []string{"'20190702 19:10:00'", "'2019-07-02 20:10:00'", "'2020/02/29 00:00:00'", "'20240101 00:00:00'"}

// returns the text and whether the time range is absolute at both ends
func (g *swGen) query(odd bool) (string, bool) {
	var sb strings.Builder
	if g.rng.Intn(10) == 0 {
		sb.WriteString("explain ")
	}
	// select list
	g.selFields, g.selCalls = nil, nil
	items := []string{}
	if g.rng.Intn(15) == 0 {
		items = append(items, "*")
	} else {
		for i := 0; i <= g.rng.Intn(3); i++ {
			var it string
			switch g.rng.Intn(4) {
			case 0:
				f := g.pick(swIdents)
				g.selFields = append(g.selFields, f)
				it = f
			case 1:
				f := g.pick(swIdents)
				fn := g.pick(swOrdFuncs)
				g.selFields = append(g.selFields, f)
				g.selCalls = append(g.selCalls, fn+"("+f+")")
				it = fn + "(" + f + ")"
			default:
				it = g.fieldExpr(g.depth, odd)
			}
			if g.rng.Intn(4) == 0 {
				al := g.pick([]string{"a", "total", "'my alias'", "x1"})
				it += " as " + al
				g.selFields = append(g.selFields, al)
			}
			items = append(items, it)
		}
	}
	from := "from " + g.pick([]string{"cpu", "'system.cpu'", "'disk usage'", "m1", "a.b.c"})
	if g.rng.Intn(4) == 0 {
		from += " on " + g.pick([]string{"ns", "'default-ns'", "n1"})
	}
	if g.rng.Intn(5) == 0 {
		sb.WriteString(from + " select " + strings.Join(items, ","))
	} else {
		sb.WriteString("select " + strings.Join(items, ", ") + " " + from)
	}
	// where
	abs := false
	timeRange := func() string {
		switch g.rng.Intn(4) {
		case 0:
			abs = true
			return "time>" + swAbsTimes[0] + " and time<" + g.pick(swAbsTimes[1:])
		case 1:
			abs = true
			return "time >= " + swAbsTimes[g.rng.Intn(2)] + " and time <= " + swAbsTimes[2+g.rng.Intn(2)]
		case 2:
			return "time>now()-" + g.duration()
		default:
			return "time > now()-" + g.duration() + " and time < now()"
		}
	}
	switch g.rng.Intn(6) {
	case 0:
	case 1:
		sb.WriteString(" where " + g.tagFilter(g.depth))
	case 2:
		sb.WriteString(" where " + g.tagFilter(g.depth) + " and " + timeRange())
	case 3:
		sb.WriteString(" where " + timeRange())
	default:
		sb.WriteString(" where " + timeRange() + " and " + g.tagFilter(g.depth))
	}
	// group by
	if g.rng.Intn(2) == 0 {
		keys := []string{}
		for i := 0; i <= g.rng.Intn(3); i++ {
			switch g.rng.Intn(5) {
			case 0:
				keys = append(keys, "time("+g.duration()+")")
			case 1:
				keys = append(keys, "time()")
			default:
				keys = append(keys, g.pick(swTagKeys))
			}
		}
		if g.rng.Intn(5) == 0 {
			// several distinct tag keys with one of them listed twice
			keys = keys[:0]
			perm := g.rng.Perm(len(swTagKeys))
			n := 3
			if len(perm) < n {
				n = len(perm)
			}
			for _, i := range perm[:n] {
				keys = append(keys, swTagKeys[i])
			}
			keys = append(keys, keys[g.rng.Intn(len(keys))])
		}
		sb.WriteString(" group by " + strings.Join(keys, ","))
		if g.rng.Intn(6) == 0 {
			sb.WriteString(" fill(" + g.pick([]string{"previous", "0", "1.5"}) + ")")
		}
		if g.rng.Intn(3) == 0 {
			sb.WriteString(" having " + g.boolExpr(g.depth, odd))
		}
	}
	// order by
	if g.rng.Intn(3) == 0 && (len(g.selFields) > 0 || odd) {
		sorts := []string{}
		for i := 0; i <= g.rng.Intn(2); i++ {
			var s string
			switch {
			case odd && g.rng.Intn(4) == 0:
				s = g.fieldExpr(g.depth, odd)
			case len(g.selCalls) > 0 && g.rng.Intn(2) == 0:
				s = g.pick(g.selCalls)
				if g.rng.Intn(3) == 0 {
					s = g.pick(swOrdFuncs) + "(" + s + ")"
				}
			case len(g.selFields) > 0:
				s = g.pick(g.selFields)
				if g.rng.Intn(3) == 0 {
					s = g.pick(swOrdFuncs) + "(" + s + ")"
				}
			default:
				s = g.pick(swIdents)
			}
			s += g.pick([]string{"", " asc", " desc", " DESC", " desc asc"})
			sorts = append(sorts, s)
		}
		sb.WriteString(" order by " + strings.Join(sorts, ","))
	}
	if g.rng.Intn(3) == 0 {
		sb.WriteString(" limit " + strconv.Itoa(g.rng.Intn(2000)))
	}
	return sb.String(), abs
}

func (g *swGen) metadata() string {
	from := "from " + g.pick([]string{"cpu", "'system.cpu'", "m1"})
	if g.rng.Intn(3) == 0 {
		from += " on " + g.pick([]string{"ns", "'default-ns'"})
	}
	lim := ""
	if g.rng.Intn(2) == 0 {
		lim = " limit " + strconv.Itoa(g.rng.Intn(500))
	}
	switch g.rng.Intn(6) {
	case 0:
		return "show namespaces where namespace=" + g.pick([]string{"abc", "'n s'"}) + lim
	case 1:
		return "show metrics on ns1 where metric=" + g.pick([]string{"cp", "'sys.'"}) + lim
	case 2:
		return "show fields " + from
	case 3:
		return "show tag keys " + from
	default:
		w := ""
		if g.rng.Intn(2) == 0 {
			w = " where " + g.tagFilter(g.depth)
		}
		return "show tag values " + from + " with key=" + g.pick(swTagKeys) + w + lim
	}
}

// ---------------------------------------------------------------- expression trees built directly
var swStrings = []string{"f", "", "a b", "x\"y", "中文", "<&>", "a\\b", "line\nbreak", "tab\t", "{\"type\":\"field\"}", "null", "*",
	"del\x7f", "\x1b[0m", "\a\v\f\b", "\U000e0001", "\u2028\u2029", "\x00", "\x1f"}

func (g *swGen) str() string { return swStrings[g.rng.Intn(len(swStrings))] }

func (g *swGen) float() float64 {
	switch g.rng.Intn(8) {
	case 0:
		return 0
	case 1:
		return float64(g.rng.Intn(1000))
	case 2:
		return -float64(g.rng.Intn(1000)) / 8
	case 3:
		return 0.1
	case 4:
		return 1e21
	case 5:
		return 5e-324
	case 6:
		return float64(g.rng.Int63())
	default:
		return g.rng.NormFloat64() * 1e3
	}
}

// any expression kind anywhere (the statement model does not restrict nesting; the planner may build such trees)
func (g *swGen) tree(d int) stmt.Expr {
	if d <= 0 || g.rng.Intn(5) == 0 {
		switch g.rng.Intn(7) {
		case 0:
			return &stmt.NumberLiteral{Val: g.float()}
		case 1:
			return &stmt.EqualsExpr{Key: g.str(), Value: g.str()}
		case 2:
			return &stmt.LikeExpr{Key: g.str(), Value: g.str()}
		case 3:
			return &stmt.RegexExpr{Key: g.str(), Regexp: g.str()}
		case 4:
			vs := []string{}
			for i := 0; i <= g.rng.Intn(3); i++ {
				vs = append(vs, g.str())
			}
			return &stmt.InExpr{Key: g.str(), Values: vs}
		default:
			return &stmt.FieldExpr{Name: g.str()}
		}
	}
	switch g.rng.Intn(8) {
	case 0:
		return &stmt.ParenExpr{Expr: g.tree(d - 1)}
	case 1:
		return &stmt.NotExpr{Expr: g.tree(d - 1)}
	case 2, 3:
		return &stmt.BinaryExpr{Left: g.tree(d - 1), Right: g.tree(d - 1), Operator: stmt.BinaryOP(1 + g.rng.Intn(14))}
	case 4:
		return &stmt.SelectItem{Expr: g.tree(d - 1), Alias: g.str()}
	case 5:
		return &stmt.OrderByExpr{Expr: g.tree(d - 1), Desc: g.rng.Intn(2) == 0}
	default:
		c := &stmt.CallExpr{FuncType: function.FuncType(g.rng.Intn(11))}
		for i := 0; i < g.rng.Intn(4); i++ {
			c.Params = append(c.Params, g.tree(d-1))
		}
		return c
	}
}

// ---------------------------------------------------------------- events
// statements whose range lies after this instant took it from the clock (the absolute times the
// generator uses are all before 2025)
var swClockFloor = time.Date(2025, 1, 1, 0, 0, 0, 0, time.UTC).UnixMilli()

// a missing child somewhere in a projected statement (cond / having may be absent as a whole)
func swHasNil(a map[string]any) bool {
	var has func(v any) bool
	has = func(v any) bool {
		switch x := v.(type) {
		case map[string]any:
			if x["k"] == "nil" {
				return true
			}
			for _, c := range x {
				if has(c) {
					return true
				}
			}
		case []any:
			for _, c := range x {
				if has(c) {
					return true
				}
			}
		}
		return false
	}
	for k, v := range a {
		if m, ok := v.(map[string]any); ok && (k == "cond" || k == "having") && m["k"] == "nil" {
			continue
		}
		if has(v) {
			return true
		}
	}
	return false
}

type swRun struct {
	nilRec   *trace.Recorder
	nilChild int
	nilMax   int
	rec      *trace.Recorder
	sum      *trace.Summary
	kind     map[string]int
	errs     map[string]int
	parsed   int
	failed   int
	// per run of the concurrent leg: calls, and calls with another call's begin or end between their own begin and end
	conc []map[string]any
	// scripted overlap histories: windows of a call in which at least one further call ran
	overlapWindows int
}

func (r *swRun) exprWire(e stmt.Expr) {
	a := swExpr(e)
	raw := stmt.Marshal(e)
	w, werr := swWire(raw)
	if werr != nil {
		w = "<unreadable:" + werr.Error() + ">"
	}
	back, err := stmt.Unmarshal(raw)
	f := trace.F{"a": a, "w": w, "err": ""}
	if err != nil {
		f["err"] = err.Error()
		f["b"] = map[string]any{"k": "nil"}
	} else {
		f["b"] = swExpr(back)
	}
	r.rec.Emit("ExprWire", f)
	r.kind["ExprWire"]++
}

func (r *swRun) stmtWire(ev string, s stmt.Statement, payload []byte) {
	a := swStmt(s)
	f := trace.F{"a": a, "err": ""}
	var err error
	switch x := s.(type) {
	case *stmt.Query:
		if payload == nil {
			payload, err = x.MarshalJSON()
		}
		back := &stmt.Query{}
		if err == nil {
			err = back.UnmarshalJSON(payload) // what query/leaf_processor.go does with the payload
		}
		f["b"] = swQuery(back)
	case *stmt.MetricMetadata:
		payload, err = x.MarshalJSON()
		back := &stmt.MetricMetadata{}
		if err == nil {
			err = back.UnmarshalJSON(payload)
		}
		f["b"] = swMeta(back)
	default:
		return
	}
	if err != nil {
		f["err"] = err.Error()
	}
	r.rec.Emit(ev, f)
	r.kind[ev]++
}

func (r *swRun) statement(text string, abs bool, rng *rand.Rand) {
	s1, err1 := sql.Parse(text)
	s2, err2 := sql.Parse(text)
	if err1 != nil || err2 != nil {
		r.failed++
		e1, e2 := "", ""
		if err1 != nil {
			e1 = "error"
			k := err1.Error()
			if len(k) > 40 {
				k = k[:40]
			}
			r.errs[k]++
		}
		if err2 != nil {
			e2 = "error"
		}
		// determinism also covers rejection: both parses must agree
		r.rec.Emit("ParseError", trace.F{"text": text, "e1": e1, "e2": e2})
		r.kind["ParseError"]++
		return
	}
	r.parsed++
	if q, ok := s1.(*stmt.Query); ok && (q.TimeRange.Start > swClockFloor || q.TimeRange.End > swClockFloor) {
		abs = false // the parser took (part of) the range from the clock
	}
	if a := swStmt(s1); swHasNil(a) {
		// the parser built a tree with a missing child: goes to the separate file (one small trace per statement)
		r.nilChild++
		if r.nilRec != nil && r.nilChild <= r.nilMax {
			main := r.rec
			r.rec = r.nilRec
			r.rec.Reset(trace.F{"kind": "nilchild"})
			r.rec.Emit("Parse", trace.F{"text": text, "abs": abs, "a": a, "a2": swStmt(s2)})
			r.stmtWire("Wire", s1, nil)
			r.rec = main
			if r.nilChild == 1 {
				r.sum.Samples = append(r.sum.Samples, map[string]any{"statement_with_missing_child": text})
			}
		}
		return
	}
	r.rec.Emit("Parse", trace.F{"text": text, "abs": abs, "a": swStmt(s1), "a2": swStmt(s2)})
	r.kind["Parse"]++
	if len(r.sum.Samples) < 3 {
		r.sum.Samples = append(r.sum.Samples, map[string]any{"statement": text})
	}
	r.stmtWire("Wire", s1, nil)
	q, ok := s1.(*stmt.Query)
	if !ok {
		return
	}
	// every expression of the statement also goes over the expression-level wire
	for _, e := range q.SelectItems {
		r.exprWire(e)
	}
	for _, e := range q.OrderByItems {
		r.exprWire(e)
	}
	if q.Condition != nil {
		r.exprWire(q.Condition)
	}
	if q.Having != nil {
		r.exprWire(q.Having)
	}
	// the root plans the statement (interval, storage interval, ratio, truncated range) and sends it
	if rng.Intn(2) == 0 {
		opts := option.Intervals{{Interval: timeutil.Interval(10_000)}, {Interval: timeutil.Interval(300_000)}, {Interval: timeutil.Interval(3_600_000)}}
		ctx := querycontext.NewRootMetricContext(&querycontext.RootMetricContextDeps{
			Ctx: context.Background(), Request: &models.Request{RequestID: "r"}, Database: "db",
			CurrentNode: models.StatelessNode{HostIP: "1.1.1.2", GRPCPort: 9000}, Statement: q,
			Choose: &txChooser{cfg: models.Database{Name: "db", Option: &option.DatabaseOption{Intervals: opts[:1+rng.Intn(3)]}}},
		})
		if err := ctx.MakePlan(); err != nil {
			r.sum.Unresolved = append(r.sum.Unresolved, "MakePlan: "+err.Error())
			return
		}
		for _, req := range ctx.GetRequests() {
			r.stmtWire("PlanWire", q, req.Payload)
		}
	}
}

// ---------------------------------------------------------------- overlapping parse calls
// one text of the fixed list, and whether it gives an absolute time range at both ends (else the clock is an input)
type swText struct {
	text string
	abs  bool
}

// the scripted overlap histories (a Parse started inside another Parse through the parser seam of package sql);
// set by stmtwire_overlap.go, which needs the `verif` hook sql.VerifSetSQLParserFunc
var swOverlapLeg func(r *swRun, texts []swText, rng *rand.Rand)

// what one sql.Parse returned, as the trace shows it: the projection of the statement, or an error
func swResult(s stmt.Statement, err error, panicked any) map[string]any {
	if panicked != nil {
		return map[string]any{"k": "panic"}
	}
	if err != nil {
		return map[string]any{"k": "error"}
	}
	return swStmt(s)
}

// a seeded list of distinct texts from the grammar (queries with absolute and clock-relative ranges, odd
// productions, metadata statements; texts the parser rejects stay in: rejection is a result too)
func swTextList(seed int64, depth, n int) []swText {
	g := &swGen{rng: rand.New(rand.NewSource(seed*7919 + 17)), depth: depth}
	seen := map[string]bool{}
	out := []swText{}
	for tries := 0; len(out) < n && tries < 50*n; tries++ {
		t := swText{abs: true}
		if tries%6 == 5 {
			t.text = g.metadata()
		} else {
			t.text, t.abs = g.query(tries%5 == 4)
		}
		if !seen[t.text] {
			seen[t.text] = true
			out = append(out, t)
		}
	}
	return out
}

// one sequential parse (no call in flight)
func (r *swRun) parseRef(t *swText) {
	s, err := sql.Parse(t.text)
	if q, ok := s.(*stmt.Query); ok && err == nil && (q.TimeRange.Start > swClockFloor || q.TimeRange.End > swClockFloor) {
		t.abs = false // the parser took (part of) the range from the clock
	}
	r.rec.Emit("ParseRef", trace.F{"text": t.text, "abs": t.abs, "r": swResult(s, err, nil)})
	r.kind["ParseRef"]++
}

// one call of sql.Parse between two readings of the shared counter
type swCall struct {
	id, text   int
	begin, end int64
	s          stmt.Statement
	err        error
	panicked   any
}

func (c *swCall) run(text string, clock *atomic.Int64) {
	c.begin = clock.Add(1)
	func() {
		defer func() {
			if p := recover(); p != nil {
				c.panicked = p
			}
		}()
		c.s, c.err = sql.Parse(text)
	}()
	c.end = clock.Add(1)
}

// workers goroutines parse the list iters times each (every goroutine starts at another text); procs > 0 sets
// GOMAXPROCS for the run; churn adds a goroutine that forces GC cycles (every cycle preempts whoever runs)
func (r *swRun) concurrent(texts []swText, procs, workers, iters int, churn bool) {
	r.rec.Reset(trace.F{"kind": "concurrent", "procs": procs, "workers": workers, "iters": iters, "churn": churn})
	for i := range texts {
		r.parseRef(&texts[i])
		r.parseRef(&texts[i])
	}
	per := iters * len(texts)
	calls := make([][]swCall, workers)
	var (
		clock atomic.Int64
		done  atomic.Bool
		wg    sync.WaitGroup
		cwg   sync.WaitGroup
	)
	start := make(chan struct{})
	set := procs
	if procs > 0 {
		procs = runtime.GOMAXPROCS(procs)
	}
	for w := 0; w < workers; w++ {
		calls[w] = make([]swCall, per)
		wg.Add(1)
		go func(w int) {
			defer wg.Done()
			<-start
			for i := range calls[w] {
				c := &calls[w][i]
				c.id, c.text = w*per+i+1, (i+w*3)%len(texts)
				c.run(texts[c.text].text, &clock)
			}
		}(w)
	}
	if churn {
		cwg.Add(1)
		go func() {
			defer cwg.Done()
			<-start
			for !done.Load() {
				runtime.GC()
			}
		}()
	}
	t0 := time.Now()
	close(start)
	wg.Wait()
	took := time.Since(t0)
	done.Store(true)
	cwg.Wait()
	if procs > 0 {
		runtime.GOMAXPROCS(procs)
	}
	info := map[string]any{"procs": runtime.GOMAXPROCS(0), "churn": churn, "calls": workers * per, "ms": took.Milliseconds()}
	if set > 0 {
		info["procs"] = set
	}
	info["overlapped"] = r.emitCalls(texts, calls)
	r.conc = append(r.conc, info)
}

// the calls as ParseBegin / ParseEnd events in the order of the shared counter
func (r *swRun) emitCalls(texts []swText, calls [][]swCall) (overlapped int) {
	type at struct {
		seq int64
		c   *swCall
		end bool
	}
	evs := []at{}
	for w := range calls {
		for i := range calls[w] {
			c := &calls[w][i]
			evs = append(evs, at{c.begin, c, false}, at{c.end, c, true})
			if c.end-c.begin > 1 {
				overlapped++
			}
		}
	}
	sort.Slice(evs, func(i, j int) bool { return evs[i].seq < evs[j].seq })
	for _, e := range evs {
		t := texts[e.c.text]
		if !e.end {
			r.rec.Emit("ParseBegin", trace.F{"call": e.c.id, "text": t.text})
			r.kind["ParseBegin"]++
			continue
		}
		r.rec.Emit("ParseEnd", trace.F{"call": e.c.id, "text": t.text, "abs": t.abs, "r": swResult(e.c.s, e.c.err, e.c.panicked)})
		r.kind["ParseEnd"]++
	}
	return overlapped
}

func stmtwireMain(args []string) int {
	fs := flag.NewFlagSet("stmtwire", flag.ExitOnError)
	out := fs.String("out", "stmtwire.ndjson", "trace output")
	nilOut := fs.String("nilout", "stmtwire-nil.ndjson", "trace output for statements the parser accepts with a missing child")
	nilMax := fs.Int("nilmax", 4, "how many of those to record")
	seed := fs.Int64("seed", 1, "seed")
	nStmt := fs.Int("statements", 3000, "statements derived from the grammar")
	nTree := fs.Int("trees", 3000, "expression trees built directly")
	depth := fs.Int("depth", 2, "nesting bound")
	nText := fs.Int("texts", 12, "overlapping calls: size of the fixed list of texts")
	workers := fs.Int("workers", 4, "overlapping calls: goroutines parsing the list at once")
	iters := fs.Int("iters", 30, "overlapping calls: how often each goroutine parses the whole list")
	_ = fs.Parse(args)
	time.Local = time.UTC
	sum := &trace.Summary{Module: "StmtWire"}
	rec, err := trace.New(*out)
	if err != nil {
		fmt.Println(err)
		return 2
	}
	rng := rand.New(rand.NewSource(*seed))
	nrec, err := trace.New(*nilOut)
	if err != nil {
		fmt.Println(err)
		return 2
	}
	run := &swRun{rec: rec, nilRec: nrec, nilMax: *nilMax, sum: sum, kind: map[string]int{}, errs: map[string]int{}}
	g := &swGen{rng: rng, depth: *depth}
	for i := 0; i < *nStmt; i++ {
		if i%250 == 0 {
			rec.Reset(trace.F{"kind": "stmt"})
		}
		// 1 in 5 statements uses the odd productions of the grammar (duration literals, ident filters,
		// tag filters as function parameters, arbitrary sort expressions)
		odd := i%5 == 4
		if rng.Intn(8) == 0 {
			run.statement(g.metadata(), true, rng)
			continue
		}
		text, abs := g.query(odd)
		run.statement(text, abs, rng)
	}
	for i := 0; i < *nTree; i++ {
		if i%500 == 0 {
			rec.Reset(trace.F{"kind": "tree"})
		}
		d := 1 + rng.Intn(*depth+1)
		run.exprWire(g.tree(d))
	}
	// overlapping calls: the same texts, several calls in flight
	if *nText > 0 && *workers > 0 && *iters > 0 {
		texts := swTextList(*seed, *depth, *nText)
		run.concurrent(texts, 1, *workers, *iters, false)
		run.concurrent(texts, 2, *workers, *iters, true)
		run.concurrent(texts, 0, *workers, *iters, false)
		if swOverlapLeg != nil {
			swOverlapLeg(run, texts, rng)
		}
	}
	_ = rec.Close()
	_ = nrec.Close()
	sum.Traces, sum.Events = rec.Counts()
	nt, ne := nrec.Counts()
	sum.Traces, sum.Events = sum.Traces+nt, sum.Events+ne
	sum.Extra = map[string]any{"events_by_kind": run.kind, "statements_with_missing_child": run.nilChild, "nil_traces": nt, "parsed": run.parsed, "rejected_by_parser": run.failed, "parse_errors": run.errs,
		"concurrent": run.conc, "overlap_hook": swOverlapLeg != nil, "overlap_windows": run.overlapWindows}
	sum.Print()
	_ = os.Stdout.Sync()
	return 0
}
