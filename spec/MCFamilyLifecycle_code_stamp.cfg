\* the code BEFORE the repair of memdb.NewMemoryDatabase (fixed: XFAMILY-F1): two memory databases created in one clock tick share one slot range entry -- must violate AckedRowsDurable
CONSTANTS
  Leader = {1}
  MaxRow = 2
  MaxObj = 2
  MaxDb = 3
  MaxFail = 1
  MaxRef = 1
  DoubleWindow = FALSE
  CloseLocksFirst = FALSE
  RetryFailed = TRUE
  ClosedRejects = TRUE
  AtomicWrite = TRUE
  RegisterAtGet = TRUE
  AtomicEvict = TRUE
  UniqueStamp = FALSE
  EvictChecksRef = TRUE
  EvictChecksMem = TRUE
  CloseFlushes = TRUE
  AckFrozen = TRUE
SPECIFICATION MCSpec
INVARIANTS AckedRowsDurable
CHECK_DEADLOCK FALSE
