CONSTANTS
  DevLookup = FALSE
  FirstDay = 0
  FirstCivil <- Epoch
  LastDay = 24855
  Groups = {}
  InstantsOf <- MCInstantsOf
  Intervals <- MCIntervals
  PlanInputsOf <- MCPlanInputsOf
  ShardInterval <- MCShardInterval
  ShardInstants = {}
  MCHours = {}
  MCPool = {}
SPECIFICATION Spec
INVARIANTS CalendarClosedForms
CHECK_DEADLOCK FALSE
