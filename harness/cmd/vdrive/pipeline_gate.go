//go:build verif

package main

// Needs the gate hook of package query (query.VerifGate, called by completeStage between the release of the state
// machine's mutex and pending.Dec()). Rename to pipeline_gate.go once the hook is in the tree.

import "github.com/lindb/lindb/query"

func init() {
	pipelineSetGate = func(fn func(point string)) { query.VerifGate = fn }
}
