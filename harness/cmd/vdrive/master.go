package main

import (
	"context"
	"encoding/json"
	"errors"
	"flag"
	"fmt"
	"math/rand"
	"os"
	"sort"
	"strconv"
	"strings"
	"sync"

	"github.com/lindb/lindb/constants"
	"github.com/lindb/lindb/coordinator/discovery"
	"github.com/lindb/lindb/coordinator/master"
	"github.com/lindb/lindb/models"
	"github.com/lindb/lindb/pkg/option"
	"github.com/lindb/lindb/pkg/state"

	"verif/harness/internal/trace"
)

func init() { register("master", masterMain) }

// memRepo is an in-memory state.Repository; writes under the assignment path are reported
// back so the driver can play the discovery watcher.
type memRepo struct {
	state.Repository
	mu    sync.Mutex
	kv    map[string][]byte
	onPut func(key string, val []byte)
	// transient faults of the repository (the environment's): the next Get of failGet fails once; the failPutN-th next
	// Put of a key below failPutPrefix fails once
	failGet       string
	failPutPrefix string
	failPutN      int
	faultFired    bool
}

func (r *memRepo) Get(_ context.Context, key string) ([]byte, error) {
	r.mu.Lock()
	defer r.mu.Unlock()
	if r.failGet != "" && key == r.failGet {
		r.failGet, r.faultFired = "", true
		return nil, errors.New("injected: repository read failed")
	}
	v, ok := r.kv[key]
	if !ok {
		return nil, state.ErrNotExist
	}
	return v, nil
}

func (r *memRepo) List(_ context.Context, prefix string) ([]state.KeyValue, error) {
	r.mu.Lock()
	defer r.mu.Unlock()
	var keys []string
	for k := range r.kv {
		if strings.HasPrefix(k, prefix) {
			keys = append(keys, k)
		}
	}
	sort.Slice(keys, func(i, j int) bool {
		// numeric order of the last path element (node ids)
		a, _ := strconv.Atoi(keys[i][strings.LastIndex(keys[i], "/")+1:])
		b, _ := strconv.Atoi(keys[j][strings.LastIndex(keys[j], "/")+1:])
		if a != b {
			return a < b
		}
		return keys[i] < keys[j]
	})
	var out []state.KeyValue
	for _, k := range keys {
		out = append(out, state.KeyValue{Key: k, Value: r.kv[k]})
	}
	return out, nil
}

func (r *memRepo) Put(_ context.Context, key string, val []byte) error {
	r.mu.Lock()
	if r.failPutPrefix != "" && strings.HasPrefix(key, r.failPutPrefix) {
		if r.failPutN--; r.failPutN == 0 {
			r.failPutPrefix, r.faultFired = "", true
			r.mu.Unlock()
			return errors.New("injected: repository write failed")
		}
	}
	r.kv[key] = append([]byte{}, val...)
	cb := r.onPut
	r.mu.Unlock()
	if cb != nil {
		cb(key, val)
	}
	return nil
}

func (r *memRepo) Delete(_ context.Context, key string) error {
	r.mu.Lock()
	delete(r.kv, key)
	r.mu.Unlock()
	return nil
}

func (r *memRepo) Close() error { return nil }

type masterRun struct {
	rec     *trace.Recorder
	repo    *memRepo
	mgr     master.StateManager
	pending []*discovery.Event
	dbCfg   map[string]*models.Database
}

func assignJSON(m map[string]*models.ShardAssignment) map[string]any {
	out := map[string]any{}
	for db, a := range m {
		sh := map[string]any{}
		for sid, r := range a.Shards {
			sh[strconv.Itoa(int(sid))] = r.Replicas
		}
		out[db] = sh
	}
	return out
}

func (r *masterRun) emitState() {
	st := r.mgr.GetStorageState()
	live := []int{}
	for id := range st.LiveNodes {
		live = append(live, int(id))
	}
	sort.Ints(live)
	states := map[string]any{}
	for db, shards := range st.ShardStates {
		sh := map[string]any{}
		for sid, s := range shards {
			name := "offline"
			if s.State == models.OnlineShard {
				name = "online"
			}
			sh[strconv.Itoa(int(sid))] = map[string]any{"state": name, "leader": int(s.Leader)}
		}
		states[db] = sh
	}
	// repository view
	repolive := []int{}
	kvs, _ := r.repo.List(context.Background(), constants.StorageLiveNodesPath)
	for _, kv := range kvs {
		n := models.StatefulNode{}
		_ = json.Unmarshal(kv.Value, &n)
		repolive = append(repolive, int(n.ID))
	}
	repoAssign := map[string]*models.ShardAssignment{}
	r.repo.mu.Lock()
	for k, v := range r.repo.kv {
		if strings.HasPrefix(k, constants.ShardAssignmentPath+"/") {
			a := &models.ShardAssignment{}
			if json.Unmarshal(v, a) == nil {
				repoAssign[a.Name] = a
			}
		}
	}
	r.repo.mu.Unlock()
	r.rec.Emit("State", trace.F{"live": live, "repolive": repolive, "states": states,
		"assign": assignJSON(st.ShardAssignments), "repoassign": assignJSON(repoAssign), "npending": len(r.pending)})
}

func masterHistory(rec *trace.Recorder, rng *rand.Rand, steps, nnodes int, h int, sum *trace.Summary, scripted []string) {
	repo := &memRepo{kv: map[string][]byte{}}
	ctx, cancel := context.WithCancel(context.Background())
	defer cancel()
	run := &masterRun{rec: rec, repo: repo, dbCfg: map[string]*models.Database{}}
	run.mgr = master.NewStateManager(ctx, repo, nil)
	repo.onPut = func(key string, val []byte) {
		if strings.HasPrefix(key, constants.ShardAssignmentPath+"/") {
			run.pending = append(run.pending, &discovery.Event{Type: discovery.ShardAssignmentChanged, Key: key, Value: append([]byte{}, val...)})
		}
	}
	rec.Reset(trace.F{"mode": "master", "h": h, "nodes": nnodes, "generated": scripted != nil})
	dbs := []string{"d1", "d2"}
	script := []string{}
	if scripted != nil {
		steps = len(scripted)
	}
	for i := 0; i < steps; i++ {
		c := rng.Intn(100)
		// leg R: the step is the next word of a behaviour TLC generated from MasterGen; nothing is random
		var w []string
		if scripted != nil {
			w = strings.Split(scripted[i], ":")
		}
		argn := func(k int) int { n, _ := strconv.Atoi(w[k]); return n }
		switch {
		case w != nil && w[0] == "process" && len(run.pending) == 0:
			sum.Unresolved = append(sum.Unresolved, fmt.Sprintf("generated behaviour %d step %d: process without a pending event", h, i))
			return
		case w != nil && (w[0] == "up" || w[0] == "down"):
			n := argn(1)
			key := constants.GetStorageLiveNodePath(strconv.Itoa(n))
			if w[0] == "up" {
				node := models.StatefulNode{ID: models.NodeID(n), StatelessNode: models.StatelessNode{HostIP: fmt.Sprintf("1.1.1.%d", n), GRPCPort: 2891}}
				data, _ := json.Marshal(&node)
				_ = repo.Put(ctx, key, data)
				run.pending = append(run.pending, &discovery.Event{Type: discovery.NodeStartup, Key: key, Value: data})
				rec.Emit("NodeUp", trace.F{"node": n})
			} else {
				_ = repo.Delete(ctx, key)
				run.pending = append(run.pending, &discovery.Event{Type: discovery.NodeFailure, Key: key})
				rec.Emit("NodeDown", trace.F{"node": n})
			}
			script = append(script, scripted[i])
		case w != nil && w[0] == "putdb":
			cfg := &models.Database{Name: w[1], NumOfShard: argn(2), ReplicaFactor: argn(3), Option: &option.DatabaseOption{}}
			run.dbCfg[w[1]] = cfg
			data, _ := json.Marshal(cfg)
			run.pending = append(run.pending, &discovery.Event{Type: discovery.DatabaseConfigChanged, Key: constants.GetDatabaseConfigPath(w[1]), Value: data})
			rec.Emit("PutDatabase", trace.F{"db": w[1], "shards": cfg.NumOfShard, "rf": cfg.ReplicaFactor})
			script = append(script, scripted[i])
		case w != nil && w[0] == "dropdb":
			delete(run.dbCfg, w[1])
			run.pending = append(run.pending, &discovery.Event{Type: discovery.DatabaseConfigDeletion, Key: constants.GetDatabaseConfigPath(w[1])})
			rec.Emit("DropDatabase", trace.F{"db": w[1]})
			script = append(script, scripted[i])
		case w != nil && w[0] != "process":
			sum.Unresolved = append(sum.Unresolved, "generated behaviour: unknown step "+scripted[i])
			return
		case (w != nil && w[0] == "process") || (len(run.pending) > 0 && c < 50):
			e := run.pending[0]
			run.pending = run.pending[1:]
			// a transient repository fault while a database-config event is handled: the read of the stored assignment
			// fails, or the first / the second write of the assignment does
			fault := "none"
			if w != nil && len(w) > 1 {
				fault = w[1]
			} else if w == nil && e.Type == discovery.DatabaseConfigChanged && rng.Intn(5) == 0 {
				fault = []string{"read", "put1", "put2"}[rng.Intn(3)]
			}
			if fault != "none" && e.Type != discovery.DatabaseConfigChanged {
				sum.Unresolved = append(sum.Unresolved, fmt.Sprintf("history %d step %d: fault %s on a %s event", h, i, fault, e.Type))
				return
			}
			if fault != "none" {
				cfg := &models.Database{}
				_ = json.Unmarshal(e.Value, cfg)
				repo.mu.Lock()
				repo.faultFired = false
				switch fault {
				case "read":
					repo.failGet = constants.GetDatabaseAssignPath(cfg.Name)
				case "put1":
					repo.failPutPrefix, repo.failPutN = constants.ShardAssignmentPath+"/", 1
				case "put2":
					repo.failPutPrefix, repo.failPutN = constants.ShardAssignmentPath+"/", 2
				}
				repo.mu.Unlock()
			}
			master.VerifProcessEvent(run.mgr, e)
			repo.mu.Lock()
			fired := repo.faultFired
			repo.failGet, repo.failPutPrefix = "", ""
			repo.mu.Unlock()
			if fault != "none" && !fired {
				fault = "none" // the handler never came to the operation that was to fail (e.g. no live node): an ordinary step
			}
			if fault == "none" {
				rec.Emit("Process", trace.F{"t": e.Type.String()})
			} else {
				rec.Emit("Process", trace.F{"t": e.Type.String(), "fault": fault})
			}
			script = append(script, "process:"+e.Type.String()+":"+fault)
		case c < 70:
			n := 1 + rng.Intn(nnodes)
			key := constants.GetStorageLiveNodePath(strconv.Itoa(n))
			if _, err := repo.Get(ctx, key); err != nil {
				node := models.StatefulNode{ID: models.NodeID(n), StatelessNode: models.StatelessNode{HostIP: fmt.Sprintf("1.1.1.%d", n), GRPCPort: 2891}}
				data, _ := json.Marshal(&node)
				_ = repo.Put(ctx, key, data)
				run.pending = append(run.pending, &discovery.Event{Type: discovery.NodeStartup, Key: key, Value: data})
				rec.Emit("NodeUp", trace.F{"node": n})
				script = append(script, fmt.Sprintf("up:%d", n))
			} else {
				_ = repo.Delete(ctx, key)
				run.pending = append(run.pending, &discovery.Event{Type: discovery.NodeFailure, Key: key})
				rec.Emit("NodeDown", trace.F{"node": n})
				script = append(script, fmt.Sprintf("down:%d", n))
			}
		case c < 92:
			db := dbs[rng.Intn(len(dbs))]
			cfg, ok := run.dbCfg[db]
			if !ok || rng.Intn(4) == 0 {
				cfg = &models.Database{Name: db, NumOfShard: 1 + rng.Intn(5), ReplicaFactor: 1 + rng.Intn(3), Option: &option.DatabaseOption{}}
			} else if rng.Intn(2) == 0 {
				cp := *cfg
				cp.NumOfShard += 1 + rng.Intn(3)
				cfg = &cp
			}
			run.dbCfg[db] = cfg
			data, _ := json.Marshal(cfg)
			run.pending = append(run.pending, &discovery.Event{Type: discovery.DatabaseConfigChanged, Key: constants.GetDatabaseConfigPath(db), Value: data})
			rec.Emit("PutDatabase", trace.F{"db": db, "shards": cfg.NumOfShard, "rf": cfg.ReplicaFactor})
			script = append(script, fmt.Sprintf("putdb:%s:%d:%d", db, cfg.NumOfShard, cfg.ReplicaFactor))
		default:
			db := dbs[rng.Intn(len(dbs))]
			delete(run.dbCfg, db)
			run.pending = append(run.pending, &discovery.Event{Type: discovery.DatabaseConfigDeletion, Key: constants.GetDatabaseConfigPath(db)})
			rec.Emit("DropDatabase", trace.F{"db": db})
			script = append(script, "dropdb:"+db)
		}
		run.emitState()
	}
	// drain: the invariants are evaluated when every event is processed
	for len(run.pending) > 0 {
		e := run.pending[0]
		run.pending = run.pending[1:]
		rec.Emit("Process", trace.F{"t": e.Type.String()})
		master.VerifProcessEvent(run.mgr, e)
		run.emitState()
	}
	if len(sum.Samples) < 3 {
		sum.Samples = append(sum.Samples, map[string]any{"script": script})
	}
}

func masterMain(args []string) int {
	fs := flag.NewFlagSet("master", flag.ExitOnError)
	out := fs.String("out", "master.ndjson", "trace output")
	seed := fs.Int64("seed", 1, "seed")
	nh := fs.Int("histories", 50, "histories")
	scripts := fs.String("scripts", "", "leg R: JSON file with behaviours generated by TLC from MasterGen (list of lists of steps); replaces the random histories")
	steps := fs.Int("steps", 60, "steps per history")
	_ = fs.Parse(args)
	rec, err := trace.New(*out)
	if err != nil {
		fmt.Println(err)
		return 2
	}
	rng := rand.New(rand.NewSource(*seed))
	sum := &trace.Summary{Module: "Master", Extra: map[string]any{}}
	if *scripts != "" {
		var gen [][]string
		b, err := os.ReadFile(*scripts)
		if err == nil {
			err = json.Unmarshal(b, &gen)
		}
		if err != nil {
			fmt.Println("scripts:", err)
			return 2
		}
		for h, sc := range gen {
			masterHistory(rec, rand.New(rand.NewSource(int64(h))), len(sc), 5, 1000+h, sum, sc)
		}
		*nh = 0
	}
	for h := 0; h < *nh; h++ {
		masterHistory(rec, rand.New(rand.NewSource(rng.Int63())), *steps, 2+h%4, h, sum, nil)
	}
	_ = rec.Close()
	sum.Traces, sum.Events = rec.Counts()
	sum.Distinct = sum.Traces
	sum.Print()
	return 0
}
