CONSTANTS
  SeriesFirst = FALSE
  CommitSeqBeforeWrite = FALSE
  FreezeBeforeMetaFlush = FALSE
  ExpireOnConsumed = FALSE
  IgnoreOverGap = TRUE
  Writable = FALSE
  AtomicRound = FALSE
  Name = {"m1", "bad"}
  MaxEntries = 3
  MaxCrash = 2
  MaxFlush = 3
SPECIFICATION MCSpec
INVARIANTS NoLoss
CHECK_DEADLOCK FALSE
