"""Shared by C05 / C06: module WALQueue (pkg/queue)."""
import json
import os

import vcore


def describe(sig, lines, rel, info):
    try:
        reset = json.loads(lines[0])
        mode = reset.get("mode", "?")
    except ValueError:
        mode = "?"
    ev = {}
    try:
        ev = json.loads(lines[min(rel, len(lines)) - 1])
    except ValueError:
        pass
    extra = ev.get("op") or ev.get("k") or ""
    return "%s:%s:%s" % (sig, mode, extra)


def mutate_store(lines):
    # corrupt the offset of one data store
    for i, ln in enumerate(lines):
        if '"k":"data"' in ln and '"off":' in ln:
            d = json.loads(ln)
            d["off"] = d["off"] + 1
            out = list(lines)
            out[i] = json.dumps(d, separators=(",", ":")) + "\n"
            return out
    return None


def mutate_proj(lines):
    # pretend a message read back with other bytes
    for i, ln in enumerate(lines):
        if '"ev":"Proj"' in ln and '"live":[' in ln and '"live":[]' not in ln:
            d = json.loads(ln)
            d["proj"]["live"][-1] = -1
            out = list(lines)
            out[i] = json.dumps(d, separators=(",", ":")) + "\n"
            return out
    return None


def drop_store(lines):
    for i, ln in enumerate(lines):
        if '"k":"meta"' in ln and '"f":"app"' in ln:
            return lines[:i] + lines[i + 1:]
    return None


def run_wal(ctx, args, label):
    tr = os.path.join(ctx.scratch, "wal-%s.ndjson" % label)
    scr = os.path.join(ctx.scratch, "scr-%s" % label)
    os.makedirs(scr, exist_ok=True)
    summ, rc, _ = ctx.run_vdrive(["wal", "--seed", ctx.seed, "--out", tr, "--scratch", scr] + args, timeout=1500)
    for s in summ["samples"][:2]:
        ctx.sample({"history_prefix": s})
    for u in summ["unresolved"]:
        raise vcore.Unresolved("wal driver: %s" % u)
    ctx.extra.setdefault("crash_images", 0)
    ctx.extra["crash_images"] += summ["extra"].get("images", 0)
    ctx.extra.setdefault("stores", 0)
    ctx.extra["stores"] += summ["extra"].get("stores", 0)
    ctx.extra.setdefault("events", 0)
    ctx.extra["events"] += summ["events"]
    vcore.validate_all(ctx, "WALQueueTrace", "WALQueueTrace.cfg", tr, describe=describe, dfs=False)
    return tr


def run_generated(ctx, cfg, num, depth, unit, label, maximages=0, seed_shift=0):
    """Leg R: API-call histories chosen by TLC from the store-level model (WALQueueGen) are executed against the real
    queue (every store observed, the directory imaged after every store and recovered by the real code), validated
    like every other trace."""
    gen = ctx.generate_behaviours("WALQueueGen", cfg, num, depth, seed_shift=seed_shift)
    gpath = os.path.join(ctx.scratch, "wal-gen-%s.json" % label)
    with open(gpath, "w") as f:
        json.dump(gen, f)
    ctx.extra["generated_behaviours_replayed"] = ctx.extra.get("generated_behaviours_replayed", 0) + len(gen)
    return run_wal(ctx, ["--histories", 0, "--scripts", gpath, "--unit", unit, "--maximages", maximages, "--grouptail"],
                   "gen-" + label)
