CONSTANTS
  Keys <- K4
  Vals = {1, 2}
  VLen <- VLen2
  NFiles = 2
  Dev = {}
SPECIFICATION MCSpec
INVARIANTS BuilderAgrees SizeAgrees GetAgrees IterAgrees MergeAgrees FindAgrees RefSelectionComplete
CHECK_DEADLOCK FALSE
