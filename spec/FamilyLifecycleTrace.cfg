\* the code as it is (first group of switches at the code's values); leaders are 1..2; the properties that hold for the code on histories whose memory databases were created in different clock ticks
CONSTANTS
  Leader = {1, 2}
  MaxRow = 60
  MaxObj = 6
  MaxDb = 60
  DoubleWindow = TRUE
  CloseLocksFirst = TRUE
  RetryFailed = FALSE
  ClosedRejects = FALSE
  AtomicWrite = FALSE
  AtomicEvict = FALSE
  UniqueStamp = FALSE
  EvictChecksRef = TRUE
  EvictChecksMem = TRUE
  CloseFlushes = TRUE
  AckFrozen = TRUE
SPECIFICATION TraceSpec
INVARIANTS TypeOK FlushShape FlushedOnce AckNotAhead AckedRowsDurable ClosedIsFlushed
PROPERTIES FrozenNeverGrows
CONSTRAINT HighWater
POSTCONDITION TraceAccepted
CHECK_DEADLOCK FALSE
