CONSTANTS
  KeepFirstError = TRUE
  RecoverPerStage = TRUE
SPECIFICATION TraceSpec
INVARIANTS AtMostOnce OnlyAfterAll ErrorReported PendingSane
CONSTRAINT HighWater
POSTCONDITION TraceAccepted
CHECK_DEADLOCK FALSE
