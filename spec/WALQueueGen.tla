----------------------------- MODULE WALQueueGen -----------------------------
(***************************************************************************)
(* Leg R of C05 / C06: histories of API calls on the queue chosen by TLC    *)
(* (-simulate) from the store-level model; one word per call in `script`    *)
(* (the stores of a call are performed by DoStore steps that add nothing).  *)
(* `vdrive wal --scripts` executes the calls against the real fan-out       *)
(* queue with every store observed and the directory imaged after every     *)
(* store (the crash points of a model-chosen history), WALQueueTrace        *)
(* validates.  Message lengths are in units: the driver multiplies by       *)
(* (real page size / PageSize) so that roll-over happens where the model    *)
(* has it (cfg `roll`), or by one byte (cfg `small`, PageSize large).       *)
(***************************************************************************)
EXTENDS MCWALQueue
VARIABLES script, kind
gvars == <<mcvars, script, kind>>
L(s) == script' = Append(script, s) /\ kind' = "none"
T == CHOOSE t \in Threads : TRUE
S(n) == IF n < 0 THEN "-" \o ToString(-n) ELSE ToString(n)
G(g) == ToString(g)
Kinds == IF ~open THEN {"reopen"}
         ELSE IF ~Quiet THEN {"store"}
         ELSE {"put", "put2", "put3", "consume", "consume2", "ack", "ack2", "sync", "gc", "group", "stop", "setcons", "down", "putfail", "groupfail"}
GInit == MCInit /\ script = <<>> /\ kind = "none"
Choose == kind = "none" /\ kind' \in Kinds /\ UNCHANGED <<mcvars, script>>
\* a kind that turns out to have no enabled instance is given back
GiveUp == kind \notin {"none", "store", "reopen"} /\ kind' = "none" /\ UNCHANGED <<mcvars, script>>
GNext ==
  \/ Choose
  \/ kind = "store" /\ DoStore(T) /\ Same /\ kind' = "none" /\ UNCHANGED script
  \/ kind \in {"put", "put2", "put3"} /\ \E len \in Lens : PutStart(T, len, nput + 1) /\ Count(TRUE) /\ L("put:" \o S(len))
  \/ kind = "putfail" /\ \E len \in Lens : PutFail(T, len) /\ Same /\ L("putfail:" \o S(len))
  \/ kind \in {"consume", "consume2"} /\ \E g \in Groups : g \in DOMAIN gm /\ gm[g].cons < mApp   \* (Consume BLOCKS on an empty queue: not drivable)
                                                  /\ ConsumeStart(T, g) /\ Count(FALSE) /\ L("consume:" \o G(g))
  \/ kind \in {"ack", "ack2"} /\ \E g \in Groups : g \in DOMAIN gm /\ \E s \in ((gm[g].ack - 1)..(gm[g].cons + 1)) \cap Seqs : AckStart(T, g, s) /\ Count(FALSE) /\ L("ack:" \o G(g) \o ":" \o S(s))
  \/ kind = "setcons" /\ \E g \in Groups : (g \in DOMAIN gm /\ \E s \in gm[g].ack..mApp :
        SetConsumedStart(T, g, s) /\ Count(FALSE) /\ L("setcons:" \o G(g) \o ":" \o S(s)))
  \/ kind = "sync" /\ SyncStart(T) /\ Count(FALSE) /\ L("sync")
  \/ kind = "gc" /\ GCStart(T) /\ Count(FALSE) /\ L("gc")
  \/ kind = "group" /\ \E g \in Groups : CreateGroupStart(T, g) /\ Count(FALSE) /\ L("creategroup:" \o G(g))
  \/ kind = "groupfail" /\ \E g \in Groups : CreateGroupFailStart(T, g) /\ Count(FALSE) /\ L("creategroupfail:" \o G(g))
  \/ kind = "stop" /\ \E g \in Groups : StopGroup(T, g) /\ Count(FALSE) /\ L("stopgroup:" \o G(g))
  \/ kind = "down" /\ Down /\ ndown < MaxDown /\ ndown' = ndown + 1 /\ UNCHANGED <<nput, nops>> /\ L("down")
  \/ kind = "reopen" /\ Reopen /\ Same /\ L("reopen")
  \/ GiveUp
GSpec == GInit /\ [][GNext]_gvars
=============================================================================
