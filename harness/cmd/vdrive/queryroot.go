package main

// vdrive queryroot -- property C12, the root's gathering of leaf answers (module RootGather).
//
// Runs the REAL root side of a metric data query: query.MetricDataSearch -> real execute pipeline (physical plan
// stage, one task send stage per target) -> real RootMetricContext (expectResults / tolerantNotFounds /
// grouping aggregator) <- real query.NewTaskManager (real worker pool) <- scripted transport.
// One small data set (points of one field, optionally grouped by a tag) is split over 1..3 leaf targets in every
// possible way; the answer of a leaf is built by the real leaf reduce code (SeriesAggregator ->
// LeafReduceContext.Reduce -> BuildResultSet) from the statement the root really sent.  The transport delivers
// the answer of the k-th request at a scripted point:
//   inline   inside that SendRequest, completely handled by the root before the next request is sent
//   late     after all requests were sent and the root waits for responses, in a scripted order
//            (one at a time, or all at once from concurrent goroutines)
//   lost     never (the request context ends: the root must report a timeout)
//   free     from a goroutine started at send time, racing with the remaining sends
// and two scripted overlaps of a handler with what may complete the query (the counterexamples of the deviation
// CountThenMerge of the model): the answer of one leaf is made slow to decode (its payload carries megabytes of fields
// the decoder does not know and has to skip: no data, only decode time) and, once a goroutine dump shows its handler
// inside the payload decode,
//   overlap=answer    the answers of the other leaves are delivered from their own goroutines
//   overlap=complete  the last SendRequest returns (the pipeline completes: Complete -> tryClose)
// Recorded: Reset (data, placement, answer kinds), Plan (targets handed to the root), Send, AnswerBegin / AnswerEnd
// (the root's task context starts / has finished handling the response), Result (what MetricDataSearch returned).
// Nothing is compared here: TLC validates the trace against spec/RootGather.tla (spec/RootGatherTrace.tla).

import (
	"context"
	"errors"
	"flag"
	"fmt"
	"math"
	"math/rand"
	"os"
	"path/filepath"
	"reflect"
	"runtime"
	"sort"
	"strings"
	"sync"
	"time"
	"unsafe"

	commonmodels "github.com/lindb/common/models"

	"github.com/lindb/lindb/aggregation"
	"github.com/lindb/lindb/constants"
	"github.com/lindb/lindb/coordinator/broker"
	"github.com/lindb/lindb/flow"
	"github.com/lindb/lindb/models"
	"github.com/lindb/lindb/pkg/option"
	"github.com/lindb/lindb/pkg/timeutil"
	protoCommonV1 "github.com/lindb/lindb/proto/gen/v1/common"
	"github.com/lindb/lindb/query"
	querycontext "github.com/lindb/lindb/query/context"
	"github.com/lindb/lindb/series/field"
	"github.com/lindb/lindb/sql"
	"github.com/lindb/lindb/sql/stmt"

	"verif/harness/internal/trace"
)

func init() { register("queryroot", queryRootMain) }

const (
	rgIv      = int64(10 * 1000)                         // stored = query interval (ms)
	rgStart   = int64(1700000000000 / 3600000 * 3600000) // start of an hour family (ms)
	rgSlots   = 10
	rgEnd     = rgStart + rgSlots*rgIv
	rgErrText = "injected leaf failure"
	rgWait    = 20 * time.Second // a step that takes longer is a harness problem (unresolved), never a verdict
)

// ------------------------------------------------------------------ data, placement, schedule

type rgPoint struct {
	g    string // group tag value ("" when the data set is not grouped)
	slot int
	v    int
}

type rgData struct {
	ftype   string // sum | min | max
	grouped bool
	pts     []rgPoint
}

var rgFieldTypes = map[string]field.Type{"sum": field.SumField, "min": field.MinField, "max": field.MaxField}

// rgRun: one query = a placement of the points on the leaves + what a leaf without data / a failing leaf
// answers + the delivery schedule, by send position (the order of the send stages is the root's own business)
type rgRun struct {
	data  *rgData
	nleaf int
	place []int    // point -> leaf (0-based)
	kinds []string // per leaf: data | empty | notfound | error
	mode  []string // per send position: inline | late | lost | free
	order []int    // late answers: delivery order (indices into the late positions, in send order)
	conc  bool     // late answers all at once from concurrent goroutines
	label string
	// overlap: "" | "answer" | "complete" (see the file comment); big: the leaf with the slow answer (overlap=answer;
	// with overlap=complete it is the leaf of the last send, whichever the root picks)
	overlap string
	big     int
}

func rgLeafName(i int) string { return fmt.Sprintf("leaf-%d:9000", i+1) }

// ------------------------------------------------------------------ environment: real task manager

type rgEnv struct {
	rec   *trace.Recorder
	sum   *trace.Summary
	rng   *rand.Rand
	tm    query.TaskManager
	db    models.Database
	kinds map[string]int
	debug bool
	runs  int
	// evidence counters
	byMode    map[string]int
	byShape   map[string]int
	evicted   int
	cancelled int
	// slow answers: the ballast appended to a payload and what it costs to decode (calibrated at start)
	ballast   []byte
	ballastMs float64
	overlaps  map[string]*rgOverlapStat
}

// rgOverlapStat: the overlap runs of one kind: how many, in how many the handler of the slow answer was seen inside the
// payload decode before the other party was released, and in how many the other party then really acted while that
// handler was still running (window hit = both)
type rgOverlapStat struct {
	Runs      int `json:"runs"`
	SawDecode int `json:"saw_decode"`
	WindowHit int `json:"window_hit"`
}

// rgNewTaskManager builds the real task manager of a broker: query.NewTaskManager(pool, registry).  Both parameter
// types live in internal packages of lindb: the worker pool is the real concurrent.Pool of a tsdb database (exported
// field of tsdb.ExecutorPool), the metric registry is allocated through reflection (an empty registry).
func rgNewTaskManager(dir string) (tm query.TaskManager, closeFn func(), err error) {
	defer func() {
		if r := recover(); r != nil {
			err = fmt.Errorf("task manager: %v", r)
		}
	}()
	e, err := openEngineAt(dir)
	if err != nil {
		return nil, nil, err
	}
	opt := &option.DatabaseOption{Intervals: option.Intervals{{Interval: timeutil.Interval(rgIv),
		Retention: timeutil.Interval(3650 * 24 * 3600 * 1000)}}, AutoCreateNS: true}
	if err := e.CreateShards("rgpool", opt, models.ShardID(0)); err != nil {
		e.Close()
		return nil, nil, err
	}
	db, ok := e.GetDatabase("rgpool")
	if !ok {
		e.Close()
		return nil, nil, fmt.Errorf("database missing after create")
	}
	pool := db.ExecutorPool().Filtering
	fn := reflect.ValueOf(query.NewTaskManager)
	reg := reflect.New(fn.Type().In(1).Elem())
	f := reg.Elem().FieldByName("series")
	if !f.IsValid() || f.Kind() != reflect.Map {
		e.Close()
		return nil, nil, fmt.Errorf("metric registry has no series map")
	}
	reflect.NewAt(f.Type(), unsafe.Pointer(f.UnsafeAddr())).Elem().Set(reflect.MakeMap(f.Type()))
	out := fn.Call([]reflect.Value{reflect.ValueOf(pool), reg})
	tm, ok = out[0].Interface().(query.TaskManager)
	if !ok || tm == nil {
		e.Close()
		return nil, nil, fmt.Errorf("NewTaskManager returned %v", out[0])
	}
	return tm, func() { e.Close() }, nil
}

// ------------------------------------------------------------------ one execution

type rgExec struct {
	env *rgEnv
	run *rgRun

	mu       sync.Mutex
	nsent    int
	ntargets int
	allSent  chan struct{}
	late     []func() // deliveries of the late answers, in send order
	lateOf   []string // their targets
	handled  map[string]chan struct{}
	kindOf   map[*protoCommonV1.TaskResponse]string // kind of a response with ballast (decoded once, when it was built)
	finished bool                                   // MetricDataSearch returned (the Result event is written)
	// overlap runs
	bigTarget  string
	begun      map[string]bool
	ended      map[string]bool
	sawDecode  bool // a goroutine dump showed the handler of bigTarget inside the payload decode
	overlapped bool // after that, the other party acted while that handler had not returned
	wg         sync.WaitGroup
	problems   []string
}

func (x *rgExec) problem(f string, a ...any) {
	x.mu.Lock()
	x.problems = append(x.problems, fmt.Sprintf(f, a...))
	x.mu.Unlock()
}

// task manager handed to the root: the real one, every task context wrapped so that the start of HandleResponse is
// recorded and its end is signalled
type rgTaskMgr struct {
	x    *rgExec
	real query.TaskManager
}

func (m *rgTaskMgr) AddTask(id string, c querycontext.TaskContext) {
	m.real.AddTask(id, &rgTaskCtx{TaskContext: c, x: m.x})
}
func (m *rgTaskMgr) RemoveTask(id string) { m.real.RemoveTask(id) }
func (m *rgTaskMgr) Receive(resp *protoCommonV1.TaskResponse, from string) error {
	return m.real.Receive(resp, from)
}

type rgTaskCtx struct {
	querycontext.TaskContext
	x *rgExec
}

func rgKindOf(resp *protoCommonV1.TaskResponse) string {
	switch {
	case resp.ErrMsg == "":
		ts := &protoCommonV1.TimeSeriesList{}
		if err := ts.Unmarshal(resp.Payload); err != nil {
			return "garbled"
		}
		if len(ts.TimeSeriesList) == 0 {
			return "empty"
		}
		return "data"
	case strings.Contains(resp.ErrMsg, "not found"):
		return "notfound"
	}
	return "error"
}

func (c *rgTaskCtx) HandleResponse(resp *protoCommonV1.TaskResponse, from string) {
	x := c.x
	x.mu.Lock()
	kind, ok := x.kindOf[resp]
	x.mu.Unlock()
	if !ok {
		kind = rgKindOf(resp)
	}
	x.env.rec.Locked(func(emit func(string, trace.F)) {
		emit("AnswerBegin", trace.F{"t": from, "kind": kind})
		x.env.kinds["AnswerBegin"]++
		x.mu.Lock()
		x.begun[from] = true
		if x.bigTarget != "" && from != x.bigTarget && x.sawDecode && x.begun[x.bigTarget] && !x.ended[x.bigTarget] {
			x.overlapped = true
		}
		x.mu.Unlock()
	})
	defer func() {
		if r := recover(); r != nil {
			x.problem("HandleResponse of %s panicked: %v", from, r)
		}
		x.env.rec.Locked(func(emit func(string, trace.F)) {
			emit("AnswerEnd", trace.F{"t": from})
			x.env.kinds["AnswerEnd"]++
			x.mu.Lock()
			x.ended[from] = true
			x.mu.Unlock()
		})
		x.mu.Lock()
		ch := x.handled[from]
		x.mu.Unlock()
		if ch != nil {
			close(ch)
		}
	}()
	c.TaskContext.HandleResponse(resp, from)
}

func (e *rgEnv) emit(ev string, f trace.F) {
	e.rec.Locked(func(emit func(string, trace.F)) {
		emit(ev, f)
		e.kinds[ev]++
	})
}

// node chooser of the root: one physical plan, the leaves as targets (recorded when the root asks for it)
type rgChooser struct {
	broker.StateManager
	x *rgExec
}

func (c *rgChooser) Choose(database string, _ int) ([]*models.PhysicalPlan, error) {
	plan := &models.PhysicalPlan{Database: database}
	names := []string{}
	for i := 0; i < c.x.run.nleaf; i++ {
		plan.AddTarget(&models.Target{Indicator: rgLeafName(i), ShardIDs: []models.ShardID{models.ShardID(i)}})
		names = append(names, rgLeafName(i))
	}
	c.x.env.emit("Plan", trace.F{"targets": names})
	return []*models.PhysicalPlan{plan}, nil
}
func (c *rgChooser) GetDatabaseCfg(string) (models.Database, bool) { return c.x.env.db, true }

// response builds the answer of a leaf to the request the root sent, with the real leaf reduce code
func (x *rgExec) response(target string, req *protoCommonV1.TaskRequest) (resp *protoCommonV1.TaskResponse) {
	resp = &protoCommonV1.TaskResponse{RequestID: req.RequestID, RequestType: req.RequestType, Completed: true}
	defer func() {
		if r := recover(); r != nil {
			x.problem("building the answer of %s panicked: %v", target, r)
			resp.ErrMsg = fmt.Sprint("harness: ", r)
		}
	}()
	leaf := -1
	for i := 0; i < x.run.nleaf; i++ {
		if rgLeafName(i) == target {
			leaf = i
		}
	}
	if leaf < 0 {
		x.problem("request to unknown target %s", target)
		resp.ErrMsg = "harness: unknown target"
		return resp
	}
	switch x.run.kinds[leaf] {
	case "notfound":
		resp.ErrMsg = constants.ErrMetricIDNotFound.Error()
		return resp
	case "error":
		resp.ErrMsg = rgErrText
		return resp
	}
	q := &stmt.Query{}
	if err := q.UnmarshalJSON(req.Payload); err != nil {
		x.problem("statement sent to %s does not parse: %v", target, err)
		resp.ErrMsg = "harness: " + err.Error()
		return resp
	}
	ft := rgFieldTypes[x.run.data.ftype]
	newSpec := func() aggregation.AggregatorSpec {
		spec := aggregation.NewAggregatorSpec("f", ft)
		spec.AddFunctionType(ft.DownSamplingFunc())
		return spec
	}
	// the leaf's query without grouping: the tag values of a group are resolved by the leaf's grouping context
	// (meta database), which this leaf does not have; one reduce context per group, the group's tag value is put
	// into the series afterwards
	plain := *q
	plain.GroupBy = nil
	build := func(pts []rgPoint) *protoCommonV1.TimeSeriesList {
		storageCtx := &flow.StorageExecuteContext{Query: &plain, AggregatorSpecs: aggregation.AggregatorSpecs{newSpec()}}
		reduceCtx := querycontext.NewLeafReduceContext(storageCtx, nil)
		if len(pts) > 0 {
			sAgg := aggregation.NewSeriesAggregator(plain.Interval, plain.IntervalRatio, plain.TimeRange, newSpec())
			fAgg := sAgg.GetAggregator(rgStart)
			for _, p := range pts {
				fAgg.AggregateBySlot(p.slot, float64(p.v))
			}
			reduceCtx.Reduce(aggregation.FieldAggregates{sAgg}.ResultSet(""))
		}
		rs := reduceCtx.BuildResultSet(&models.Target{Indicator: target}, []string{"root"})
		out := &protoCommonV1.TimeSeriesList{}
		if len(rs) != 1 || out.Unmarshal(rs[0]) != nil {
			panic("leaf built no payload")
		}
		return out
	}
	groups := map[string][]rgPoint{}
	names := []string{}
	for i, p := range x.run.data.pts {
		if x.run.place[i] != leaf {
			continue
		}
		if _, ok := groups[p.g]; !ok {
			names = append(names, p.g)
		}
		groups[p.g] = append(groups[p.g], p)
	}
	sort.Strings(names)
	var list *protoCommonV1.TimeSeriesList
	if len(names) == 0 {
		list = build(nil)
	}
	for _, g := range names {
		one := build(groups[g])
		for _, ts := range one.TimeSeriesList {
			ts.Tags = g
		}
		if list == nil {
			list = one
		} else {
			list.TimeSeriesList = append(list.TimeSeriesList, one.TimeSeriesList...)
		}
	}
	payload, err := list.Marshal()
	if err != nil {
		panic(err)
	}
	x.mu.Lock()
	slow := target == x.bigTarget
	x.mu.Unlock()
	if slow {
		// the same answer, slow to decode: fields the decoder does not know follow the message (protobuf: skipped)
		resp.Payload = payload
		kind := rgKindOf(resp)
		payload = append(append(make([]byte, 0, len(payload)+len(x.env.ballast)), payload...), x.env.ballast...)
		x.mu.Lock()
		x.kindOf[resp] = kind
		x.mu.Unlock()
	}
	resp.Payload = payload
	return resp
}

// rgBallast: n protobuf fields (number 15, varint) no message of lindb declares
func rgBallast(n int) []byte {
	b := make([]byte, 0, 2*n)
	for i := 0; i < n; i++ {
		b = append(b, 0x78, 0x01)
	}
	return b
}

// calibrate sizes the ballast so that decoding it takes about rgDecode on this machine now (fastest of three
// measurements; at least 8 MB, at most 256 MB)
const rgDecode = 400 * time.Millisecond

func (e *rgEnv) calibrate() {
	probe := rgBallast(4 << 20)
	best := time.Duration(0)
	for i := 0; i < 3; i++ {
		t := time.Now()
		l := &protoCommonV1.TimeSeriesList{}
		if err := l.Unmarshal(probe); err != nil {
			e.sum.Unresolved = append(e.sum.Unresolved, "ballast does not decode: "+err.Error())
			return
		}
		if d := time.Since(t); best == 0 || d < best {
			best = d
		}
	}
	if best <= 0 {
		best = time.Microsecond
	}
	n := int(float64(len(probe)/2) * float64(rgDecode) / float64(best))
	if n < 4<<20 {
		n = 4 << 20
	}
	if n > 128<<20 {
		n = 128 << 20
	}
	e.ballast = rgBallast(n)
	e.ballastMs = float64(best) / float64(time.Millisecond) * float64(n) / float64(len(probe)/2)
}

// dump: the stacks of all goroutines, one block per goroutine
func rgDump(buf *[]byte) []string {
	n := runtime.Stack(*buf, true)
	for n == len(*buf) && len(*buf) < 64<<20 {
		*buf = make([]byte, 2*len(*buf))
		n = runtime.Stack(*buf, true)
	}
	return strings.Split(string((*buf)[:n]), "\n\n")
}

// waitDecode waits until the handler of the slow answer is inside the payload decode: a goroutine that is in the
// root's context code (package query/context) and, below it, in TimeSeriesList.Unmarshal.  false: the handler
// returned before it was seen there.
func (x *rgExec) waitDecode() bool {
	deadline := time.Now().Add(rgWait)
	buf := make([]byte, 1<<20)
	for {
		for _, g := range rgDump(&buf) {
			if strings.Contains(g, "TimeSeriesList).Unmarshal") && strings.Contains(g, "/query/context.(*") {
				x.mu.Lock()
				x.sawDecode = true
				x.mu.Unlock()
				return true
			}
		}
		x.mu.Lock()
		gone := x.ended[x.bigTarget]
		x.mu.Unlock()
		if gone || time.Now().After(deadline) {
			return false
		}
		time.Sleep(50 * time.Microsecond)
	}
}

// watchCompletion (overlap=complete) runs from the moment the last SendRequest returns: did the pipeline's completion
// meet the handler of the slow answer?  Yes if, while that handler has not returned, a goroutine other than a handler
// is in Complete / tryClose of the context (it waits for the mutex), or the root is already parked in waitResponse,
// or the query has returned.
func (x *rgExec) watchCompletion() {
	deadline := time.Now().Add(rgWait)
	buf := make([]byte, 1<<20)
	for {
		seen := false
		for _, g := range rgDump(&buf) {
			if strings.Contains(g, "HandleResponse") {
				continue
			}
			if strings.Contains(g, "baseTaskContext).Complete") || strings.Contains(g, "baseTaskContext).tryClose") ||
				strings.Contains(g, "MetricContext).waitResponse") {
				seen = true
			}
		}
		x.mu.Lock()
		gone := x.ended[x.bigTarget]
		if !gone && (seen || x.finished) {
			x.overlapped = true
		}
		done := gone || x.overlapped
		x.mu.Unlock()
		if done || time.Now().After(deadline) {
			return
		}
		time.Sleep(50 * time.Microsecond)
	}
}

// deliver hands a response to the root's task manager and waits until the root's task context has handled it
func (x *rgExec) deliver(target string, resp *protoCommonV1.TaskResponse, tm query.TaskManager) {
	x.mu.Lock()
	ch := x.handled[target]
	x.mu.Unlock()
	if err := tm.Receive(resp, target); err != nil {
		// the task is gone (the query completed before this answer arrived)
		x.mu.Lock()
		x.env.evicted++
		x.mu.Unlock()
		return
	}
	select {
	case <-ch:
	case <-time.After(rgWait):
		x.problem("the answer of %s was received but not handled", target)
	}
}

type rgTransport struct {
	x  *rgExec
	tm query.TaskManager
}

func (t *rgTransport) SendRequest(target string, req *protoCommonV1.TaskRequest) error {
	x := t.x
	x.mu.Lock()
	x.nsent++
	pos := x.nsent
	if _, dup := x.handled[target]; !dup {
		x.handled[target] = make(chan struct{})
	}
	x.mu.Unlock()
	x.env.emit("Send", trace.F{"t": target, "pos": pos})
	mode := "late"
	if pos <= len(x.run.mode) {
		mode = x.run.mode[pos-1]
	}
	if mode == "hold" {
		// overlap=complete: this answer is the slow one
		x.mu.Lock()
		x.bigTarget = target
		x.mu.Unlock()
	}
	if mode != "lost" {
		resp := x.response(target, req)
		switch mode {
		case "hold":
			// the answer is being handled (its handler is inside the payload decode) when this send returns
			x.wg.Add(1)
			go func() {
				defer x.wg.Done()
				x.deliver(target, resp, t.tm)
			}()
			if x.waitDecode() {
				x.wg.Add(1)
				go func() {
					defer x.wg.Done()
					x.watchCompletion()
				}()
			}
		case "inline":
			x.deliver(target, resp, t.tm)
		case "free":
			x.wg.Add(1)
			go func() {
				defer x.wg.Done()
				x.deliver(target, resp, t.tm)
			}()
		default:
			x.mu.Lock()
			x.late = append(x.late, func() { x.deliver(target, resp, t.tm) })
			x.lateOf = append(x.lateOf, target)
			x.mu.Unlock()
		}
	}
	if pos == x.ntargets {
		close(x.allSent)
	}
	return nil
}
func (t *rgTransport) SendResponse(string, *protoCommonV1.TaskResponse) error { return nil }

// rootState waits until the goroutine of the query is in one of its two stable states after the sends: finished
// (the Result event is written) or parked in the select of MetricContext.waitResponse (nothing but a response or the
// end of the request context moves it).  No timing assumption: it polls until one of them holds.
func (x *rgExec) rootState() string {
	deadline := time.Now().Add(rgWait)
	buf := make([]byte, 1<<20)
	for {
		x.mu.Lock()
		fin := x.finished
		x.mu.Unlock()
		if fin {
			return "finished"
		}
		n := runtime.Stack(buf, true)
		for n == len(buf) && len(buf) < 64<<20 {
			buf = make([]byte, 2*len(buf))
			n = runtime.Stack(buf, true)
		}
		for _, g := range strings.Split(string(buf[:n]), "\n\n") {
			if !strings.Contains(g, "MetricContext).waitResponse") && !strings.Contains(g, "MetricContext).WaitResponse") {
				continue
			}
			if strings.HasPrefix(g, "goroutine ") && strings.Contains(g[:strings.Index(g, "\n")], "[select") {
				// finished may have become true between the two looks only if it was not parked: it is parked now
				return "parked"
			}
		}
		if time.Now().After(deadline) {
			return "stuck"
		}
		time.Sleep(50 * time.Microsecond)
	}
}

func (e *rgEnv) exec(run *rgRun) {
	e.runs++
	x := &rgExec{env: e, run: run, ntargets: run.nleaf, allSent: make(chan struct{}), handled: map[string]chan struct{}{},
		kindOf: map[*protoCommonV1.TaskResponse]string{}, begun: map[string]bool{}, ended: map[string]bool{}}
	if run.overlap == "answer" {
		x.bigTarget = rgLeafName(run.big)
	}
	// Reset: the data, where it is, what a leaf answers
	pts := map[string][][]any{}
	kinds := map[string]string{}
	leaves := []string{}
	for i := 0; i < run.nleaf; i++ {
		pts[rgLeafName(i)] = [][]any{}
		kinds[rgLeafName(i)] = run.kinds[i]
		leaves = append(leaves, rgLeafName(i))
	}
	for i, p := range run.data.pts {
		n := rgLeafName(run.place[i])
		pts[n] = append(pts[n], []any{p.g, p.slot, p.v})
	}
	e.rec.Reset(trace.F{"ftype": run.data.ftype, "grouped": run.data.grouped, "leaves": leaves, "kinds": kinds, "pts": pts,
		"start": rgStart / 1000, "end": rgEnd / 1000, "iv": rgIv / 1000,
		"sched": trace.F{"mode": run.mode, "order": run.order, "conc": run.conc, "label": run.label, "overlap": run.overlap}})
	e.kinds["Reset"]++

	sqlText := "select f from cpu where time>='" + qTime(rgStart) + "' and time<='" + qTime(rgEnd) + "'"
	if run.data.grouped {
		sqlText += " group by host"
	}
	st, err := sql.Parse(sqlText)
	if err != nil {
		e.sum.Unresolved = append(e.sum.Unresolved, "parse: "+err.Error())
		return
	}
	tm := &rgTaskMgr{x: x, real: e.tm}
	mgr := &query.SearchMgr{CurNode: models.StatelessNode{HostIP: "9.9.9.9", GRPCPort: 9000}, Choose: &rgChooser{x: x},
		TaskMgr: tm, TransportMgr: &rgTransport{x: x, tm: tm}, Timeout: 10 * rgWait}
	cctx, cancel := context.WithCancel(context.Background())
	defer cancel()
	done := make(chan struct{})
	go func() {
		defer close(done)
		var rs any
		var err error
		func() {
			defer func() {
				if r := recover(); r != nil {
					err = fmt.Errorf("panic: %v", r)
				}
			}()
			rs, err = query.MetricDataSearch(cctx, &models.ExecuteParam{Database: "rgdb", SQL: sqlText}, st.(*stmt.Query), mgr)
		}()
		e.emit("Result", rgResult(run, rs, err))
		x.mu.Lock()
		x.finished = true
		x.mu.Unlock()
	}()
	select {
	case <-x.allSent:
	case <-done:
	case <-time.After(rgWait):
		x.problem("the requests were not sent")
	}
	// the late answers: only while the root waits for them
	x.mu.Lock()
	late := append([]func(){}, x.late...)
	lateOf := append([]string{}, x.lateOf...)
	x.mu.Unlock()
	state := x.rootState()
	if state == "parked" && run.overlap == "answer" {
		// the slow answer first; the others when its handler is inside the payload decode, each from its own goroutine
		var wg sync.WaitGroup
		for i := range late {
			if lateOf[i] == x.bigTarget {
				wg.Add(1)
				go func(f func()) { defer wg.Done(); f() }(late[i])
			}
		}
		x.waitDecode()
		for i := range late {
			if lateOf[i] != x.bigTarget {
				wg.Add(1)
				go func(f func()) { defer wg.Done(); f() }(late[i])
			}
		}
		wg.Wait()
	} else if state == "parked" && len(late) > 0 {
		order := run.order
		if len(order) != len(late) {
			order = nil
			for i := range late {
				order = append(order, i)
			}
		}
		if run.conc {
			var wg sync.WaitGroup
			for _, i := range order {
				wg.Add(1)
				go func(f func()) { defer wg.Done(); f() }(late[i])
			}
			wg.Wait()
		} else {
			for _, i := range order {
				late[i]()
				if state = x.rootState(); state != "parked" {
					break
				}
			}
		}
	}
	x.wg.Wait()
	if state = x.rootState(); state == "parked" {
		// every answer that will ever come was handled and the root still waits: the request context ends
		x.mu.Lock()
		e.cancelled++
		x.mu.Unlock()
		cancel()
	}
	select {
	case <-done:
	case <-time.After(rgWait):
		x.problem("the query does not return (root %s)", state)
		cancel()
		<-done
	}
	x.wg.Wait()
	if run.overlap != "" {
		st := e.overlaps[run.overlap]
		if st == nil {
			st = &rgOverlapStat{}
			e.overlaps[run.overlap] = st
		}
		st.Runs++
		if x.sawDecode {
			st.SawDecode++
		}
		if x.sawDecode && x.overlapped {
			st.WindowHit++
		}
		if e.debug {
			fmt.Fprintf(os.Stderr, "%s: saw decode %v, overlapped %v\n", run.label, x.sawDecode, x.overlapped)
		}
	}
	for _, p := range x.problems {
		e.sum.Unresolved = append(e.sum.Unresolved, run.label+": "+p)
	}
}

// rgResult: what MetricDataSearch returned, cells as [group, slot, value]
func rgResult(run *rgRun, rs any, err error) trace.F {
	if err != nil {
		cls := "other: " + err.Error()
		msg := err.Error()
		switch {
		case errors.Is(err, constants.ErrTimeout) || strings.Contains(msg, constants.ErrTimeout.Error()):
			cls = "timeout"
		case strings.Contains(msg, rgErrText):
			cls = "error"
		case strings.Contains(msg, "not found"):
			cls = "notfound"
		case strings.HasPrefix(msg, "panic:"):
			cls = "panic"
		}
		return trace.F{"ok": false, "err": cls, "msg": msg}
	}
	r, ok := rs.(*commonmodels.ResultSet)
	if !ok || r == nil {
		return trace.F{"ok": false, "err": "other: no result set", "msg": fmt.Sprintf("%T", rs)}
	}
	cells := [][]any{}
	bad := []string{}
	for _, s := range r.Series {
		g := ""
		if run.data.grouped {
			g = s.Tags["host"]
		}
		names := []string{}
		for n := range s.Fields {
			names = append(names, n)
		}
		sort.Strings(names)
		for _, n := range names {
			if n != "f" {
				bad = append(bad, "unknown result field "+n)
				continue
			}
			tss := []int64{}
			for t := range s.Fields[n] {
				tss = append(tss, t)
			}
			sort.Slice(tss, func(i, j int) bool { return tss[i] < tss[j] })
			for _, t := range tss {
				v := s.Fields[n][t]
				if v != math.Trunc(v) || math.Abs(v) >= 1e9 || (t-rgStart)%rgIv != 0 {
					bad = append(bad, fmt.Sprintf("group %q t=%d v=%v", g, t, v))
					continue
				}
				cells = append(cells, []any{g, (t - rgStart) / rgIv, int64(v)})
			}
		}
	}
	return trace.F{"ok": true, "err": "", "start": r.StartTime / 1000, "end": r.EndTime / 1000, "iv": r.Interval / 1000,
		"series": len(r.Series), "cells": cells, "bad": bad}
}

// ------------------------------------------------------------------ generators

func rgPerms(n int) [][]int { return qPerms(n) }

// every placement of np points on n leaves (also leaves without a point)
func rgPlacements(np, n int) [][]int {
	out := [][]int{}
	cur := make([]int, np)
	var rec func(i int)
	rec = func(i int) {
		if i == np {
			out = append(out, append([]int{}, cur...))
			return
		}
		for l := 0; l < n; l++ {
			cur[i] = l
			rec(i + 1)
		}
	}
	rec(0)
	return out
}

func (e *rgEnv) randData(np int, grouped bool, ftype string) *rgData {
	d := &rgData{ftype: ftype, grouped: grouped}
	for i := 0; i < np; i++ {
		p := rgPoint{slot: 1 + e.rng.Intn(4), v: 1 + e.rng.Intn(60)}
		if grouped {
			p.g = []string{"a", "b"}[e.rng.Intn(2)]
		}
		d.pts = append(d.pts, p)
	}
	// the same cell on two points (they may land on different leaves) and, when grouped, both groups
	if np >= 2 {
		d.pts[1].slot = d.pts[0].slot
		d.pts[1].g = d.pts[0].g
	}
	if grouped && np >= 3 {
		d.pts[0].g, d.pts[1].g, d.pts[2].g = "a", "a", "b"
	}
	return d
}

// kinds of the leaves of a placement: a leaf with points answers its data, a leaf without answers "empty" (the
// metric is known, nothing in range) or "not found"; fail > 0 makes one leaf answer with an error
func (e *rgEnv) kindsOf(d *rgData, place []int, n int, fail bool) []string {
	has := make([]bool, n)
	for _, l := range place {
		has[l] = true
	}
	k := make([]string, n)
	for i := range k {
		switch {
		case has[i]:
			k[i] = "data"
		case e.rng.Intn(2) == 0:
			k[i] = "empty"
		default:
			k[i] = "notfound"
		}
	}
	if fail {
		k[e.rng.Intn(n)] = "error"
	}
	return k
}

func rgModeKey(mode []string, conc bool) string {
	s := strings.Join(mode, ",")
	if conc {
		s += " conc"
	}
	return s
}

// schedules of one placement: the scripted ones (every prefix of the sends answered inline, the rest late; all
// late; all inline) plus sampled ones
func (e *rgEnv) schedules(n, sampled int, all bool) []*rgRun {
	out := []*rgRun{}
	add := func(mode []string, order []int, conc bool, label string) {
		out = append(out, &rgRun{mode: mode, order: order, conc: conc, label: label})
	}
	lateOf := func(mode []string) int {
		k := 0
		for _, m := range mode {
			if m == "late" {
				k++
			}
		}
		return k
	}
	randOrder := func(k int) []int { return e.rng.Perm(k) }
	if all {
		// every inline/late mask x every delivery order of the late ones
		for mask := 0; mask < 1<<n; mask++ {
			mode := make([]string, n)
			for i := range mode {
				mode[i] = "late"
				if mask&(1<<i) != 0 {
					mode[i] = "inline"
				}
			}
			for _, p := range rgPerms(lateOf(mode)) {
				add(mode, p, false, "mask")
			}
			if lateOf(mode) > 1 {
				add(mode, randOrder(lateOf(mode)), true, "mask-conc")
			}
		}
	} else {
		// the first k answers inline (k = 0: the usual case, every answer after the sends; k = n: a local leaf)
		for k := 0; k <= n; k++ {
			mode := make([]string, n)
			for i := range mode {
				mode[i] = "late"
				if i < k {
					mode[i] = "inline"
				}
			}
			add(mode, randOrder(n-k), false, fmt.Sprintf("prefix-%d", k))
		}
	}
	for s := 0; s < sampled; s++ {
		mode := make([]string, n)
		kindsOfMode := []string{"inline", "late", "late", "free"}
		for i := range mode {
			mode[i] = kindsOfMode[e.rng.Intn(len(kindsOfMode))]
		}
		add(mode, randOrder(lateOf(mode)), e.rng.Intn(3) == 0, "sampled")
	}
	return out
}

func queryRootMain(args []string) int {
	fs := flag.NewFlagSet("queryroot", flag.ExitOnError)
	seed := fs.Int64("seed", 1, "seed")
	out := fs.String("out", "queryroot.ndjson", "trace file")
	scratch := fs.String("scratch", "", "scratch directory")
	npts := fs.Int("points", 3, "points per data set (placements: every function points -> leaves, 1..3 leaves)")
	nsets := fs.Int("sets", 2, "data sets")
	sampled := fs.Int("sampled", 1, "sampled schedules per placement (next to the scripted ones)")
	all := fs.Bool("all", false, "every inline/late mask x every delivery order instead of the prefix schedules")
	overlaps := fs.Int("overlaps", 2, "overlap runs per shape (a handler inside the payload decode x another answer / the completion)")
	debug := fs.Bool("debug", false, "print runs to stderr")
	_ = fs.Parse(args)
	time.Local = time.UTC
	rec, err := trace.New(*out)
	if err != nil {
		fmt.Fprintln(os.Stderr, err)
		return 2
	}
	sum := &trace.Summary{Module: "RootGather", Extra: map[string]any{}}
	if *scratch == "" {
		d, _ := os.MkdirTemp("", "vqr")
		*scratch = d
		defer os.RemoveAll(d)
	}
	e := &rgEnv{rec: rec, sum: sum, rng: rand.New(rand.NewSource(*seed)), kinds: map[string]int{}, debug: *debug,
		byMode: map[string]int{}, byShape: map[string]int{}, overlaps: map[string]*rgOverlapStat{}}
	e.db = models.Database{Name: "rgdb", Option: &option.DatabaseOption{Intervals: option.Intervals{{Interval: timeutil.Interval(rgIv),
		Retention: timeutil.Interval(3650 * 24 * 3600 * 1000)}}}}
	tm, closeFn, err := rgNewTaskManager(filepath.Join(*scratch, "rgpool"))
	if err != nil {
		sum.Unresolved = append(sum.Unresolved, err.Error())
		rec.Close()
		sum.Print()
		return 0
	}
	e.tm = tm
	types := []string{"sum", "min", "max"}
	for s := 0; s < *nsets; s++ {
		d := e.randData(*npts, s%2 == 1, types[(int(*seed)+s)%3])
		for n := 1; n <= 3; n++ {
			for pi, place := range rgPlacements(len(d.pts), n) {
				scheds := e.schedules(n, *sampled, *all)
				for si, sc := range scheds {
					sc.data, sc.nleaf, sc.place = d, n, place
					// every fifth run has a failing leaf; a run in eleven loses one answer
					sc.kinds = e.kindsOf(d, place, n, (pi+si)%5 == 4)
					if (pi*7+si)%11 == 10 {
						sc.mode = append([]string{}, sc.mode...)
						sc.mode[e.rng.Intn(n)] = "lost"
						k := 0
						for _, m := range sc.mode {
							if m == "late" {
								k++
							}
						}
						sc.order = e.rng.Perm(k)
						sc.label += "+lost"
					}
					sc.label = fmt.Sprintf("set%d/%dleaves/place%v/%s", s, n, place, sc.label)
					e.exec(sc)
					e.byMode[rgModeKey(sc.mode, sc.conc)]++
					used := map[int]bool{}
					for _, l := range place {
						used[l] = true
					}
					e.byShape[fmt.Sprintf("leaves=%d with-data=%d", n, len(used))]++
				}
			}
		}
	}
	// nothing written at all: every assignment of "empty" / "not found" to 1..3 leaves (all not found is an error,
	// anything else an empty answer), under a scripted and a sampled schedule
	for _, grouped := range []bool{false, true} {
		d := &rgData{ftype: types[int(*seed)%3], grouped: grouped}
		for n := 1; n <= 3; n++ {
			for mask := 0; mask < 1<<n; mask++ {
				if grouped && (mask+n+int(*seed))%2 == 0 {
					continue
				}
				scheds := e.schedules(n, 1, false)
				for _, si := range []int{e.rng.Intn(n + 1), n + 1} {
					sc := scheds[si]
					sc.data, sc.nleaf, sc.place = d, n, []int{}
					sc.kinds = make([]string, n)
					for i := range sc.kinds {
						sc.kinds[i] = "empty"
						if mask&(1<<i) != 0 {
							sc.kinds[i] = "notfound"
						}
					}
					sc.label = fmt.Sprintf("nodata/%dleaves/%v/%s", n, sc.kinds, sc.label)
					e.exec(sc)
					e.byMode[rgModeKey(sc.mode, sc.conc)]++
					e.byShape[fmt.Sprintf("leaves=%d with-data=0", n)]++
				}
			}
		}
	}
	// a handler that is still decoding its payload x the other answers / the completion of the pipeline: every leaf
	// holds data no other leaf holds (one cell per point), so an answer that is not in the result is seen
	if *overlaps > 0 {
		e.calibrate()
	}
	for r := 0; r < *overlaps && e.ballast != nil; r++ {
		for _, shape := range []struct {
			overlap string
			n       int
		}{{"answer", 2}, {"answer", 3}, {"complete", 1}, {"complete", 2}} {
			d := &rgData{ftype: types[(int(*seed)+r+shape.n)%3], grouped: (int(*seed)+r+shape.n)%2 == 0}
			place := []int{}
			for i := 0; i < shape.n+1; i++ {
				p := rgPoint{slot: 1 + i, v: 1 + e.rng.Intn(60)}
				if d.grouped {
					p.g = []string{"a", "b"}[e.rng.Intn(2)]
				}
				d.pts = append(d.pts, p)
				place = append(place, i%shape.n)
			}
			sc := &rgRun{data: d, nleaf: shape.n, place: place, overlap: shape.overlap, big: e.rng.Intn(shape.n), order: []int{}}
			for i := 0; i < shape.n; i++ {
				sc.kinds = append(sc.kinds, "data")
				switch {
				case shape.overlap == "answer":
					sc.mode = append(sc.mode, "late")
				case i == shape.n-1:
					sc.mode = append(sc.mode, "hold")
				default:
					sc.mode = append(sc.mode, "inline")
				}
			}
			sc.label = fmt.Sprintf("overlap-%s/%dleaves/place%v", shape.overlap, shape.n, place)
			e.exec(sc)
			e.byMode[rgModeKey(sc.mode, false)+" overlap="+shape.overlap]++
			e.byShape[fmt.Sprintf("leaves=%d with-data=%d", shape.n, shape.n)]++
		}
	}
	closeFn()
	rec.Close()
	sum.Traces, sum.Events = rec.Counts()
	sum.Extra["overlaps"] = e.overlaps
	sum.Extra["ballast_bytes"] = len(e.ballast)
	sum.Extra["ballast_decode_ms"] = int(e.ballastMs)
	sum.Extra["events_by_kind"] = e.kinds
	sum.Extra["runs"] = e.runs
	sum.Extra["schedules"] = e.byMode
	sum.Extra["placements"] = e.byShape
	sum.Extra["answers_after_completion"] = e.evicted
	sum.Extra["request_context_ended"] = e.cancelled
	sum.Print()
	return 0
}
