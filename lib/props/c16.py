"""C16 -- ingestion canonicalises rows and routes them deterministically (module Ingest)."""
import json
import os

import vcore

TRACE = "IngestTrace"
CFG = "IngestTrace.cfg"
STRICT = "IngestTrace_strict.cfg"


def mode_of(lines):
    try:
        return json.loads(lines[0]).get("mode", "?")
    except (ValueError, IndexError):
        return "?"


def describe(sig, lines, rel, info):
    return "%s:mode=%s" % (sig, mode_of(lines))


def mutate_event(evname, fn):
    def mutate(lines):
        for i, ln in enumerate(lines):
            if ('"ev":"%s"' % evname) in ln:
                d = json.loads(ln)
                if fn(d):
                    out = list(lines)
                    out[i] = json.dumps(d, separators=(",", ":")) + "\n"
                    return out
        return None
    return mutate


def m_tags_order(d):
    if len(d["tags"]) >= 2:
        d["tags"][0], d["tags"][1] = d["tags"][1], d["tags"][0]
        return True
    return False


def m_row_ts(d):
    d["ts"][1] += 1
    return True


def m_row_field(d):
    if d["fields"]:
        d["fields"][0][1] = "max" if d["fields"][0][1] != "max" else "min"
        return True
    return False


def m_row_name(d):
    d["name"] = d["name"] + [95]
    return True


def first_group(d):
    for g in d["groups"]:
        if g["rids"]:
            return g
    return None


def m_route_shard(d):
    g = first_group(d)
    if g:
        g["shard"] += 1
        return True
    return False


def m_route_family(d):
    g = first_group(d)
    if g:
        g["family"][1] += 1
        return True
    return False


def m_route_lost(d):
    g = first_group(d)
    if g:
        g["rids"].pop()
        g["khs"].pop()
        g["tss"].pop()
        return True
    return False


def m_route_twice(d):
    g = first_group(d)
    if g:
        g["rids"].append(g["rids"][0])
        g["khs"].append(g["khs"][0])
        g["tss"].append(g["tss"][0])
        g["total"] += 1
        return True
    return False


def drop_event(evname):
    def mutate(lines):
        for i, ln in enumerate(lines):
            if ('"ev":"%s"' % evname) in ln:
                return lines[:i] + lines[i + 1:]
        return None
    return mutate


def run(ctx, replay):
    if replay:
        ok, info = ctx.validate_trace(TRACE, CFG, replay, dfs=False)
        if not ok:
            ctx.violation("Ingest:replay", "replayed trace rejected: %s" % info, replay_src=replay)
        return
    thorough = ctx.tier == "thorough"
    # ---- leg M: canonical form / partition / window on every small batch, all three family calculators
    ctx.model_check("MCIngest", "MCIngest_thorough.cfg" if thorough else "MCIngest.cfg", timeout=1500)
    ctx.model_check("MCIngest", "MCIngest_year.cfg", timeout=900)
    if thorough:
        ctx.model_check("MCIngest", "MCIngest_month.cfg", timeout=900)
    # the recorded finding in the model: a pooled batch that keeps its eviction flags drops valid rows
    ctx.model_check("MCIngest", "MCIngest_dev_stale.cfg", expect="violation", timeout=600)

    # ---- leg T
    tr = os.path.join(ctx.scratch, "ingest.ndjson")
    trf = os.path.join(ctx.scratch, "ingest-findings.ndjson")
    if thorough:
        args = ["--rounds", 1500, "--batches", 5, "--rows", 24, "--findings", 3, "--chan", 40]
    else:
        args = ["--rounds", 250, "--batches", 4, "--rows", 20, "--findings", 1, "--chan", 8]
    summ, rc, _ = ctx.run_vdrive(["ingest", "--seed", ctx.seed, "--out", tr, "--out-findings", trf] + args, timeout=1200)
    for u in summ["unresolved"]:
        raise vcore.Unresolved("ingest driver: %s" % u)
    for v in summ["violations"]:
        ctx.violation(v["signature"], v["detail"])
    ctx.extra["events"] = summ["events"]
    ctx.extra["input_classes_and_rows"] = summ["extra"].get("counts")
    ctx.extra["trace_files"] = summ["extra"].get("files")
    subs = vcore.split_traces(vcore.read_lines(tr))
    for t in subs[:3]:
        ctx.sample({"config": json.loads(t[0]), "events": len(t), "first_input": json.loads(t[2]) if len(t) > 2 else None})

    # (1) the main trace: everything must be accepted
    vcore.validate_all(ctx, TRACE, CFG, tr, describe=describe, dfs=False, timeout=1500)
    # (2) the sub-traces that exercise the recorded findings, judged without the named deviations
    n_find = len(vcore.split_traces(vcore.read_lines(trf)))
    vcore.validate_all(ctx, TRACE, STRICT, trf, describe=describe, dfs=False, max_rejections=n_find + 1)

    # ---- binding self-tests
    clean = os.path.join(ctx.scratch, "ingest-clean.ndjson")
    with open(clean, "w") as f:
        for t in subs[:6]:
            f.write("".join(t))
    res = ctx.tlc(TRACE, CFG, workers=1, files={"trace.ndjson": clean}, coverage=True, count=False)
    if res.kind != "ok":
        raise vcore.Unresolved("coverage run of the trace spec did not accept an accepted trace (%s)" % res.kind)
    taken = {k.split("@")[0]: v for k, v in res.coverage.items() if k.startswith("T") and "@IngestTrace" in k}
    ctx.extra["trace_action_coverage"] = taken
    missing = [a for a in ("TReset", "TBatch", "TInput", "TRow", "TParseEnd", "TRoute") if not taken.get(a)]
    if missing:
        raise vcore.Unresolved("vacuous: trace actions never taken: %s" % missing)
    ctx.legs.append({"leg": "T-coverage", "module": TRACE, "taken": taken})
    tests = [(mutate_event("Row", m_tags_order), "stored tags not sorted by key"),
             (mutate_event("Row", m_row_ts), "stored timestamp differs from the one sent"),
             (mutate_event("Route", m_route_shard), "a row reaches another shard"),
             (mutate_event("Route", m_route_family), "a family time that is not the start of a family"),
             (mutate_event("Route", m_route_lost), "a row inside the write window is dropped"),
             (drop_event("Row"), "an accepted metric has no row")]
    if thorough:
        tests += [(mutate_event("Row", m_row_field), "a field changes its type"),
                  (mutate_event("Row", m_row_name), "stored name differs from the one sent"),
                  (mutate_event("Route", m_route_twice), "a row reaches a family twice")]
    for mut, what in tests:
        vcore.corrupt_selftest(ctx, TRACE, CFG, clean, mut, what)
    ctx.assumptions += [
        "the routing loop of replica/channel_database.go databaseChannel.Write (evict, shard iterator, family iterator, per-row WriteTo as familyChannel.Write does) is transcribed in the driver: the channel objects need a running broker (unexported constructor, rpc stream factory); the iterators, eviction and rows are the real ones",
        "hashes are uninterpreted: TLC checks that the tags hash is an injective function of the canonical tag list, the name hash of namespace++name, the shard of (tags hash, shard count), learned per sub-trace across formats, tag orders and batches",
        "the class of a field value (number / NaN / Inf) and of a histogram (well formed / malformed) is part of the logged input description; malformed histograms are of kinds every format rejects (negative value, decreasing bounds, last bound not +Inf, negative sum)",
        "line protocol inputs are rendered from abstract metrics (escaped ',', ' ', '='; no backslash, quote or newline characters); TZ=UTC; the code reads its own clock, so instants closer than 20 s to a window bound are not generated and the specification allows either outcome within the measured clock interval",
        "-0.0 and +0.0 are one value (the flat encoding elides a field equal to its default)",
    ]
