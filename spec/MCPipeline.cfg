CONSTANTS
  MCTrees <- MCTreesAll
  WithNextPanic = TRUE
  SuccessOnlyAtEnd = TRUE
  RegisterAtomic = TRUE
  KeepFirstError = TRUE
  RecoverPerStage = TRUE
  FirstErrorWins = TRUE
  ErrReadAtCompletion = TRUE
SPECIFICATION MCSpec
INVARIANTS AtMostOnce OnlyAfterAll OnlyAfterAllStrong ErrorReported ExactlyOnceAtEnd PendingSane PreOrderOK NoOpAfterFailure FailureIsOutcome WalkComplete CompletedOnce
PROPERTY Terminates
CHECK_DEADLOCK FALSE
