"""C06 -- WAL consumer groups: ordered positions, GC never outruns an unacked reader (module WALQueue)."""
import vcore
from props import walcommon


def run(ctx, replay):
    if replay:
        ok, info = ctx.validate_trace("WALQueueTrace", "WALQueueTrace.cfg", replay, dfs=False)
        if not ok:
            ctx.violation("WALQueue:replay", "replayed trace rejected: %s" % info, replay_src=replay)
        return
    thorough = ctx.tier == "thorough"
    ctx.model_check("MCWALQueue", "MCWALQueue.cfg" if thorough else "MCWALQueue_quick.cfg", coverage=thorough, timeout=1800)
    # sensitivity: a reloaded group that keeps its old consumed position (pre-repair) must violate GroupOrder
    ctx.model_check("MCWALQueue", "MCWALQueue_devclamp.cfg", expect="violation", timeout=900)
    # sensitivity: "the group has stored positions" decided by its directory instead of its meta page file must violate
    # GroupOrder (a directory left by a failed / killed creation: positions read from a zero-filled page)
    ctx.model_check("MCWALQueue", "MCWALQueue_devmeta.cfg", expect="violation", timeout=900)
    if thorough:
        tr = walcommon.run_wal(ctx, ["--histories", 400, "--ops", 120, "--images", 10, "--grouptail"], "g")
        walcommon.run_wal(ctx, ["--histories", 0, "--groupfail", 12], "groupfail")
        walcommon.run_wal(ctx, ["--histories", 0, "--big", 6], "big")
        walcommon.run_wal(ctx, ["--histories", 0, "--groupconc", 60], "groupconc")
        walcommon.run_wal(ctx, ["--histories", 0, "--boundarygc", 8], "boundarygc")
    else:
        tr = walcommon.run_wal(ctx, ["--histories", 60, "--ops", 80, "--images", 2, "--grouptail"], "g")
        # group creation disturbed between its two durable steps (mkdir by the page factory / meta page file): the page
        # acquisition fails and the call is retried in the same process, or the queue is reopened on the directory left
        # behind; imaged after every store (kill between mkdir and page file), recovered groups consume / ack / Sync / GC
        walcommon.run_wal(ctx, ["--histories", 0, "--groupfail", 2], "groupfail")
        walcommon.run_wal(ctx, ["--histories", 0, "--big", 1], "big")
        # one thread consumes while another one acknowledges on the same group, gated at every group-meta store
        walcommon.run_wal(ctx, ["--histories", 0, "--groupconc", 10], "groupconc")
        # Sync + GC while the acknowledged position and the append position lie in different index pages (262144 entries
        # each) and different data pages: GC must release exactly the data pages below the one holding the acknowledged
        # message
        walcommon.run_wal(ctx, ["--histories", 0, "--boundarygc", 2], "boundarygc")
    # leg R: histories of group operations (create / failed creation / stop / consume / acknowledge / set-consumed / Sync /
    # GC / close / reopen) chosen by TLC from the store-level model, executed against the real fan-out queue
    walcommon.run_generated(ctx, "WALQueueGen_small.cfg", 500 if thorough else 80, 400, 1, "small", maximages=4, seed_shift=5)
    walcommon.run_generated(ctx, "WALQueueGen_roll.cfg", 40 if thorough else 4, 260, 32 * 1024 * 1024, "roll", maximages=2, seed_shift=6)
    vcore.corrupt_selftest(ctx, "WALQueueTrace", "WALQueueTrace.cfg", tr, walcommon.mutate_proj, "a message reads back other bytes")

    def bump_ack(lines):
        import json
        for i, ln in enumerate(lines):
            if '"ev":"Proj"' in ln and '"groups":{"' in ln:
                d = json.loads(ln)
                g = sorted(d["proj"]["groups"])[0]
                d["proj"]["groups"][g]["ack"] += 1
                out = list(lines)
                out[i] = json.dumps(d, separators=(",", ":")) + "\n"
                return out
        return None
    vcore.corrupt_selftest(ctx, "WALQueueTrace", "WALQueueTrace.cfg", tr, bump_ack, "a group's acknowledged position +1")
    ctx.assumptions += [
        "creation of a consumer group = mkdir (page factory) then meta page file + its first two stores as ONE step: kill / fault points between mkdir and page file are covered, a kill between the creation of the zero-filled page file and its two first stores is not",
        "operations of one history are issued sequentially, except the groupconc histories: one consuming and one acknowledging thread on one group, gated at every store into the group's meta page (the calls are serialised by the group's lock in the code; the Op event of a call is emitted at its first store)",
        "explicit index resets: only the forward reset is part of the model (the property excludes resets)",
    ]
