"""C15 -- table files and merged iteration return exactly what was added (module TableFile)."""
import json
import os

import vcore

DEVS_QUICK = ["merge_no_fix", "find_exclusive_max", "find_one_per_level"]
DEVS_ALL = ["merge_no_fix", "find_exclusive_max", "find_one_per_level", "stream_abort", "stream_ignores_order"]


def describe(sig, lines, rel, info):
    try:
        mode = json.loads(lines[0]).get("mode", "?")
    except ValueError:
        mode = "?"
    return "%s:%s" % (sig, mode)


def _mutate(pred, change):
    def f(lines):
        for i, ln in enumerate(lines):
            try:
                d = json.loads(ln)
            except ValueError:
                continue
            if pred(d):
                change(d)
                out = list(lines)
                out[i] = json.dumps(d, separators=(",", ":")) + "\n"
                return out
        return None
    return f


def _swap_first_distinct(d):
    ks = d["ks"]
    for i in range(len(ks) - 1):
        if ks[i] != ks[i + 1]:
            ks[i], ks[i + 1] = ks[i + 1], ks[i]
            d["vs"][i], d["vs"][i + 1] = d["vs"][i + 1], d["vs"][i]
            return


def run(ctx, replay):
    if replay:
        ok, info = ctx.validate_trace("TableFileTrace", "TableFileTrace.cfg", replay, dfs=False)
        if not ok:
            ctx.violation("TableFile:replay", "replayed trace rejected: %s" % info, replay_src=replay)
        return
    thorough = ctx.tier == "thorough"
    # M: every sequence of builder operations for 2 files (4 keys around the 65536 boundary) and for 3 files
    # (3 keys): offsets + rank lookup, stream writer, heap merge in every input order, min/max file selection
    # level by level under every placement of the files in levels 0..2 (deviation find_one_per_level: a scan that
    # stops at the first covering file of a level above 0 loses files / values)
    ctx.model_check("MCTableFile", "MCTableFile_thorough.cfg" if thorough else "MCTableFile.cfg", timeout=1800)
    ctx.model_check("MCTableFile", "MCTableFile_3files_thorough.cfg" if thorough else "MCTableFile_3files.cfg", timeout=2400)
    for dev in (DEVS_ALL if thorough else DEVS_QUICK):
        ctx.model_check("MCTableFile", "MCTableFile_dev_%s.cfg" % dev, expect="violation", timeout=600)

    # T: the real builder / reader / merged iterator / version lookups
    nh, nv, nb, bigkeys = (500, 250, 4, 100000) if thorough else (60, 30, 1, 30000)
    # level histories (each count = one edit-log history + one flush/compaction history): several files with
    # overlapping / nested / identical key ranges in levels 1 and 2, every lookup repeated 32 times
    nl = 20 if thorough else 4
    tr = os.path.join(ctx.scratch, "table.ndjson")
    scr = os.path.join(ctx.scratch, "scr-table")
    os.makedirs(scr, exist_ok=True)
    summ, rc, _ = ctx.run_vdrive(["table", "--seed", ctx.seed, "--histories", nh, "--versions", nv, "--big", nb,
                                  "--levels", nl, "--bigkeys", bigkeys, "--out", tr, "--scratch", scr], timeout=1800)
    for u in summ["unresolved"]:
        raise vcore.Unresolved("table driver: %s" % u)
    for s in summ["samples"][:4]:
        ctx.sample(s)
    kinds = summ["extra"]["events_by_kind"]
    ctx.extra["events"] = summ["events"]
    ctx.extra["events_by_kind"] = kinds
    ctx.extra["distinct_values"] = summ["extra"]["distinct_values"]
    ctx.extra["big_table_keys"] = bigkeys
    if not kinds.get("Panic"):
        missing = [k for k in ("Create", "Offered", "Close", "Open", "Get", "Iterate", "Merged", "Flushed", "Found",
                               "Loaded", "BigBuilt", "BigGet", "BigAbsent", "BigIterated", "Installed", "Removed", "Listed",
                               "Compacted", "Moved") if not kinds.get(k)]
        if missing:
            raise vcore.Unresolved("vacuous run: no event of kind %s" % missing)
    vcore.validate_all(ctx, "TableFileTrace", "TableFileTrace.cfg", tr, describe=describe, dfs=False, timeout=1800)

    # a flush that carries only empty values (known finding C15-K1): re-confirmed on the real code on every run
    tre = os.path.join(ctx.scratch, "table-emptyflush.ndjson")
    ne = 2
    summ2, rc, _ = ctx.run_vdrive(["table", "--seed", ctx.seed, "--histories", 0, "--versions", 0, "--big", 0,
                                   "--emptyflush", ne, "--out", tre, "--scratch", scr], timeout=300)
    for u in summ2["unresolved"]:
        raise vcore.Unresolved("table driver: %s" % u)
    ctx.extra["events"] += summ2["events"]
    vcore.validate_all(ctx, "TableFileTrace", "TableFileTrace.cfg", tre, describe=describe, dfs=False, max_rejections=ne + 2)

    # binding self-tests
    traces = vcore.split_traces(vcore.read_lines(tr))
    pick = [t for t in traces if '"mode":"tables"' in t[0]][:6] + [t for t in traces if '"mode":"version"' in t[0]][:4] \
        + [t for t in traces if '"mode":"big"' in t[0]][:1] + [t for t in traces if '"mode":"levels"' in t[0] and ('"ev":"Removed"' in "".join(t) or '"ev":"Moved"' in "".join(t))][:2]
    clean = os.path.join(ctx.scratch, "table-clean.ndjson")
    with open(clean, "w") as f:
        for t in pick:
            f.write("".join(t))
    tests = [
        ("a lookup answers another key's bytes",
         lambda d: d.get("ev") == "Get" and d["found"],
         lambda d: d.__setitem__("v", d["v"] + 1)),
        ("two entries of a merged iteration come out in the wrong order",
         lambda d: d.get("ev") == "Merged" and len({tuple(k) for k in d["ks"]}) > 1,
         _swap_first_distinct),
        ("the file selection misses a file",
         lambda d: d.get("ev") == "Found" and len(d["fs"]) > 0,
         lambda d: d["fs"].pop()),
        ("a compaction leaves one of its inputs in the version",
         lambda d: d.get("ev") == "Compacted" and len(d["ins"]) > 1,
         lambda d: d["ins"].pop()),
        ("a file is listed one level too high",
         lambda d: d.get("ev") == "Listed" and len(d["files"]) > 0,
         lambda d: d["files"][0].__setitem__(1, d["files"][0][1] + 1)),
    ]
    if thorough:
        tests += [
            ("an absent key is reported present",
             lambda d: d.get("ev") == "Get" and not d["found"],
             lambda d: (d.__setitem__("found", True), d.__setitem__("v", 1))),
            ("a merged iteration loses an entry",
             lambda d: d.get("ev") == "Merged" and len(d["ks"]) > 1,
             lambda d: (d["ks"].pop(), d["vs"].pop())),
            ("a version lookup returns one value too few",
             lambda d: d.get("ev") == "Loaded" and len(d["vs"]) > 1,
             lambda d: d["vs"].pop()),
            ("an out-of-order key changes the builder's max key",
             lambda d: d.get("ev") == "Offered" and d["proj"]["count"] > 1 and d["k"] != d["proj"]["max"],
             lambda d: d["proj"].__setitem__("max", d["k"])),
            ("a big table answers the neighbour's value",
             lambda d: d.get("ev") == "BigGet" and d["found"],
             lambda d: d.__setitem__("vi", d["vi"] + 1)),
            ("iteration of a table skips its first key",
             lambda d: d.get("ev") == "Iterate" and len(d["ks"]) > 1,
             lambda d: (d["ks"].pop(0), d["vs"].pop(0))),
            ("a lookup after a compaction misses an atom of the merged value",
             lambda d: d.get("ev") == "Loaded" and any(isinstance(v, list) and len(v) > 1 for v in d["vs"]),
             lambda d: [v for v in d["vs"] if isinstance(v, list) and len(v) > 1][0].pop()),
            ("a compaction output covers one key less than the merged inputs",
             lambda d: d.get("ev") == "Compacted" and len(d["outs"]) > 0 and d["outs"][-1]["max"] != d["outs"][-1]["min"],
             lambda d: d["outs"][-1].__setitem__("max", d["outs"][-1]["min"])),
            ("an installed file is reported one level lower",
             lambda d: d.get("ev") == "Installed" and d["lvl"] > 0,
             lambda d: d.__setitem__("lvl", d["lvl"] - 1)),
        ]
    for what, pred, change in tests:
        vcore.corrupt_selftest(ctx, "TableFileTrace", "TableFileTrace.cfg", clean, _mutate(pred, change), what)
    if thorough:
        cov = ctx.tlc("TableFileTrace", "TableFileTrace.cfg", workers=1, files={"trace.ndjson": clean}, coverage=True, count=False)
        never = [k for k, v in cov.coverage.items() if k.startswith("T") and "@TableFileTrace" in k and v == 0]
        ctx.extra["trace_action_coverage"] = {k: v for k, v in cov.coverage.items() if "@TableFileTrace" in k}
        if never:
            raise vcore.Unresolved("trace actions never taken: %s" % never)
    ctx.assumptions += [
        "values are compared through the recorder's interning (equal bytes <=> equal id); keys are logged as (high 16 bits, low 16 bits)",
        "readers are obtained through the exported reader cache (table.NewCache(..).GetReader), versions through a real kv store whose family never compacts during the run (threshold 1000); one flush = one file",
        "big tables (10^5 keys) are judged on sampled lookups and sampled iteration rows: each value carries its own position, so a value handed out for the wrong key or position is visible on every sample",
        "the stream writer is always used as Prepare, Write.., Commit; a stream that is written but never committed leaves its bytes in the previous key's value (model deviation stream_abort) -- the caller's duty, not driven on the real code",
        "level histories: files are installed above level 0 through CommitFamilyEditLog of a real version set (tables written by the traced builder) "
        "and by Family.Compact / the store's compaction check of a real family whose merger is the harness's union merger (values = ascending atom "
        "lists, never empty); every lookup is repeated 32 times because the files of a level are visited in map order; the compaction threshold itself "
        "(when a compaction starts) is not modelled, only what one run of the job does to the version",
        "the order in which a merged iterator hands out entries of EQUAL keys, and the order of values of one key across files of one level, is not fixed by the code (heap / map iteration): compared as multisets",
    ]
