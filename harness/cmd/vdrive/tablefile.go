package main

// vdrive table: C15 -- table files and merged iteration return exactly what was added.
//
// Drives the real kv/table builder (Add and the stream writer), the real reader obtained through
// the reader cache, table.NewMergedIterator, and version lookups of a real kv store
// (FindFiles / FindReaders / Load of a snapshot); "levels" histories put several files with
// overlapping / nested / identical key ranges into levels 1 and 2 (edit logs on a real version set;
// real flushes + level-0 compactions with the union merger) and repeat every lookup 32 times.  The driver offers keys and values and writes
// down what the code answers; keys are logged as <<high 16, low 16>> pairs, values as interned
// ids of their bytes (equal bytes <=> equal id).  TLC judges every answer against spec/TableFile.tla.

import (
	"encoding/binary"
	"flag"
	"fmt"
	"math"
	"math/rand"
	"os"
	"path/filepath"
	"runtime"
	"sort"
	"strconv"
	"strings"
	"time"

	"github.com/lindb/lindb/kv"
	"github.com/lindb/lindb/kv/table"
	"github.com/lindb/lindb/kv/version"

	"verif/harness/internal/trace"
)

func init() { register("table", tableMain) }

type tblRun struct {
	rec     *trace.Recorder
	rng     *rand.Rand
	sum     *trace.Summary
	vids    map[string]int
	counts  map[string]int
	scratch string
	nextT   int
	bigVals [][]byte
}

func (r *tblRun) emit(ev string, f trace.F) {
	r.counts[ev]++
	if r.counts[ev] == 2 && len(r.sum.Samples) < 6 && (ev == "Get" || ev == "Merged" || ev == "Loaded" || ev == "BigGet" || ev == "Found") {
		g := trace.F{"ev": ev}
		for k, v := range f {
			g[k] = v
		}
		r.sum.Samples = append(r.sum.Samples, g)
	}
	r.rec.Emit(ev, f)
}

func (r *tblRun) vid(b []byte) int {
	if id, ok := r.vids[string(b)]; ok {
		return id
	}
	id := len(r.vids) + 1
	r.vids[string(b)] = id
	return id
}

func kp(k uint32) []int { return []int{int(k >> 16), int(k & 0xFFFF)} }

// ---------------------------------------------------------------- generators

// genKeys: the keys offered to one builder, in offering order (mostly ascending, some not)
func (r *tblRun) genKeys(maxN int) []uint32 {
	n := 1 + r.rng.Intn(40)
	switch r.rng.Intn(8) {
	case 0:
		n = 1
	case 1:
		n = 200 + r.rng.Intn(maxN)
	}
	var base uint64
	switch r.rng.Intn(7) {
	case 0:
		base = 0
	case 1: // just below a container boundary
		base = uint64(1+r.rng.Intn(5))*65536 - uint64(1+r.rng.Intn(n+1))
	case 2: // the top of the key space
		base = math.MaxUint32 - uint64(n)*3
	case 3:
		base = uint64(r.rng.Intn(1 << 31))
	default:
		base = uint64(r.rng.Intn(200000))
	}
	shape := r.rng.Intn(6)
	keys := make([]uint32, 0, n)
	k := base
	for i := 0; i < n; i++ {
		switch shape {
		case 0: // dense: consecutive keys (run containers)
			k++
		case 1: // sparse: big steps, many containers
			k += 1 + uint64(r.rng.Intn(40000))
		case 2: // runs with holes
			if r.rng.Intn(10) == 0 {
				k += 2 + uint64(r.rng.Intn(300))
			} else {
				k++
			}
		case 3: // every other key
			k += 2
		case 4: // steps of exactly one container
			k += 65536
		default:
			k += 1 + uint64(r.rng.Intn(5))
		}
		if i == 0 && r.rng.Intn(3) == 0 {
			k = base // may be 0
		}
		if k > math.MaxUint32 {
			k = math.MaxUint32
		}
		keys = append(keys, uint32(k))
	}
	if r.rng.Intn(6) == 0 {
		keys = append(keys, math.MaxUint32)
	}
	// disturb the order: repeats, keys from the past, one far below
	if r.rng.Intn(2) == 0 {
		m := 1 + r.rng.Intn(1+len(keys)/8)
		for j := 0; j < m; j++ {
			at := r.rng.Intn(len(keys) + 1)
			var bad uint32
			switch r.rng.Intn(4) {
			case 0:
				bad = keys[r.rng.Intn(len(keys))]
			case 1:
				if at > 0 {
					bad = keys[at-1] // the same key again
				}
			case 2:
				bad = 0
			default:
				bad = uint32(r.rng.Intn(1 << 20))
			}
			keys = append(keys[:at], append([]uint32{bad}, keys[at:]...)...)
		}
	}
	return keys
}

func (r *tblRun) genValue(bigOK bool) []byte {
	var n int
	switch r.rng.Intn(12) {
	case 0:
		n = 0
	case 1:
		n = 1
	case 2:
		n = 255 + r.rng.Intn(3)
	case 3:
		n = 65535 + r.rng.Intn(3)
	case 4:
		n = 1000 + r.rng.Intn(9000)
	default:
		n = r.rng.Intn(40)
	}
	if bigOK && r.rng.Intn(60) == 0 {
		n = 1<<20 + r.rng.Intn(3<<20) // megabytes
	}
	b := make([]byte, n)
	if n > 4096 {
		// cheap but position dependent
		x := byte(r.rng.Intn(256))
		for i := range b {
			b[i] = x + byte(i) + byte(i>>8)
		}
		return b
	}
	if r.rng.Intn(4) == 0 {
		// few distinct values: the same bytes under several keys and in several files
		for i := range b {
			b[i] = byte(n)
		}
		return b
	}
	r.rng.Read(b)
	return b
}

// ---------------------------------------------------------------- small tables

type tblFile struct {
	t      int
	fn     table.FileNumber
	closed bool
	min    uint32 // the builder's MinKey / MaxKey / Size at Close (metadata of an installed file)
	max    uint32
	size   uint32
	keys   []uint32 // as accepted according to the builder's own count (only to choose probes)
	offers []uint32
}

func projOf(b table.Builder) trace.F {
	return trace.F{"min": kp(b.MinKey()), "max": kp(b.MaxKey()), "count": int(b.Count()), "size": int(b.Size())}
}

func (r *tblRun) buildTable(dir string, fn table.FileNumber, maxN int) (*tblFile, error) {
	return r.buildTableOf(dir, fn, maxN, nil)
}

// buildTableOf: offers == nil: generated keys; else exactly these keys in this order
func (r *tblRun) buildTableOf(dir string, fn table.FileNumber, maxN int, given []uint32) (*tblFile, error) {
	r.nextT++
	tf := &tblFile{t: r.nextT, fn: fn}
	b, err := table.NewStoreBuilder(fn, filepath.Join(dir, version.Table(fn)))
	if err != nil {
		return nil, err
	}
	r.emit("Create", trace.F{"t": tf.t})
	var offers []uint32
	if given != nil {
		offers = given
	} else if r.rng.Intn(25) != 0 {
		offers = r.genKeys(maxN)
	}
	streamMode := r.rng.Intn(3) // 0 add only, 1 stream only, 2 mixed
	sw := b.StreamWriter()
	for _, k := range offers {
		v := r.genValue(len(offers) < 60)
		before := b.Count()
		f := trace.F{"t": tf.t, "k": kp(k), "v": r.vid(v), "len": len(v), "ssize": 0}
		if streamMode == 1 || (streamMode == 2 && r.rng.Intn(2) == 0) {
			f["via"] = "stream"
			if r.rng.Intn(8) == 0 {
				sw = b.StreamWriter() // a new writer object
			}
			sw.Prepare(k)
			rest := v
			for parts := r.rng.Intn(4); parts > 0 && len(rest) > 0; parts-- {
				c := r.rng.Intn(len(rest) + 1)
				if _, err := sw.Write(rest[:c]); err != nil {
					return nil, err
				}
				rest = rest[c:]
			}
			if _, err := sw.Write(rest); err != nil {
				return nil, err
			}
			f["ssize"] = int(sw.Size())
			if err := sw.Commit(); err != nil {
				return nil, err
			}
			if r.rng.Intn(6) == 0 {
				_ = sw.Commit() // committing twice must change nothing
			}
		} else {
			f["via"] = "add"
			if err := b.Add(k, v); err != nil {
				return nil, err
			}
		}
		f["proj"] = projOf(b)
		r.emit("Offered", f)
		if b.Count() > before {
			tf.keys = append(tf.keys, k)
		}
		tf.offers = append(tf.offers, k)
	}
	cerr := b.Close()
	r.emit("Close", trace.F{"t": tf.t, "err": cerr != nil})
	tf.closed = cerr == nil
	tf.min, tf.max, tf.size = b.MinKey(), b.MaxKey(), b.Size()
	return tf, nil
}

func (r *tblRun) probeKeys(tf *tblFile, limit int) []uint32 {
	set := map[uint32]bool{0: true, math.MaxUint32: true, uint32(r.rng.Uint32()): true}
	add := func(k uint32) {
		set[k] = true
		set[k+1] = true
		set[k-1] = true
	}
	if len(tf.keys) <= limit {
		for _, k := range tf.keys {
			add(k)
		}
	} else {
		add(tf.keys[0])
		add(tf.keys[len(tf.keys)-1])
		for i := 0; i < limit; i++ {
			add(tf.keys[r.rng.Intn(len(tf.keys))])
		}
	}
	for _, k := range tf.offers {
		if r.rng.Intn(4) == 0 {
			set[k] = true
		}
	}
	// the other end of a key's container and the same low bits in the neighbour containers
	for i := 0; i < 4 && len(tf.keys) > 0; i++ {
		k := tf.keys[r.rng.Intn(len(tf.keys))]
		set[k^0xFFFF] = true
		set[k+65536] = true
		set[k-65536] = true
	}
	out := make([]uint32, 0, len(set))
	for k := range set {
		out = append(out, k)
	}
	sort.Slice(out, func(i, j int) bool { return out[i] < out[j] })
	r.rng.Shuffle(len(out), func(i, j int) { out[i], out[j] = out[j], out[i] })
	return out
}

func (r *tblRun) readTable(cache table.Cache, tf *tblFile) table.Reader {
	rd, err := cache.GetReader("fam", version.Table(tf.fn))
	r.emit("Open", trace.F{"t": tf.t, "err": err != nil})
	if err != nil {
		return nil
	}
	for _, k := range r.probeKeys(tf, 40) {
		v, gerr := rd.Get(k)
		f := trace.F{"t": tf.t, "k": kp(k), "found": gerr == nil, "v": 0}
		if gerr == nil {
			f["v"] = r.vid(v)
		} else if gerr != table.ErrKeyNotExist {
			f["v"] = -1
			f["found"] = true // an error other than "absent": no reference answer matches
		}
		r.emit("Get", f)
	}
	ks, vs := iterAll(r, rd.Iterator(), len(tf.offers)+10)
	r.emit("Iterate", trace.F{"t": tf.t, "ks": ks, "vs": vs})
	return rd
}

func iterAll(r *tblRun, it table.Iterator, limit int) (ks [][]int, vs []int) {
	ks, vs = make([][]int, 0), make([]int, 0)
	for i := 0; it.HasNext() && i < limit; i++ {
		ks = append(ks, kp(it.Key()))
		vs = append(vs, r.vid(it.Value()))
	}
	return
}

func (r *tblRun) tableHistory(h int, maxN int) {
	r.rec.Reset(trace.F{"h": h, "mode": "tables"})
	root := filepath.Join(r.scratch, fmt.Sprintf("t%d", h))
	dir := filepath.Join(root, "fam")
	_ = os.MkdirAll(dir, 0o755)
	defer os.RemoveAll(root)
	cache := table.NewCache(root, time.Hour)
	defer cache.Close()
	nt := 1 + r.rng.Intn(4)
	var files []*tblFile
	readers := map[int]table.Reader{}
	for i := 0; i < nt; i++ {
		tf, err := r.buildTable(dir, table.FileNumber(i+1), maxN)
		if err != nil {
			r.sum.Unresolved = append(r.sum.Unresolved, "builder i/o: "+err.Error())
			return
		}
		files = append(files, tf)
		if rd := r.readTable(cache, tf); rd != nil {
			readers[tf.t] = rd
		}
	}
	// merged iteration over any selection of the tables (also none, also one twice)
	for m := 0; m < 3; m++ {
		var ts []int
		var its []table.Iterator
		total := 0
		for c := r.rng.Intn(5); c > 0; c-- {
			tf := files[r.rng.Intn(len(files))]
			if rd, ok := readers[tf.t]; ok {
				ts = append(ts, tf.t)
				its = append(its, rd.Iterator())
				total += len(tf.keys)
			}
		}
		if m == 0 { // all of them once
			ts, its, total = nil, nil, 0
			for _, tf := range files {
				if rd, ok := readers[tf.t]; ok {
					ts = append(ts, tf.t)
					its = append(its, rd.Iterator())
					total += len(tf.keys)
				}
			}
		}
		if ts == nil {
			ts = []int{}
		}
		ks, vs := iterAll(r, table.NewMergedIterator(its), total+10)
		r.emit("Merged", trace.F{"ts": ts, "ks": ks, "vs": vs})
	}
	var rds []table.Reader
	for _, rd := range readers {
		rds = append(rds, rd)
	}
	cache.ReleaseReaders(rds)
}

// ---------------------------------------------------------------- version lookups

func fileNum(name string) int {
	n, err := strconv.Atoi(strings.TrimSuffix(name, filepath.Ext(name)))
	if err != nil {
		return -1
	}
	return n
}

func (r *tblRun) versionHistory(h int, emptyFlush bool) {
	mode := "version"
	if emptyFlush {
		mode = "emptyflush" // the last flush carries only empty values
	}
	r.rec.Reset(trace.F{"h": h, "mode": mode})
	registerUnionMerger()
	path := filepath.Join(r.scratch, fmt.Sprintf("v%d", h))
	defer os.RemoveAll(path)
	opt := kv.DefaultStoreOption()
	store, err := kv.GetStoreManager().CreateStore(path, opt)
	if err != nil {
		r.sum.Unresolved = append(r.sum.Unresolved, "create store: "+err.Error())
		return
	}
	closed := false
	defer func() {
		if !closed {
			_ = kv.GetStoreManager().CloseStore(path)
		}
	}()
	defer r.onPanic() // runs before the store is closed: a panicking flusher still holds the family's flush lock
	fam, err := store.CreateFamily("f", kv.FamilyOption{Merger: unionMerger, CompactThreshold: 1000})
	if err != nil {
		r.sum.Unresolved = append(r.sum.Unresolved, "create family: "+err.Error())
		return
	}
	known := map[int]bool{}
	var allKeys []uint32
	nfl := 1 + r.rng.Intn(6)
	if emptyFlush {
		nfl = 2
	}
	// the files of one version overlap: they draw their keys from one pool
	pool := r.genKeys(60)
	sort.Slice(pool, func(i, j int) bool { return pool[i] < pool[j] })
	for i := 0; i < nfl; i++ {
		fl := fam.NewFlusher()
		var offers []uint32
		switch r.rng.Intn(3) {
		case 0: // a contiguous part of the pool
			a := r.rng.Intn(len(pool))
			b := a + 1 + r.rng.Intn(len(pool)-a)
			offers = append(offers, pool[a:b]...)
		case 1: // a scattered part
			for _, k := range pool {
				if r.rng.Intn(3) == 0 {
					offers = append(offers, k)
				}
			}
		default:
			offers = r.genKeys(60)
		}
		if len(offers) == 0 {
			offers = []uint32{pool[0]}
		}
		if r.rng.Intn(4) == 0 && len(offers) > 2 { // one key out of order
			j := 1 + r.rng.Intn(len(offers)-1)
			offers[j] = offers[0]
		}
		puts := make([][]any, 0, len(offers))
		for _, k := range offers {
			v := r.genValue(false)
			if len(v) == 0 {
				v = []byte{byte(k)}
			}
			if emptyFlush && i == nfl-1 {
				v = []byte{}
			}
			if r.rng.Intn(2) == 0 {
				err = fl.Add(k, v)
			} else {
				var sw table.StreamWriter
				sw, err = fl.StreamWriter()
				if err == nil {
					sw.Prepare(k)
					h := len(v) / 2
					_, _ = sw.Write(v[:h])
					_, _ = sw.Write(v[h:])
					err = sw.Commit()
				}
			}
			if err != nil {
				r.sum.Unresolved = append(r.sum.Unresolved, "flusher i/o: "+err.Error())
				fl.Release()
				return
			}
			puts = append(puts, []any{kp(k), r.vid(v), len(v)})
			allKeys = append(allKeys, k)
		}
		err = fl.Commit()
		fl.Release()
		if err != nil {
			r.sum.Unresolved = append(r.sum.Unresolved, "flusher commit: "+err.Error())
			return
		}
		snap := fam.GetSnapshot()
		var added []*version.FileMeta
		for _, fm := range snap.GetCurrent().GetAllFiles() {
			if !known[int(fm.GetFileNumber())] {
				added = append(added, fm)
			}
		}
		snap.Close()
		if len(added) != 1 {
			r.emit("Flushed", trace.F{"f": -1, "puts": puts, "min": kp(0), "max": kp(0), "files": len(added)})
			return
		}
		fm := added[0]
		known[int(fm.GetFileNumber())] = true
		r.emit("Flushed", trace.F{"f": int(fm.GetFileNumber()), "puts": puts, "min": kp(fm.GetMinKey()), "max": kp(fm.GetMaxKey())})
		if r.rng.Intn(3) == 0 {
			r.probeVersion(fam, allKeys, 10)
		}
	}
	r.probeVersion(fam, allKeys, 40)
	if r.rng.Intn(2) == 0 {
		// the same answers after the store was closed and opened again
		_ = kv.GetStoreManager().CloseStore(path)
		closed = true
		store, err = kv.GetStoreManager().CreateStore(path, opt)
		if err != nil {
			r.sum.Unresolved = append(r.sum.Unresolved, "reopen store: "+err.Error())
			return
		}
		closed = false
		fam = store.GetFamily("f")
		if fam == nil {
			r.emit("Found", trace.F{"k": kp(0), "fs": []int{-1}})
			return
		}
		r.probeVersion(fam, allKeys, 20)
	}
}

func (r *tblRun) probeVersion(fam kv.Family, keys []uint32, nprobe int) {
	snap := fam.GetSnapshot()
	defer snap.Close()
	probes := []uint32{0, math.MaxUint32}
	for i := 0; i < nprobe; i++ {
		k := keys[r.rng.Intn(len(keys))]
		switch r.rng.Intn(5) {
		case 0:
			k++
		case 1:
			k--
		case 2:
			k = uint32(r.rng.Uint32())
		}
		probes = append(probes, k)
	}
	for _, k := range probes {
		fs := make([]int, 0)
		if r.rng.Intn(2) == 0 {
			for _, fm := range snap.GetCurrent().FindFiles(k) {
				fs = append(fs, int(fm.GetFileNumber()))
			}
		} else {
			rds, err := snap.FindReaders(k)
			if err != nil {
				fs = append(fs, -1)
			}
			for _, rd := range rds {
				fs = append(fs, fileNum(rd.FileName()))
			}
		}
		r.emit("Found", trace.F{"k": kp(k), "fs": fs})
		vs := make([]int, 0)
		err := snap.Load(k, func(value []byte) error {
			vs = append(vs, r.vid(value))
			return nil
		})
		if err != nil {
			vs = append(vs, -1)
		}
		r.emit("Loaded", trace.F{"k": kp(k), "vs": vs})
	}
}

// ---------------------------------------------------------------- levels: several files of a level above 0 cover one key

const levelReps = 32 // the files of a level sit in a Go map: every lookup is repeated to see its visiting orders

// levelPool: n ascending keys with small gaps (sometimes across a 65536 boundary)
func (r *tblRun) levelPool(n int) []uint32 {
	var base uint64
	switch r.rng.Intn(4) {
	case 0:
		base = 1
	case 1:
		base = uint64(1+r.rng.Intn(4))*65536 - uint64(1+r.rng.Intn(3*n))
	case 2:
		base = uint64(r.rng.Intn(1 << 30))
	default:
		base = 100 + uint64(r.rng.Intn(100000))
	}
	pool := make([]uint32, n)
	k := base
	for i := range pool {
		k += 2 + uint64(r.rng.Intn(40)) // never adjacent: k+1 / k-1 are absent keys
		pool[i] = uint32(k)
	}
	return pool
}

// levelProbes: every key of the pool, the keys next to the ends of every file, the ends of the key space
func (r *tblRun) levelProbes(pool []uint32, snap version.Snapshot) []uint32 {
	set := map[uint32]bool{0: true, math.MaxUint32: true}
	for _, k := range pool {
		set[k] = true
	}
	for _, fm := range snap.GetCurrent().GetAllFiles() {
		set[fm.GetMinKey()-1] = true
		set[fm.GetMaxKey()+1] = true
	}
	for i := 0; i < 3; i++ {
		set[pool[r.rng.Intn(len(pool))]+1] = true
	}
	out := make([]uint32, 0, len(set))
	for k := range set {
		out = append(out, k)
	}
	sort.Slice(out, func(i, j int) bool { return out[i] < out[j] })
	return out
}

// probeLevels: FindFiles / FindReaders and Load of every probe key, reps times, each answer its own event;
// val: how a loaded value is written down (interned id, or its atoms)
func (r *tblRun) probeLevels(getSnap func() version.Snapshot, pool []uint32, reps int, val func([]byte) any, bad any) {
	first := getSnap()
	probes := r.levelProbes(pool, first)
	first.Close()
	for rep := 0; rep < reps; rep++ {
		snap := getSnap()
		for i, k := range probes {
			fs := make([]int, 0)
			if (rep+i)%2 == 0 {
				for _, fm := range snap.GetCurrent().FindFiles(k) {
					fs = append(fs, int(fm.GetFileNumber()))
				}
			} else {
				rds, err := snap.FindReaders(k)
				if err != nil {
					fs = append(fs, -1)
				}
				for _, rd := range rds {
					fs = append(fs, fileNum(rd.FileName()))
				}
			}
			r.emit("Found", trace.F{"k": kp(k), "fs": fs})
			vs := make([]any, 0)
			err := snap.Load(k, func(value []byte) error {
				vs = append(vs, val(value))
				return nil
			})
			if err != nil {
				vs = append(vs, bad)
			}
			r.emit("Loaded", trace.F{"k": kp(k), "vs": vs})
		}
		snap.Close()
	}
}

type lvlFile struct {
	lvl      int
	min, max uint32
}

func listLevels(snap version.Snapshot, levels int) map[int]lvlFile {
	out := map[int]lvlFile{}
	v := snap.GetCurrent()
	for l := 0; l < levels; l++ {
		for _, fm := range v.GetFiles(l) {
			n := int(fm.GetFileNumber())
			if _, dup := out[n]; dup {
				n = -n // one file in two levels: no listing of the specification has it
			}
			out[n] = lvlFile{lvl: l, min: fm.GetMinKey(), max: fm.GetMaxKey()}
		}
	}
	return out
}

func (r *tblRun) emitListed(getSnap func() version.Snapshot, levels int) map[int]lvlFile {
	snap := getSnap()
	cur := listLevels(snap, levels)
	// every file of GetAllFiles must be one of the listed ones
	all := snap.GetCurrent().GetAllFiles()
	snap.Close()
	files := make([][]int, 0, len(cur))
	for n, f := range cur {
		files = append(files, []int{n, f.lvl})
	}
	for _, fm := range all {
		if _, ok := cur[int(fm.GetFileNumber())]; !ok {
			files = append(files, []int{int(fm.GetFileNumber()), -1})
		}
	}
	if len(all) != len(cur) {
		files = append(files, []int{-1, -1})
	}
	sort.Slice(files, func(i, j int) bool { return files[i][0] < files[j][0] })
	r.emit("Listed", trace.F{"files": files})
	return cur
}

// pick: a subset of pool[a:b] (every key with probability 1/2) plus the keys of always, ascending
func (r *tblRun) pick(pool []uint32, a, b int, always ...uint32) []uint32 {
	set := map[uint32]bool{}
	for _, k := range always {
		set[k] = true
	}
	for _, k := range pool[a:b] {
		if r.rng.Intn(2) == 0 {
			set[k] = true
		}
	}
	out := make([]uint32, 0, len(set))
	for k := range set {
		out = append(out, k)
	}
	sort.Slice(out, func(i, j int) bool { return out[i] < out[j] })
	return out
}

// levelEditLogHistory: tables written by the (traced) builder are installed in levels 1 / 2 (some in 0) of a real
// version set through edit logs, the way a compaction / rollup commit installs its outputs.  The first two tables
// always go to ONE level above 0 with nested ranges and a common key; the others take any shape: the whole pool,
// a slice inside an earlier file, the ends of an earlier file with other keys between, one key.
func (r *tblRun) levelEditLogHistory(h int, variant int) {
	r.rec.Reset(trace.F{"h": h, "mode": "levels"})
	root := filepath.Join(r.scratch, fmt.Sprintf("l%d", h))
	dir := filepath.Join(root, "fam")
	_ = os.MkdirAll(dir, 0o755)
	defer os.RemoveAll(root)
	levels := 2 + r.rng.Intn(2)
	cache := table.NewCache(root, time.Hour)
	vs := version.NewStoreVersionSet(root, cache, levels)
	fv := vs.CreateFamilyVersion("fam", 1)
	defer func() {
		_ = vs.Destroy()
		_ = cache.Close()
	}()
	if err := vs.Recover(); err != nil {
		r.sum.Unresolved = append(r.sum.Unresolved, "version set: "+err.Error())
		return
	}
	getSnap := func() version.Snapshot { return fv.GetSnapshot() }
	val := func(b []byte) any { return r.vid(b) }

	pool := r.levelPool(8 + r.rng.Intn(6))
	n := len(pool)
	nt := 2 + r.rng.Intn(3)
	if variant%2 == 0 && nt < 3 {
		nt = 3 // (a later file leaves again)
	}
	up := 1 + r.rng.Intn(levels-1) // the level of the first two files
	type inst struct {
		tf  *tblFile
		lvl int
	}
	var pending []inst
	var installed []inst
	var shapes [][]uint32
	for i := 0; i < nt; i++ {
		var offers []uint32
		lvl := up
		switch {
		case i == 0: // wide: both ends of the pool
			offers = r.pick(pool, 0, n, pool[0], pool[n-1], pool[n/2])
		case i == 1: // nested in the first one, one key in common, one of its own
			own := pool[n/2-1]
			if own == pool[0] {
				own = pool[1]
			}
			offers = r.pick(pool, 2, n-2, pool[n/2], own)
		default:
			lvl = r.rng.Intn(levels)
			prev := shapes[r.rng.Intn(len(shapes))]
			switch r.rng.Intn(5) {
			case 0: // the same range as an earlier file, other keys between its ends
				offers = r.pick(pool, 0, n, prev[0], prev[len(prev)-1])
				var cut []uint32
				for _, k := range offers {
					if k >= prev[0] && k <= prev[len(prev)-1] {
						cut = append(cut, k)
					}
				}
				offers = cut
			case 1: // exactly the keys of an earlier file
				offers = append([]uint32{}, prev...)
			case 2: // one key
				offers = []uint32{pool[r.rng.Intn(n)]}
			case 3: // a slice
				a := r.rng.Intn(n)
				b := a + 1 + r.rng.Intn(n-a)
				offers = append([]uint32{}, pool[a:b]...)
			default:
				offers = r.pick(pool, 0, n, pool[r.rng.Intn(n)])
			}
		}
		shapes = append(shapes, offers)
		tf, err := r.buildTableOf(dir, vs.NextFileNumber(), 0, offers)
		if err != nil {
			r.sum.Unresolved = append(r.sum.Unresolved, "builder i/o: "+err.Error())
			return
		}
		if !tf.closed {
			continue
		}
		pending = append(pending, inst{tf, lvl})
	}
	if r.rng.Intn(2) == 0 { // the nested file first
		pending[0], pending[1] = pending[1], pending[0]
	}
	commit := func(batch []inst, del []inst) bool {
		el := version.NewEditLog(1)
		for _, in := range batch {
			el.Add(version.CreateNewFile(int32(in.lvl), version.NewFileMeta(in.tf.fn, in.tf.min, in.tf.max, in.tf.size)))
		}
		for _, in := range del {
			el.Add(version.NewDeleteFile(int32(in.lvl), in.tf.fn))
		}
		if err := vs.CommitFamilyEditLog("fam", el); err != nil {
			r.sum.Unresolved = append(r.sum.Unresolved, "commit edit log: "+err.Error())
			return false
		}
		snap := getSnap()
		cur := listLevels(snap, levels)
		snap.Close()
		for _, in := range batch { // what the new version says about the file (an uninstalled file: level -1)
			f, ok := cur[int(in.tf.fn)]
			if !ok {
				f = lvlFile{lvl: -1}
			}
			r.emit("Installed", trace.F{"f": int(in.tf.fn), "t": in.tf.t, "lvl": f.lvl, "min": kp(f.min), "max": kp(f.max)})
		}
		for _, in := range del { // (a file that stays in spite of the log shows in the listing below)
			r.emit("Removed", trace.F{"f": int(in.tf.fn)})
		}
		r.emitListed(getSnap, levels)
		return true
	}
	// the first two in one edit log or in two, the rest in further ones
	for len(pending) > 0 {
		c := 1 + r.rng.Intn(len(pending))
		if !commit(pending[:c], nil) {
			return
		}
		installed = append(installed, pending[:c]...)
		pending = pending[c:]
		if len(pending) > 0 && len(installed) >= 2 {
			r.probeLevels(getSnap, pool, 2, val, -1)
		}
	}
	r.probeLevels(getSnap, pool, levelReps, val, -1)
	if len(installed) > 2 && (variant%2 == 0 || r.rng.Intn(3) == 0) { // one of the later files leaves again
		j := 2 + r.rng.Intn(len(installed)-2)
		if !commit(nil, []inst{installed[j]}) {
			return
		}
		r.probeLevels(getSnap, pool, 4, val, -1)
	}
	if r.rng.Intn(2) == 0 { // the same version recovered from the manifest
		_ = vs.Destroy()
		_ = cache.Close()
		cache = table.NewCache(root, time.Hour)
		vs = version.NewStoreVersionSet(root, cache, levels)
		fv = vs.CreateFamilyVersion("fam", 1)
		if err := vs.Recover(); err != nil {
			r.sum.Unresolved = append(r.sum.Unresolved, "version set recover: "+err.Error())
			return
		}
		r.emitListed(getSnap, levels)
		r.probeLevels(getSnap, pool, 8, val, -1)
	}
}

// levelCompactHistory: a real family with the union merger; flushes and level-0 compactions, scripted so that a
// later compaction does not take an earlier output although its own output encloses it (round 1: files inside the
// core of the pool; round 2: one file left of the core and one right of it; round 3: further out), then random
// steps (flush anywhere, compact, single-file compaction through the store check: merge or move).
func (r *tblRun) levelCompactHistory(h int, variant int) {
	r.rec.Reset(trace.F{"h": h, "mode": "levels"})
	registerUnionMerger()
	path := filepath.Join(r.scratch, fmt.Sprintf("c%d", h))
	defer os.RemoveAll(path)
	opt := kv.DefaultStoreOption()
	store, err := kv.GetStoreManager().CreateStore(path, opt)
	if err != nil {
		r.sum.Unresolved = append(r.sum.Unresolved, "create store: "+err.Error())
		return
	}
	closed := false
	defer func() {
		if !closed {
			_ = kv.GetStoreManager().CloseStore(path)
		}
	}()
	defer r.onPanic()
	fopt := kv.FamilyOption{Merger: unionMerger, CompactThreshold: 1}
	switch r.rng.Intn(3) { // the outputs of one compaction are cut by size
	case 0:
		fopt.MaxFileSize = uint32(4 + r.rng.Intn(12))
	case 1:
		fopt.MaxFileSize = uint32(16 + r.rng.Intn(40))
	}
	fam, err := store.CreateFamily("f", fopt)
	if err != nil {
		r.sum.Unresolved = append(r.sum.Unresolved, "create family: "+err.Error())
		return
	}
	levels := opt.Levels
	getSnap := func() version.Snapshot { return fam.GetSnapshot() }
	atomsOf := func(b []byte) any {
		out := make([]int, 0, len(b)/4+1)
		for i := 0; i+4 <= len(b); i += 4 {
			out = append(out, int(binary.LittleEndian.Uint32(b[i:])))
		}
		if len(b)%4 != 0 {
			out = append(out, -1)
		}
		return out
	}
	bad := []int{-1}
	atom := uint32(0)
	known := r.emitListed(getSnap, levels)

	flush := func(keys []uint32) bool {
		fl := fam.NewFlusher()
		puts := make([][]any, 0, len(keys))
		for _, k := range keys {
			var as []uint32
			for c := 1 + r.rng.Intn(2); c > 0; c-- {
				atom++
				as = append(as, atom)
			}
			v := encodeAtomsLE(as)
			if err := fl.Add(k, v); err != nil {
				r.sum.Unresolved = append(r.sum.Unresolved, "flusher i/o: "+err.Error())
				fl.Release()
				return false
			}
			puts = append(puts, []any{kp(k), atomsOf(v), len(v)})
		}
		err := fl.Commit()
		fl.Release()
		if err != nil {
			r.sum.Unresolved = append(r.sum.Unresolved, "flusher commit: "+err.Error())
			return false
		}
		snap := getSnap()
		cur := listLevels(snap, levels)
		snap.Close()
		added := -1
		nadded := 0
		for n := range cur {
			if _, ok := known[n]; !ok {
				added = n
				nadded++
			}
		}
		if nadded != 1 {
			r.emit("Flushed", trace.F{"f": -1, "puts": puts, "min": kp(0), "max": kp(0), "files": nadded})
			return false
		}
		r.emit("Flushed", trace.F{"f": added, "puts": puts, "min": kp(cur[added].min), "max": kp(cur[added].max)})
		known = r.emitListed(getSnap, levels)
		return true
	}
	// one run of the compaction job (Family.Compact with two or more level-0 files, the store's check with one),
	// observed as the difference of the version before and after
	compact := func() bool {
		n0 := 0
		for _, f := range known {
			if f.lvl == 0 {
				n0++
			}
		}
		switch {
		case n0 > 1:
			fam.Compact()
		case n0 == 1:
			kv.VerifCompactStore(store)
		default:
			return true
		}
		kv.VerifWaitFamily(fam)
		for i := 0; kv.VerifIsCompacting(fam); i++ { // the flag is cleared right after the job's wait group
			if i > 5_000_000 {
				r.sum.Unresolved = append(r.sum.Unresolved, "compaction flag stays set")
				return false
			}
			runtime.Gosched()
		}
		snap := getSnap()
		cur := listLevels(snap, levels)
		snap.Close()
		ins, outs := make([]int, 0), make([]trace.F, 0)
		var outNums, moved []int
		for n, f := range known {
			g, ok := cur[n]
			if !ok {
				ins = append(ins, n)
			} else if g.lvl != f.lvl {
				moved = append(moved, n)
			}
		}
		for n := range cur {
			if _, ok := known[n]; !ok {
				outNums = append(outNums, n)
			}
		}
		sort.Ints(ins)
		sort.Ints(outNums)
		for _, n := range outNums {
			outs = append(outs, trace.F{"f": n, "lvl": cur[n].lvl, "min": kp(cur[n].min), "max": kp(cur[n].max)})
		}
		switch {
		case len(moved) == 1 && len(ins) == 0 && len(outs) == 0 && cur[moved[0]].lvl == 1:
			r.emit("Moved", trace.F{"f": moved[0]})
		default: // (also a job that changed nothing, or moved files otherwise: no Compacted step explains those)
			r.emit("Compacted", trace.F{"ins": ins, "outs": outs, "moved": len(moved)})
		}
		known = r.emitListed(getSnap, levels)
		return true
	}

	pool := r.levelPool(16)
	val := atomsOf
	if variant%2 == 0 { // a single level-0 file and nothing above: the store's check moves it to level 1
		if !flush(r.pick(pool, 6, 10, pool[6+r.rng.Intn(4)])) || !compact() {
			return
		}
	}
	// round 1: the core p[6..9]
	for c := 2 + r.rng.Intn(2); c > 0; c-- {
		if !flush(r.pick(pool, 6, 10, pool[6+r.rng.Intn(4)])) {
			return
		}
	}
	if !compact() {
		return
	}
	r.probeLevels(getSnap, pool, 2, val, bad)
	// round 2: left and right of the core, nothing in it
	if !flush(r.pick(pool, 3, 6, pool[3+r.rng.Intn(3)])) || !flush(r.pick(pool, 10, 13, pool[10+r.rng.Intn(3)])) {
		return
	}
	if !compact() {
		return
	}
	r.probeLevels(getSnap, pool, levelReps, val, bad)
	// round 3: further out, or random steps
	if r.rng.Intn(2) == 0 {
		if !flush(r.pick(pool, 0, 3, pool[r.rng.Intn(3)])) || !flush(r.pick(pool, 13, 16, pool[13+r.rng.Intn(3)])) {
			return
		}
		if !compact() {
			return
		}
		r.probeLevels(getSnap, pool, levelReps/2, val, bad)
	}
	for steps := r.rng.Intn(4); steps > 0; steps-- {
		switch r.rng.Intn(3) {
		case 0, 1:
			a := r.rng.Intn(len(pool))
			b := a + 1 + r.rng.Intn(len(pool)-a)
			if !flush(r.pick(pool, a, b, pool[a])) {
				return
			}
		default:
			if !compact() {
				return
			}
		}
		r.probeLevels(getSnap, pool, 4, val, bad)
	}
	if r.rng.Intn(2) == 0 {
		_ = kv.GetStoreManager().CloseStore(path)
		closed = true
		store, err = kv.GetStoreManager().CreateStore(path, opt)
		if err != nil {
			r.sum.Unresolved = append(r.sum.Unresolved, "reopen store: "+err.Error())
			return
		}
		closed = false
		fam = store.GetFamily("f")
		if fam == nil {
			r.emit("Found", trace.F{"k": kp(0), "fs": []int{-1}})
			return
		}
		r.emitListed(getSnap, levels)
		r.probeLevels(getSnap, pool, 8, val, bad)
	}
}

// encodeAtomsLE: the value format of the union merger (ascending distinct atoms, 4 bytes each, little endian)
func encodeAtomsLE(atoms []uint32) []byte {
	b := make([]byte, 0, 4*len(atoms))
	for _, a := range atoms {
		var x [4]byte
		binary.LittleEndian.PutUint32(x[:], a)
		b = append(b, x[:]...)
	}
	return b
}

// ---------------------------------------------------------------- big tables

func (r *tblRun) bigHistory(h, n int) {
	r.rec.Reset(trace.F{"h": h, "mode": "big"})
	root := filepath.Join(r.scratch, fmt.Sprintf("b%d", h))
	dir := filepath.Join(root, "fam")
	_ = os.MkdirAll(dir, 0o755)
	defer os.RemoveAll(root)
	cache := table.NewCache(root, time.Hour)
	defer cache.Close()
	r.nextT++
	t := r.nextT
	fn := table.FileNumber(1)
	b, err := table.NewStoreBuilder(fn, filepath.Join(dir, version.Table(fn)))
	if err != nil {
		r.sum.Unresolved = append(r.sum.Unresolved, "builder i/o: "+err.Error())
		return
	}
	// palette: the i-th value is (i as 4 bytes) ++ palette[i mod P]
	np := 3 + r.rng.Intn(5)
	pal := make([][]byte, np)
	palIDs := make([]int, np)
	for i := range pal {
		pal[i] = make([]byte, r.rng.Intn(120))
		r.rng.Read(pal[i])
		if i == 0 {
			pal[i] = []byte{}
		}
		palIDs[i] = r.vid(pal[i])
	}
	keys := make([]uint32, n)
	shape := r.rng.Intn(4)
	maxStep := (uint64(math.MaxUint32) - 10) / uint64(n)
	k := uint64(r.rng.Intn(3))
	if shape == 3 {
		k = uint64(math.MaxUint32) - uint64(n)*2 - 5
	}
	sw := b.StreamWriter()
	for i := 0; i < n; i++ {
		switch shape {
		case 0: // long runs with rare holes
			if r.rng.Intn(500) == 0 {
				k += 2 + uint64(r.rng.Intn(70000))
			} else {
				k++
			}
		case 1: // spread over the whole key space
			k += 1 + uint64(r.rng.Int63n(int64(maxStep)))
		case 2: // bitmap-like containers: small random steps
			k += 1 + uint64(r.rng.Intn(6))
		default:
			k += 2
		}
		keys[i] = uint32(k)
		var idx [4]byte
		binary.BigEndian.PutUint32(idx[:], uint32(i))
		if i%3 == 0 {
			sw.Prepare(keys[i])
			_, _ = sw.Write(idx[:])
			_, _ = sw.Write(pal[i%np])
			err = sw.Commit()
		} else {
			err = b.Add(keys[i], append(idx[:], pal[i%np]...))
		}
		if err != nil {
			r.sum.Unresolved = append(r.sum.Unresolved, "builder i/o: "+err.Error())
			return
		}
	}
	sampled := map[int]bool{0: true, n - 1: true}
	for i := 0; i < 150; i++ {
		sampled[r.rng.Intn(n)] = true
	}
	idxs := make([]int, 0, len(sampled))
	for i := range sampled {
		idxs = append(idxs, i)
	}
	sort.Ints(idxs)
	samp := make([][]int, 0, len(idxs))
	for _, i := range idxs {
		samp = append(samp, []int{i, int(keys[i] >> 16), int(keys[i] & 0xFFFF)})
	}
	proj := projOf(b)
	if err := b.Close(); err != nil {
		r.sum.Unresolved = append(r.sum.Unresolved, "builder close: "+err.Error())
		return
	}
	r.emit("BigBuilt", trace.F{"t": t, "cnt": n, "pal": palIDs, "samp": samp, "proj": proj})
	rd, err := cache.GetReader("fam", version.Table(fn))
	if err != nil {
		r.emit("BigGet", trace.F{"t": t, "i": 0, "k": kp(keys[0]), "found": false, "vi": -1, "vp": -1})
		return
	}
	decode := func(v []byte) (int, int) {
		if len(v) < 4 {
			return -1, -1
		}
		return int(binary.BigEndian.Uint32(v[:4])), r.vid(v[4:])
	}
	for j := 0; j < 400; j++ {
		i := r.rng.Intn(n)
		if j < len(idxs) && j%2 == 0 {
			i = idxs[j]
		}
		v, gerr := rd.Get(keys[i])
		vi, vp := -1, -1
		if gerr == nil {
			vi, vp = decode(v)
		}
		r.emit("BigGet", trace.F{"t": t, "i": i, "k": kp(keys[i]), "found": gerr == nil, "vi": vi, "vp": vp})
	}
	for j := 0; j < 150; j++ {
		i := r.rng.Intn(n)
		var k uint32
		switch {
		case i+1 < n && keys[i+1]-keys[i] > 1:
			k = keys[i] + 1 + uint32(r.rng.Int63n(int64(keys[i+1]-keys[i]-1)))
		case keys[0] > 0 && j%2 == 0:
			k = uint32(r.rng.Int63n(int64(keys[0])))
		case keys[n-1] < math.MaxUint32:
			k = keys[n-1] + 1 + uint32(r.rng.Int63n(int64(math.MaxUint32-keys[n-1])))
		default:
			continue
		}
		_, gerr := rd.Get(k)
		r.emit("BigAbsent", trace.F{"t": t, "found": gerr == nil})
	}
	it := rd.Iterator()
	rows := make([][]int, 0, len(idxs))
	count := 0
	for ; it.HasNext() && count < n+10; count++ {
		key := it.Key()
		v := it.Value()
		if sampled[count] || r.rng.Intn(n/100+1) == 0 {
			vi, vp := decode(v)
			rows = append(rows, []int{count, int(key >> 16), int(key & 0xFFFF), vi, vp})
		}
	}
	r.emit("BigIterated", trace.F{"t": t, "count": count, "rows": rows})
	cache.ReleaseReaders([]table.Reader{rd})
}

// onPanic (deferred): a panic of the code under test becomes an event that no action of the
// specification accepts; the run ends there (a flusher or store lock may still be held, so nothing
// else is touched: the trace is closed, the summary printed, the process left)
func (r *tblRun) onPanic() {
	if p := recover(); p != nil {
		r.emit("Panic", trace.F{"msg": fmt.Sprint(p)})
		r.finish()
		os.Exit(0)
	}
}

func (r *tblRun) guarded(op func()) {
	defer r.onPanic()
	op()
}

func (r *tblRun) finish() {
	_ = r.rec.Close()
	r.sum.Traces, r.sum.Events = r.rec.Counts()
	r.sum.Distinct = len(r.vids)
	r.sum.Extra["events_by_kind"] = r.counts
	r.sum.Extra["distinct_values"] = len(r.vids)
	r.sum.Print()
}

func tableMain(args []string) int {
	fs := flag.NewFlagSet("table", flag.ExitOnError)
	out := fs.String("out", "table.ndjson", "trace output")
	seed := fs.Int64("seed", 1, "seed")
	nh := fs.Int("histories", 40, "histories of small tables (build, read, merge)")
	nv := fs.Int("versions", 20, "histories of version lookups over a kv store")
	nb := fs.Int("big", 1, "big tables")
	ne := fs.Int("emptyflush", 0, "version histories whose last flush carries only empty values")
	nl := fs.Int("levels", 0, "level histories: overlapping files above level 0 (edit log installs; flush + level-0 compactions), each count")
	bign := fs.Int("bigkeys", 100000, "keys of a big table")
	maxN := fs.Int("maxkeys", 1200, "upper bound of the keys of a fully logged table")
	scratch := fs.String("scratch", "", "scratch directory")
	_ = fs.Parse(args)
	if *scratch == "" {
		d, _ := os.MkdirTemp("", "vdrive-table-")
		*scratch = d
		defer os.RemoveAll(d)
	}
	rec, err := trace.New(*out)
	if err != nil {
		fmt.Println(err)
		return 2
	}
	sum := &trace.Summary{Module: "TableFile", Extra: map[string]any{}}
	r := &tblRun{rec: rec, rng: rand.New(rand.NewSource(*seed)), sum: sum, vids: map[string]int{}, counts: map[string]int{},
		scratch: *scratch}
	h := 0
	for i := 0; i < *nh; i++ {
		h++
		r.guarded(func() { r.tableHistory(h, *maxN) })
	}
	for i := 0; i < *nv; i++ {
		h++
		r.guarded(func() { r.versionHistory(h, false) })
	}
	for i := 0; i < *ne; i++ {
		h++
		r.guarded(func() { r.versionHistory(h, true) })
	}
	for i := 0; i < *nl; i++ {
		h++
		r.guarded(func() { r.levelEditLogHistory(h, i) })
		h++
		r.guarded(func() { r.levelCompactHistory(h, i) })
	}
	for i := 0; i < *nb; i++ {
		h++
		r.guarded(func() { r.bigHistory(h, *bign) })
	}
	r.finish()
	return 0
}
