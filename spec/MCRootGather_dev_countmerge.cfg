CONSTANTS
  Leaves = {"l1", "l2", "l3"}
  CountAtSend = FALSE
  CountThenMerge = TRUE
SPECIFICATION MCSpec
INVARIANTS ResultComplete
CHECK_DEADLOCK FALSE
