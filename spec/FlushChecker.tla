----------------------------- MODULE FlushChecker -----------------------------
(***************************************************************************)
(* The data flush checker of a storage node (tsdb/data_flush_checker.go):   *)
(* requestFlushJob / flushWorker / doFlush for ONE database -- an extension *)
(* beyond the listed properties (DESIGN.md section 0.8).                    *)
(*                                                                         *)
(* A requester (Database.Flush, the periodic check(), the watermark         *)
(* flusher) looks the database up in `dbInFlushing`, hands the request to   *)
(* the workers through a channel and marks the database; a worker takes the *)
(* request, runs doFlush (metadata, index, family data) and unmarks the     *)
(* database.  One action per step that another goroutine can fall between:  *)
(*   Check(r)   dbInFlushing.Load: a marked database drops the request      *)
(*   Send(r)    the request goes into the channel                           *)
(*   Mark(r)    dbInFlushing.Store + flushInFlight.Inc                      *)
(*   Take       a worker receives a request                                 *)
(*   Finish     doFlush returned: flushInFlight.Dec, dbInFlushing.Delete    *)
(*   Write      the database gets data to flush                             *)
(*   Again(r)   the requester comes back with another request               *)
(* Switch MarkBeforeSend [TRUE since the repair, FALSE before]: the mark is *)
(* stored (LoadOrStore, together with the check) BEFORE the request is      *)
(* handed over.  FALSE: Send ; Mark -- a worker that takes the request and  *)
(* finishes it between the two deletes the mark first, the requester then   *)
(* stores it for ever: every later request for the database is dropped, the *)
(* database is never flushed again.                                         *)
(***************************************************************************)
EXTENDS Integers, FiniteSets, TLC

CONSTANTS
  \* @type: Set(Str);
  Req,
  \* @type: Bool;
  MarkBeforeSend

VARIABLES
  \* @type: Bool;
  mark,     \* the database is in dbInFlushing
  \* @type: Int;
  queue,    \* requests of the database in the channel
  \* @type: Int;
  running,  \* requests a worker is executing
  \* @type: Int;
  inflight, \* flushInFlight
  \* @type: Str -> Str;
  pc,       \* [Req -> {"idle","checked","sent","done","dropped"}]
  \* @type: Bool;
  dirty     \* the database has data to flush

vars == <<mark, queue, running, inflight, pc, dirty>>

Init == /\ mark = FALSE /\ queue = 0 /\ running = 0 /\ inflight = 0
        /\ pc = [r \in Req |-> "idle"] /\ dirty = FALSE

Check(r) ==
  /\ pc[r] = "idle"
  /\ IF mark THEN pc' = [pc EXCEPT ![r] = "dropped"] /\ UNCHANGED <<mark, inflight>>
     ELSE IF MarkBeforeSend
       THEN mark' = TRUE /\ inflight' = inflight + 1 /\ pc' = [pc EXCEPT ![r] = "checked"]
       ELSE pc' = [pc EXCEPT ![r] = "checked"] /\ UNCHANGED <<mark, inflight>>
  /\ UNCHANGED <<queue, running, dirty>>
Send(r) ==
  /\ pc[r] = "checked"
  /\ queue' = queue + 1
  /\ pc' = [pc EXCEPT ![r] = IF MarkBeforeSend THEN "done" ELSE "sent"]
  /\ UNCHANGED <<mark, running, inflight, dirty>>
Mark(r) ==
  /\ pc[r] = "sent"
  /\ mark' = TRUE /\ inflight' = inflight + 1
  /\ pc' = [pc EXCEPT ![r] = "done"]
  /\ UNCHANGED <<queue, running, dirty>>
Take ==
  /\ queue > 0
  /\ queue' = queue - 1 /\ running' = running + 1
  /\ UNCHANGED <<mark, inflight, pc, dirty>>
Finish ==
  /\ running > 0
  /\ running' = running - 1 /\ inflight' = inflight - 1 /\ mark' = FALSE
  /\ dirty' = FALSE
  /\ UNCHANGED <<queue, pc>>
\* the requester comes back with another request
Again(r) ==
  /\ pc[r] \in {"done", "dropped"}
  /\ pc' = [pc EXCEPT ![r] = "idle"]
  /\ UNCHANGED <<mark, queue, running, inflight, dirty>>
Write == dirty' = TRUE /\ UNCHANGED <<mark, queue, running, inflight, pc>>

Next == \/ \E r \in Req : Check(r) \/ Send(r) \/ Mark(r) \/ Again(r)
        \/ Take \/ Finish \/ Write
Spec == Init /\ [][Next]_vars

Quiet == queue = 0 /\ running = 0 /\ \A r \in Req : pc[r] \notin {"checked", "sent"}
\* the database is never left marked while nothing of it is queued, running or being requested
NoStaleMark == Quiet => ~mark
\* the counter of jobs in flight is what it says
InFlightExact == Quiet => inflight = 0

\* with fair requesters and workers, data does not wait for ever: requests keep coming (the periodic check), a request that is
\* not dropped is sent, marked, taken and finished
FairSpec ==
  /\ Spec /\ WF_vars(Take) /\ WF_vars(Finish)
  /\ \A r \in Req : WF_vars(Check(r)) /\ WF_vars(Send(r)) /\ WF_vars(Mark(r)) /\ WF_vars(Again(r))
FlushedEventually == dirty ~> ~dirty
=============================================================================
