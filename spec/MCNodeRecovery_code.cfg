CONSTANTS
  SeriesFirst = FALSE
  CommitSeqBeforeWrite = FALSE
  FreezeBeforeMetaFlush = FALSE
  ExpireOnConsumed = FALSE
  IgnoreOverGap = FALSE
  Writable = FALSE
  AtomicRound = TRUE
  Name = {"m1", "m2"}
  MaxEntries = 3
  MaxCrash = 2
  MaxFlush = 3
SPECIFICATION MCSpec
INVARIANTS AckNotAhead NoLoss NoReapply FlushedResolves NoIdReuse IndexedResolves AckedDataIndexed
CHECK_DEADLOCK FALSE
