--------------------------- MODULE MCNodeRecovery ---------------------------
EXTENDS NodeRecovery
CONSTANTS Name, MaxEntries, MaxCrash, MaxFlush,
          AtomicRound   \* TRUE: a replica round is one step relative to the flush job (the repaired design)
VARIABLES ncrash, nflush
mcvars == <<vars, ncrash, nflush>>
MCInit == Init /\ ncrash = 0 /\ nflush = 0
Same == UNCHANGED <<ncrash, nflush>>
MCNext ==
  \/ (\E n \in Name : Len(wal) < MaxEntries /\ AppendEntry(n)) /\ Same
  \/ AtomicRound /\ ReplicaStep /\ Same
  \/ ~AtomicRound /\ RBegin /\ Same
  \/ ~AtomicRound /\ RWrite /\ Same
  \/ ~AtomicRound /\ RCommit /\ Same
  \/ MetaFlush /\ nflush < MaxFlush /\ nflush' = nflush + 1 /\ UNCHANGED ncrash
  \/ IdxPrepare /\ Same
  \/ IdxCommitA /\ Same
  \/ IdxCommitB /\ Same
  \/ FamilyFreeze /\ Same
  \/ FamilyCommit /\ Same
  \/ FamilyAck /\ Same
  \/ Crash /\ ncrash < MaxCrash /\ ncrash' = ncrash + 1 /\ UNCHANGED nflush
  \/ Recover /\ Same
  \/ SyncGC /\ Same
  \/ (\E res \in BOOLEAN : ExpireCheck(res)) /\ Same
  \/ (\E c \in -1..MaxEntries, a \in -1..MaxEntries : LogRollback(c, a)) /\ Same
MCSpec == MCInit /\ [][MCNext]_mcvars
=============================================================================
