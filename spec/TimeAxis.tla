------------------------------ MODULE TimeAxis ------------------------------
(***************************************************************************)
(* Time bucketing of lindb (pkg/timeutil/interval_calculator.go,           *)
(* interval.go, time.go, tsdb/segment.go, interval_segment.go,             *)
(* series/metric/row_broker.go, query/context/utils.go) -- property C13.   *)
(*                                                                         *)
(* The module is the REFERENCE: the proleptic Gregorian calendar from its  *)
(* definition, and on top of it, per interval type (day / month / year     *)
(* calculator), the segment, family and slot of an instant, the family     *)
(* lookup of a shard, and the interval / range selection of the query      *)
(* planner.  All operators are declarative ("the largest boundary not      *)
(* after t"), not transcriptions of the Go arithmetic.                     *)
(*                                                                         *)
(* An instant is <<s, r>>: s = whole seconds since 1970-01-01T00:00:00Z,   *)
(* r = milliseconds 0..999 (TLC integers are 32 bit: seconds fit until     *)
(* 2038, milliseconds do not).  Intervals are whole seconds: the database  *)
(* option and the query grammar only admit n x {s,m,h,d,M=30d,y=365d}.     *)
(* Everything is UTC (the calculators use time.Local; the checks run with  *)
(* TZ=UTC, zones with DST are outside the property as stated).             *)
(*                                                                         *)
(* The small state machine: a calendar walker (day by day, successor rule  *)
(* against the closed forms), a set of boundary instants (each an initial  *)
(* state; the partition properties are invariants), planner inputs, and a  *)
(* shard whose families are created and looked up.                         *)
(* DevLookup = TRUE switches the lookup to the arithmetic the code uses    *)
(* (family INDEX of the range ends re-based on each segment), which is     *)
(* wrong when the range crosses a segment of the month / year calculator.  *)
(***************************************************************************)
EXTENDS Integers, Sequences, FiniteSets, TLC

CONSTANTS
  DevLookup,      \* FALSE: lookup = overlap (the property); TRUE: the code's per-segment index arithmetic
  FirstDay,       \* calendar walk: first day number (days since epoch), its civil date by definition ...
  FirstCivil,
  LastDay,        \* ... and the last day number
  Groups,         \* model checking only: work is split into groups so that TLC's workers share it
  InstantsOf(_),  \* group -> set of instants whose bucketing is checked
  Intervals,      \* set of interval values (seconds) used with them
  PlanInputsOf(_),\* group -> set of planner inputs
  ShardInterval,  \* interval of the model-checked shard
  ShardInstants   \* instants used to create / look up families in the model-checked shard

VARIABLES
  mode,   \* "walk" | "root" | "group" | "inst" | "plan" | "shard"
  grp,    \* group: the group being expanded
  day,    \* walk: day number
  civ,    \* walk: civil date reached by the successor rule
  inst,   \* inst: the instant under test
  pin,    \* plan: the planner input under test
  siv,    \* shard: its interval (0 = not fixed yet)
  fams,   \* shard: set of family start seconds that exist
  last    \* shard: last lookup [from, to, got] or NoLookup

vars == <<mode, grp, day, civ, inst, pin, siv, fams, last>>

DaySec == 86400
HourSec == 3600
NoLookup == [from |-> <<0, 0>>, to |-> <<0, 0>>, got |-> {}, none |-> TRUE]
NoPlan == [none |-> TRUE]

\* ---------------------------------------------------------------- instants
Le(a, b) == a[1] < b[1] \/ (a[1] = b[1] /\ a[2] <= b[2])
Lt(a, b) == a[1] < b[1] \/ (a[1] = b[1] /\ a[2] < b[2])
Plus1ms(a) == IF a[2] = 999 THEN <<a[1] + 1, 0>> ELSE <<a[1], a[2] + 1>>
Minus1ms(a) == IF a[2] = 0 THEN <<a[1] - 1, 999>> ELSE <<a[1], a[2] - 1>>
MaxI(a, b) == IF Le(a, b) THEN b ELSE a
MinI(a, b) == IF Le(a, b) THEN a ELSE b
Min(S) == CHOOSE x \in S : \A y \in S : x <= y
Max(S) == CHOOSE x \in S : \A y \in S : x >= y

\* ---------------------------------------------------------------- calendar
\* the definition
IsLeap(y) == (y % 4 = 0 /\ y % 100 # 0) \/ y % 400 = 0
MonthLen(y, m) == IF m = 2 THEN (IF IsLeap(y) THEN 29 ELSE 28)
                  ELSE IF m \in {4, 6, 9, 11} THEN 30 ELSE 31
SuccDate(c) == IF c.d < MonthLen(c.y, c.m) THEN [c EXCEPT !.d = c.d + 1]
               ELSE IF c.m < 12 THEN [y |-> c.y, m |-> c.m + 1, d |-> 1]
               ELSE [y |-> c.y + 1, m |-> 1, d |-> 1]
\* closed forms between day numbers and civil dates (years >= 1)
DaysFromCivil(y, m, d) ==
  LET yy == IF m <= 2 THEN y - 1 ELSE y
      era == yy \div 400
      yoe == yy - era * 400
      mp == (m + 9) % 12
      doy == (153 * mp + 2) \div 5 + d - 1
      doe == yoe * 365 + yoe \div 4 - yoe \div 100 + doy
  IN era * 146097 + doe - 719468
CivilFromDays(z0) ==
  LET z == z0 + 719468
      era == z \div 146097
      doe == z - era * 146097
      yoe == (doe - doe \div 1460 + doe \div 36524 - doe \div 146096) \div 365
      doy == doe - (365 * yoe + yoe \div 4 - yoe \div 100)
      mp == (5 * doy + 2) \div 153
      d == doy - (153 * mp + 2) \div 5 + 1
      m == IF mp < 10 THEN mp + 3 ELSE mp - 9
      y == yoe + era * 400
  IN [y |-> IF m <= 2 THEN y + 1 ELSE y, m |-> m, d |-> d]
Civ(t) == CivilFromDays(t[1] \div DaySec)

\* ---------------------------------------------------------------- interval types
Kinds == {"day", "month", "year"}
TypeOf(iv) == IF iv >= HourSec THEN "year" ELSE IF iv >= 300 THEN "month" ELSE "day"

\* ---------------------------------------------------------------- segment / family / slot
\* segment: the calendar day / month / year that contains t
SegStartS(K, t) ==
  LET c == Civ(t) IN
  CASE K = "day" -> (t[1] \div DaySec) * DaySec
    [] K = "month" -> DaysFromCivil(c.y, c.m, 1) * DaySec
    [] K = "year" -> DaysFromCivil(c.y, 1, 1) * DaySec
SegNameNum(K, t) ==
  LET c == Civ(t) IN
  CASE K = "day" -> c.y * 10000 + c.m * 100 + c.d
    [] K = "month" -> c.y * 100 + c.m
    [] K = "year" -> c.y
\* the segment start denoted by a name (inverse of SegNameNum)
SegOfName(K, n) ==
  CASE K = "day" -> DaysFromCivil(n \div 10000, (n \div 100) % 100, n % 100) * DaySec
    [] K = "month" -> DaysFromCivil(n \div 100, n % 100, 1) * DaySec
    [] K = "year" -> DaysFromCivil(n, 1, 1) * DaySec
\* family: the hour / calendar day / calendar month that contains t
FamilyStartS(K, t) ==
  LET c == Civ(t) IN
  CASE K = "day" -> (t[1] \div HourSec) * HourSec
    [] K = "month" -> (t[1] \div DaySec) * DaySec
    [] K = "year" -> DaysFromCivil(c.y, c.m, 1) * DaySec
FamilyLenS(K, t) ==
  LET c == Civ(t) IN
  CASE K = "day" -> HourSec
    [] K = "month" -> DaySec
    [] K = "year" -> MonthLen(c.y, c.m) * DaySec
FamilyStart(K, t) == <<FamilyStartS(K, t), 0>>
FamilyEnd(K, t) == <<FamilyStartS(K, t) + FamilyLenS(K, t) - 1, 999>>
\* the family's name inside its segment: hour of day / day of month / month of year
FamilyIdx(K, t) ==
  LET c == Civ(t) IN
  CASE K = "day" -> (t[1] % DaySec) \div HourSec
    [] K = "month" -> c.d
    [] K = "year" -> c.m
\* start of the family named idx in the segment starting at segS (Go normalises an index beyond the segment)
FamilyStartOf(K, segS, idx) ==
  CASE K = "day" -> segS + idx * HourSec
    [] K = "month" -> segS + (idx - 1) * DaySec
    [] K = "year" -> DaysFromCivil(Civ(<<segS, 0>>).y, idx, 1) * DaySec
\* slot: the interval-sized cell of the family that contains t
Slot(K, t, iv) == (t[1] - FamilyStartS(K, t)) \div iv
SlotStart(K, t, iv) == <<FamilyStartS(K, t) + Slot(K, t, iv) * iv, 0>>
\* slots of family f (an instant at its start) selected by the range [from, to] (which overlaps it)
SlotRange(K, f, from, to, iv) ==
  <<Slot(K, MaxI(from, FamilyStart(K, f)), iv), Slot(K, MinI(to, FamilyEnd(K, f)), iv)>>

\* ---------------------------------------------------------------- properties of the bucketing (C13)
Contains(K, t) ==
  /\ Le(FamilyStart(K, t), t) /\ Le(t, FamilyEnd(K, t))
  /\ SegStartS(K, t) <= FamilyStartS(K, t)
  /\ SegStartS(K, FamilyEnd(K, t)) = SegStartS(K, t)       \* a family lies inside one segment
Idempotent(K, t) ==
  /\ FamilyStart(K, FamilyStart(K, t)) = FamilyStart(K, t)
  /\ FamilyStart(K, FamilyEnd(K, t)) = FamilyStart(K, t)
  /\ FamilyEnd(K, FamilyStart(K, t)) = FamilyEnd(K, t)
  /\ FamilyIdx(K, FamilyStart(K, t)) = FamilyIdx(K, t)
  /\ FamilyIdx(K, FamilyEnd(K, t)) = FamilyIdx(K, t)
  /\ SegStartS(K, <<SegStartS(K, t), 0>>) = SegStartS(K, t)
TilesWithoutGapOrOverlap(K, t) ==
  LET nx == Plus1ms(FamilyEnd(K, t))
      pv == Minus1ms(FamilyStart(K, t))
  IN /\ FamilyStart(K, nx) = nx                             \* end + 1 ms starts the next family
     /\ FamilyEnd(K, pv) = pv                               \* start - 1 ms ends the previous one
     /\ FamilyStart(K, pv) # FamilyStart(K, t)
     /\ <<SegStartS(K, nx), FamilyIdx(K, nx)>> # <<SegStartS(K, t), FamilyIdx(K, t)>>
\* (segment, index) names the family: both formulations of the family start agree
NamedFamily(K, t) ==
  /\ FamilyStartOf(K, SegStartS(K, t), FamilyIdx(K, t)) = FamilyStartS(K, t)
  /\ SegOfName(K, SegNameNum(K, t)) = SegStartS(K, t)
SlotBound(K, t, iv) ==
  LET k == Slot(K, t, iv)
      b == FamilyStartS(K, t) + k * iv
  IN k >= 0 /\ k < 65536 /\ b <= t[1] /\ t[1] < b + iv
BucketingOK(t) ==
  \A K \in Kinds :
    /\ Contains(K, t) /\ Idempotent(K, t) /\ TilesWithoutGapOrOverlap(K, t) /\ NamedFamily(K, t)
    /\ \A iv \in Intervals : TypeOf(iv) = K => SlotBound(K, t, iv)

\* ---------------------------------------------------------------- shard family lookup
Overlaps(K, f, from, to) == Le(<<f, 0>>, to) /\ Le(from, FamilyEnd(K, <<f, 0>>))
Wanted(K, F, from, to) == {f \in F : Overlaps(K, f, from, to)}
\* the code (tsdb/interval_segment.go + segment.go GetDataFamilies): segments whose start lies in
\* [segment start of from, to]; inside each, the family INDEX of from / to is re-based on that segment
CodeLookup(K, F, from, to) ==
  {f \in F :
     LET S == SegStartS(K, <<f, 0>>)
         qs == FamilyStartOf(K, S, FamilyIdx(K, from))
         qe == FamilyStartOf(K, S, FamilyIdx(K, to))
         fe == FamilyEnd(K, <<f, 0>>)[1]
     IN /\ SegStartS(K, from) <= S /\ Le(<<S, 0>>, to)
        /\ ((qs <= f /\ f <= qe) \/ (f <= qs /\ qs <= fe))}
LookupResult(K, F, from, to) == IF DevLookup THEN CodeLookup(K, F, from, to) ELSE Wanted(K, F, from, to)

\* ---------------------------------------------------------------- query planner
\* input: opts = set of stored intervals (s), qiv = interval of the statement (s, <= 0: not given),
\* auto = group the whole range into one bucket, from / to = requested range
DiffS(from, to) == to[1] - from[1] - (IF to[2] < from[2] THEN 1 ELSE 0)   \* floor((to - from) / 1000 ms)
AutoInterval(d, q) ==
  IF d < HourSec THEN q
  ELSE IF d < 3 * HourSec THEN 10
  ELSE IF d < 6 * HourSec THEN 30
  ELSE IF d < 12 * HourSec THEN 60
  ELSE IF d < DaySec THEN 120
  ELSE IF d < 2 * DaySec THEN 300
  ELSE IF d < 7 * DaySec THEN 600
  ELSE IF d < 30 * DaySec THEN HourSec
  ELSE IF d < 60 * DaySec THEN 4 * HourSec
  ELSE IF d < 90 * DaySec THEN 12 * HourSec
  ELSE DaySec
Stored(opts, q) == IF \E o \in opts : o <= q THEN Max({o \in opts : o <= q}) ELSE Min(opts)
TruncS(t, iv) == (t[1] \div iv) * iv
PointCount(from, to, iv) ==      \* from / to whole seconds
  LET d == to - from
      c == d \div iv + (IF d % iv > 0 THEN 1 ELSE 0)
  IN IF c = 0 THEN 1 ELSE c
Plan(in) ==
  LET q0 == IF in.qiv <= 0 THEN Min(in.opts) ELSE in.qiv
      a == AutoInterval(DiffS(in.from, in.to), q0)
      si == Stored(in.opts, a)
      f == TruncS(in.from, si)
      e == TruncS(in.to, si)
      qi == IF in.auto THEN (e - f) + si ELSE in.qiv
      i2 == IF a < qi THEN qi ELSE a
      ratio == IF i2 < si THEN 1 ELSE i2 \div si
  IN [from |-> <<f, 0>>, to |-> <<e, 0>>, siv |-> si, ratio |-> ratio, iv |-> si * ratio]
ChosenIntervalIsStored(in, out) == out.siv \in in.opts
QueryIntervalIsMultiple(in, out) == out.ratio >= 1 /\ out.iv = out.siv * out.ratio
RangeAlignedAndCovers(in, out) ==
  /\ out.from[2] = 0 /\ out.to[2] = 0
  /\ out.from[1] % out.siv = 0 /\ out.to[1] % out.siv = 0
  /\ Le(out.from, in.from) /\ in.from[1] < out.from[1] + out.siv
  /\ Le(out.to, in.to) /\ in.to[1] < out.to[1] + out.siv
  \* the points of the result (one more than PointCount, aggregation/expression.go) reach the requested end
  /\ out.from[1] + (PointCount(out.from[1], out.to[1], out.iv) + 1) * out.iv > in.to[1]
PlanOK(in, out) == ChosenIntervalIsStored(in, out) /\ QueryIntervalIsMultiple(in, out) /\ RangeAlignedAndCovers(in, out)
\* An interval is regular when the epoch grid (Truncate) and the family grid (CalcSlot) coincide:
\* it divides the family length of its type (year type: the day, every month starts on a day boundary).
Regular(iv) == CASE TypeOf(iv) = "day" -> HourSec % iv = 0
                 [] TypeOf(iv) = "month" -> DaySec % iv = 0
                 [] TypeOf(iv) = "year" -> DaySec % iv = 0
\* with a regular stored interval the planned range selects the storage slots of the requested ends
PlannedRangeSelectsRequestedSlots(in, out) ==
  LET K == TypeOf(out.siv) IN
  /\ SlotStart(K, out.to, out.siv) = SlotStart(K, in.to, out.siv)
  /\ SlotStart(K, out.from, out.siv) = SlotStart(K, in.from, out.siv)

\* ---------------------------------------------------------------- state machine
Idle == /\ grp = 0 /\ day = 0 /\ civ = CivilFromDays(0) /\ inst = <<0, 0>> /\ pin = NoPlan
        /\ siv = 0 /\ fams = {} /\ last = NoLookup
Init ==
  \/ mode = "walk" /\ grp = 0 /\ day = FirstDay /\ civ = FirstCivil /\ inst = <<0, 0>> /\ pin = NoPlan
     /\ siv = 0 /\ fams = {} /\ last = NoLookup
  \/ mode = "root" /\ Idle
  \/ mode = "shard" /\ Idle

\* model checking only: root -> one state per group -> one state per instant / planner input of the group
PickGroup ==
  /\ mode = "root" /\ mode' = "group" /\ grp' \in Groups
  /\ UNCHANGED <<day, civ, inst, pin, siv, fams, last>>
PickInstant ==
  /\ mode = "group" /\ mode' = "inst" /\ inst' \in InstantsOf(grp)
  /\ UNCHANGED <<grp, day, civ, pin, siv, fams, last>>
PickPlanInput ==
  /\ mode = "group" /\ mode' = "plan" /\ pin' \in PlanInputsOf(grp)
  /\ UNCHANGED <<grp, day, civ, inst, siv, fams, last>>

WalkStep ==
  /\ mode = "walk" /\ day < LastDay
  /\ day' = day + 1 /\ civ' = SuccDate(civ)
  /\ UNCHANGED <<mode, grp, inst, pin, siv, fams, last>>

\* Shard.GetOrCrateDataFamily(t): the family of t exists afterwards
Create(iv, t) ==
  /\ mode = "shard" /\ siv \in {0, iv}
  /\ siv' = iv /\ fams' = fams \cup {FamilyStartS(TypeOf(iv), t)} /\ last' = NoLookup
  /\ UNCHANGED <<mode, grp, day, civ, inst, pin>>
\* Shard.GetDataFamilies(range) answered got
Lookup(iv, from, to, got) ==
  /\ mode = "shard" /\ siv \in {0, iv} /\ Le(from, to)
  /\ siv' = iv /\ last' = [from |-> from, to |-> to, got |-> got, none |-> FALSE]
  /\ UNCHANGED <<mode, grp, day, civ, inst, pin, fams>>

Next ==
  \/ WalkStep \/ PickGroup \/ PickInstant \/ PickPlanInput
  \/ \E t \in ShardInstants : Create(ShardInterval, t)
  \/ \E a, b \in ShardInstants :
        Lookup(ShardInterval, a, b, LookupResult(TypeOf(ShardInterval), fams, a, b))
Spec == Init /\ [][Next]_vars

\* ---------------------------------------------------------------- invariants
CalendarClosedForms ==
  mode = "walk" => /\ CivilFromDays(day) = civ
                   /\ DaysFromCivil(civ.y, civ.m, civ.d) = day
                   /\ civ.m \in 1..12 /\ civ.d \in 1..MonthLen(civ.y, civ.m)
Bucketing == mode = "inst" => BucketingOK(inst)
Planner == mode = "plan" => PlanOK(pin, Plan(pin))
PlannerSlots == (mode = "plan" /\ Regular(Plan(pin).siv)) => PlannedRangeSelectsRequestedSlots(pin, Plan(pin))
PlannerSlotsAnyInterval == mode = "plan" => PlannedRangeSelectsRequestedSlots(pin, Plan(pin))
\* the families a lookup returns are exactly the existing families that overlap the range
LookupMatchesOverlap ==
  (mode = "shard" /\ ~last.none) => last.got = Wanted(TypeOf(siv), fams, last.from, last.to)
\* (used to recognise the known finding: the answer is exactly what the code's arithmetic predicts)
LookupMatchesDeviation ==
  (mode = "shard" /\ ~last.none) => last.got = CodeLookup(TypeOf(siv), fams, last.from, last.to)
=============================================================================
