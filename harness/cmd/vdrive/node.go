package main

import (
	"bytes"
	"context"
	"flag"
	"fmt"
	"io"
	"math/rand"
	"os"
	"path/filepath"
	"runtime/debug"
	"strconv"
	"strings"
	"time"

	"github.com/lindb/common/pkg/ltoml"
	commontimeutil "github.com/lindb/common/pkg/timeutil"
	protoMetricsV1 "github.com/lindb/common/proto/gen/v1/linmetrics"

	"github.com/lindb/lindb/config"
	"github.com/lindb/lindb/kv"
	"github.com/lindb/lindb/models"
	"github.com/lindb/lindb/pkg/compress"
	"github.com/lindb/lindb/pkg/option"
	"github.com/lindb/lindb/pkg/queue"
	"github.com/lindb/lindb/pkg/timeutil"
	"github.com/lindb/lindb/replica"
	"github.com/lindb/lindb/series/metric"
	"github.com/lindb/lindb/sql/stmt"
	"github.com/lindb/lindb/tsdb"

	"verif/harness/internal/kvwrap"
	"verif/harness/internal/trace"
)

func init() { register("node", nodeMain) }

var nodeFamilyStart = time.Date(2022, 3, 1, 11, 0, 0, 0, time.UTC).UnixMilli()

// the write window of the database (option strings); empty = 0: nothing is writable any more for the 2022 family
var nodeAhead, nodeBehind string

// gatedFamily lets the driver run steps of OTHER goroutines of a node (the flush job) inside one round of
// the local replicator: before family.WriteRows (after ValidateSequence) and after it (before the deferred
// CommitSequence).  Everything else is the real family.
type gatedFamily struct {
	tsdb.DataFamily
	before, after func()
}

func (g *gatedFamily) WriteRows(rows []*metric.StorageRow) error {
	if f := g.before; f != nil {
		g.before = nil
		f()
	}
	err := g.DataFamily.WriteRows(rows)
	if f := g.after; f != nil {
		g.after = nil
		f()
	}
	return err
}

type node struct {
	gate   *gatedFamily
	dir    string
	engine tsdb.Engine
	db     tsdb.Database
	shard  tsdb.Shard
	family tsdb.DataFamily
	log    queue.FanOutQueue
	part   replica.Partition
	// the log was destroyed by the WAL GC (expired family): partition closed, directory removed
	destroyed bool
	// recovered from an image whose log had been destroyed: the node opened a new, empty log
	freshLog bool
	cancel   context.CancelFunc
	mgr      replica.WriteAheadLogManager
}

// manager mode: the partition is created and recovered by the REAL write ahead log manager (replica/wal_manager.go,
// wal.go: directory layout <wal>/<database>/<shard>/<family time>/<leader>, Recovery() walks it and rebuilds the
// replicators of every partition from the consumer groups of its log) on a FOLLOWER-side node: this node is nodeSelf,
// the leader of the family log is node 1.  Entries arrive through Partition.ReplicaLog (what the leader's stream
// delivers), the local replicator applies them under the leader's sequence key.
var (
	nodeViaMgr bool
	nodeSelf   = models.NodeID(1)
)

func nodeGroup() string { return strconv.Itoa(int(nodeSelf)) }

// nodeQueueDir: the directory of the log queue under the node directory
func nodeQueueDir(dir string) string {
	if !nodeViaMgr {
		return filepath.Join(dir, "wal")
	}
	return filepath.Join(dir, "wal", "db", "1", commontimeutil.FormatTimestamp(nodeFamilyStart, commontimeutil.DataTimeFormat4), "1")
}

func (n *node) openLog() error {
	if !nodeViaMgr {
		var err error
		n.log, err = queue.NewFanOutQueue(filepath.Join(n.dir, "wal"), 0)
		if err != nil {
			return err
		}
		n.gate = &gatedFamily{DataFamily: n.family}
		n.part = replica.NewPartition(context.Background(), n.shard, n.gate, 1, n.log, nil, fakeStateMgr{})
		return n.part.BuildReplicaForLeader(1, []models.NodeID{1})
	}
	replica.VerifStepwise = true
	ctx, cancel := context.WithCancel(context.Background())
	n.cancel = cancel
	mgr := n.mgr
	mgr = replica.NewWriteAheadLogManager(ctx, config.WAL{Dir: filepath.Join(n.dir, "wal"),
		RemoveTaskInterval: ltoml.Duration(24 * time.Hour)}, nodeSelf, n.engine, nil, fakeStateMgr{})
	n.mgr = mgr
	if err := mgr.Recovery(); err != nil {
		return err
	}
	var err error
	n.part, err = mgr.GetOrCreateLog("db").GetOrCreatePartition(models.ShardID(1), nodeFamilyStart, models.NodeID(1))
	if err != nil {
		return err
	}
	n.gate = &gatedFamily{DataFamily: n.family} // not in the partition's path in this mode
	n.log = replica.VerifPartitionLog(n.part)
	// what the storage node does when the shard state names it as a follower (a no-op for a recovered replicator)
	return n.part.BuildReplicaForFollower(models.NodeID(1), nodeSelf)
}

// appendEntry: an entry reaches the log of the node -- written by the leader itself, or delivered to the follower
func (n *node) appendEntry(seq int, msg []byte) error {
	if !nodeViaMgr {
		return n.part.WriteLog(msg)
	}
	_, err := n.part.ReplicaLog(int64(seq), msg)
	return err
}

func openNode(dir string) (*node, error) {
	n := &node{dir: dir}
	var err error
	n.engine, err = openEngineAt(filepath.Join(dir, "data"))
	if err != nil {
		return nil, err
	}
	db, ok := n.engine.GetDatabase("db")
	if !ok {
		opt := &option.DatabaseOption{Intervals: option.Intervals{{Interval: timeutil.Interval(10 * 1000),
			Retention: timeutil.Interval(36500 * 24 * 3600 * 1000)}}, AutoCreateNS: true, Ahead: nodeAhead, Behind: nodeBehind}
		if err := n.engine.CreateShards("db", opt, models.ShardID(1)); err != nil {
			return nil, err
		}
		db, _ = n.engine.GetDatabase("db")
	}
	n.db = db
	n.shard, _ = db.GetShard(models.ShardID(1))
	if n.shard == nil {
		return nil, fmt.Errorf("shard missing after open")
	}
	n.family, err = n.shard.GetOrCrateDataFamily(nodeFamilyStart)
	if err != nil {
		return nil, err
	}
	if err := n.openLog(); err != nil {
		return nil, err
	}
	return n, nil
}

func (n *node) close() {
	// closing flushes: after a destroyed log the ack callback may store into an unmapped page (see final)
	old := debug.SetPanicOnFault(true)
	defer debug.SetPanicOnFault(old)
	defer func() { _ = recover() }()
	if !n.destroyed {
		n.part.Stop()
		_ = n.part.Close()
	}
	if n.cancel != nil {
		n.cancel()
	}
	n.engine.Close()
}

var nodeNames = []string{"m1", "m2", "m3"}

// one log entry: one point of one metric at the slot that equals its sequence
func nodeMessage(name string, seq int) []byte {
	if name == "bad" {
		// not a compressed block: the local replicator cannot decode it and skips it (IgnoreMessage)
		return []byte(fmt.Sprintf("not-a-snappy-block-%d", seq))
	}
	m := &protoMetricsV1.Metric{Name: name, Timestamp: nodeFamilyStart + int64(seq)*10000 + 1,
		Tags:         []*protoMetricsV1.KeyValue{{Key: "host", Value: "h"}},
		SimpleFields: []*protoMetricsV1.SimpleField{{Name: "f", Value: 1, Type: protoMetricsV1.SimpleFieldType_DELTA_SUM}}}
	var buf bytes.Buffer
	conv := metric.NewProtoConverter(models.NewDefaultLimits())
	_, _ = conv.MarshalProtoMetricListV1To(protoMetricsV1.MetricList{Metrics: []*protoMetricsV1.Metric{m}}, &buf)
	w := compress.NewSnappyWriter()
	_, _ = w.Write(buf.Bytes())
	_ = w.Close()
	return w.Bytes()
}

// projData is the data side of the projection (after the log was destroyed)
func (n *node) projData() trace.F {
	st := n.family.GetState()
	fseq, dseq := int64(-1), int64(-1)
	if v, ok := st.ReplicaSequences[1]; ok {
		fseq = v
	}
	snap := n.family.Family().GetSnapshot()
	if v, ok := snap.GetCurrent().GetSequences()[1]; ok {
		dseq = v
	}
	snap.Close()
	dict := map[string]int{}
	for _, nm := range nodeNames {
		if id, err := n.db.MetaDB().GetMetricID("default-ns", nm); err == nil {
			dict[nm] = int(id)
		}
	}
	return trace.F{"fseq": fseq, "dseq": dseq, "dict": dict}
}

func (n *node) proj(names []string) trace.F {
	g, _ := n.log.GetOrCreateConsumerGroup(nodeGroup())
	st := n.family.GetState()
	fseq, dseq := int64(-1), int64(-1)
	if v, ok := st.ReplicaSequences[1]; ok {
		fseq = v
	}
	snap := n.family.Family().GetSnapshot()
	if v, ok := snap.GetCurrent().GetSequences()[1]; ok {
		dseq = v
	}
	snap.Close()
	dict := map[string]int{}
	for _, nm := range nodeNames {
		if id, err := n.db.MetaDB().GetMetricID("default-ns", nm); err == nil {
			dict[nm] = int(id)
		}
	}
	return trace.F{"app": n.log.Queue().AppendedSeq(), "qack": n.log.Queue().AcknowledgedSeq(), "gack": g.AcknowledgedSeq(), "gcons": g.ConsumedSeq(),
		"fseq": fseq, "dseq": dseq, "dict": dict}
}

// copyWAL copies a queue directory: page files are large sparse mappings, only the used head is copied
func copyWAL(src, dst string) error {
	return filepath.Walk(src, func(p string, info os.FileInfo, err error) error {
		if err != nil {
			return err
		}
		rel, _ := filepath.Rel(src, p)
		target := filepath.Join(dst, rel)
		if info.IsDir() {
			return os.MkdirAll(target, 0o755)
		}
		in, err := os.Open(p)
		if err != nil {
			return err
		}
		defer in.Close()
		out, err := os.Create(target)
		if err != nil {
			return err
		}
		defer out.Close()
		limit := info.Size()
		if limit > 8<<20 {
			limit = 1 << 20 // messages of these histories are tiny
		}
		if _, err := io.CopyN(out, in, limit); err != nil && err != io.EOF {
			return err
		}
		return out.Truncate(info.Size())
	})
}

type nodePoint struct {
	dir    string
	lineN  int
	label  string
	gcons  int64
	gack   int64
	cgMeta []byte // the group meta page at the image point (pristine copy)
	// the log directory did not exist any more (destroyed by the WAL GC)
	destroyed bool
}

type nodeRun struct {
	idxStore string
	rec      *trace.Recorder
	n        *node
	names    []string // name of entry seq
	lines    [][]byte
	points   []nodePoint
	imgDir   string
	nimg     int
	image    bool
}

func (r *nodeRun) snapshot(label string) {
	if !r.image {
		return
	}
	d := filepath.Join(r.imgDir, fmt.Sprintf("img%d", r.nimg))
	r.nimg++
	if err := kvwrap.CopyDir(filepath.Join(r.n.dir, "data"), filepath.Join(d, "data")); err != nil {
		return
	}
	if r.n.destroyed {
		r.points = append(r.points, nodePoint{dir: d, lineN: len(r.lines), label: label, destroyed: true})
		return
	}
	if err := copyWAL(filepath.Join(r.n.dir, "wal"), filepath.Join(d, "wal")); err != nil {
		return
	}
	g, _ := r.n.log.GetOrCreateConsumerGroup(nodeGroup())
	cg, _ := os.ReadFile(filepath.Join(nodeQueueDir(d), "cg", nodeGroup(), "0.bat"))
	r.points = append(r.points, nodePoint{dir: d, lineN: len(r.lines), label: label, gcons: g.ConsumedSeq(), gack: g.AcknowledgedSeq(), cgMeta: cg})
}

// emitProj records the projection; without the original log (destroyed, or a new empty one after recovery) only
// the data side
func (r *nodeRun) emitProj() {
	if r.n.destroyed || r.n.freshLog {
		r.rec.Emit("ProjData", r.n.projData())
		return
	}
	r.rec.Emit("Proj", r.n.proj(r.names))
}

func (r *nodeRun) step(ev string, f trace.F, fn func()) {
	r.rec.Emit(ev, f)
	fn()
	r.emitProj()
	r.snapshot("after-" + ev)
}

func (r *nodeRun) replicaStep() bool {
	g, _ := r.n.log.GetOrCreateConsumerGroup(nodeGroup())
	if g.Pending() <= 0 {
		return false
	}
	r.step("ReplicaStep", trace.F{}, func() {
		seq := int(g.ConsumedSeq()) + 1
		replica.VerifReplicaRound(r.n.part, nodeSelf)
		// the metadata goroutine assigns the id asynchronously: wait until the name resolves
		// (it never will if the entry was rejected as already persisted and its name was lost)
		if seq >= 0 && seq < len(r.names) && r.names[seq] != "bad" {
			for i := 0; i < 100; i++ {
				if _, err := r.n.db.MetaDB().GetMetricID("default-ns", r.names[seq]); err == nil {
					break
				}
				time.Sleep(time.Millisecond)
			}
		}
	})
	return true
}

// replicaRoundWithFlush: one round of the replicator with the flush job of the engine running inside it,
// either between ValidateSequence and WriteRows or between WriteRows and CommitSequence
func (r *nodeRun) replicaRoundWithFlush(afterWrite bool, job func()) bool {
	g, _ := r.n.log.GetOrCreateConsumerGroup(nodeGroup())
	if g.Pending() <= 0 {
		return false
	}
	seq := int(g.ConsumedSeq()) + 1
	wrote := false
	r.rec.Emit("RBegin", trace.F{})
	if afterWrite {
		r.n.gate.after = func() {
			wrote = true
			r.rec.Emit("RWrite", trace.F{})
			job()
		}
	} else {
		r.n.gate.before = func() { job() }
		r.n.gate.after = func() {
			wrote = true
			r.rec.Emit("RWrite", trace.F{})
		}
	}
	replica.VerifReplicaRound(r.n.part, nodeSelf)
	r.n.gate.before, r.n.gate.after = nil, nil
	if !wrote {
		// the entry was rejected by ValidateSequence: nothing written, the job did not run
		r.rec.Emit("RWrite", trace.F{})
	}
	r.rec.Emit("RCommit", trace.F{})
	if seq >= 0 && seq < len(r.names) {
		for i := 0; i < 100; i++ {
			if _, err := r.n.db.MetaDB().GetMetricID("default-ns", r.names[seq]); err == nil {
				break
			}
			time.Sleep(time.Millisecond)
		}
	}
	r.emitProj()
	r.snapshot("after-RCommit")
	return true
}

func (r *nodeRun) metaFlush() {
	r.step("MetaFlush", trace.F{}, func() {
		if err := r.n.db.FlushMeta(); err != nil {
			r.rec.Emit("Error", trace.F{"op": "FlushMeta", "err": err.Error()})
		}
		r.n.db.WaitFlushMetaCompleted()
	})
}

// indexFlush: Shard.FlushIndex = prepare-flush of the four index families and their manifest commits one after
// the other (observed through the kv seam): every commit is an event (which part of the index became durable)
// and a kill point
func (r *nodeRun) indexFlush(w *kvwrap.World) {
	r.rec.Emit("IdxPrepare", trace.F{})
	// family ids of the shard's index store
	serID := -1
	for _, st := range kv.GetStoreManager().GetStores() {
		if strings.HasPrefix(st.Name(), filepath.Join(r.n.dir, "data")) && strings.HasSuffix(st.Name(), string(filepath.Separator)+"index") {
			if f := st.GetFamily("series"); f != nil {
				serID = int(f.ID())
			}
			r.idxStore = st.Name()
		}
	}
	if w != nil {
		w.AfterOpF = func(_ int, ev string, f trace.F) {
			if ev != "ManifestAppend" || r.idxStore == "" {
				return
			}
			rc, _ := f["rec"].(trace.F)
			fam, _ := rc["fam"].(int)
			if p, _ := f["store"].(string); p != r.idxStore {
				return
			}
			part := "index"
			if fam == serID {
				part = "series"
			}
			r.rec.Emit("IdxCommit", trace.F{"part": part})
			r.snapshot("inside-IndexFlush-after-" + part)
		}
	}
	if err := r.n.shard.FlushIndex(); err != nil {
		r.rec.Emit("Error", trace.F{"op": "FlushIndex", "err": err.Error()})
	}
	r.n.shard.WaitFlushIndexCompleted()
	if w != nil {
		w.AfterOpF = nil
	}
	r.rec.Emit("IdxDone", trace.F{})
	r.emitProj()
	r.snapshot("after-IndexFlush")
}

// flushJobReal: the flush job of the ENGINE itself -- Database.Flush hands a request to the data flush checker, one of
// its workers runs doFlush / flushShard (tsdb/data_flush_checker.go: metadata, wait, shard index, wait, family data).
// Nothing of the order is the driver's: the stages are recognised by the store of every manifest commit the kv seam
// reports (meta store, index store, data segment store), on the worker's goroutine, and emitted as the events of the
// specification; the index commits and the data commit are kill points as in the transcribed job.
func (r *nodeRun) flushJobReal(w *kvwrap.World) {
	sep := string(filepath.Separator)
	serID := -1
	for _, st := range kv.GetStoreManager().GetStores() {
		if strings.HasPrefix(st.Name(), filepath.Join(r.n.dir, "data")) && strings.HasSuffix(st.Name(), sep+"index") {
			if f := st.GetFamily("series"); f != nil {
				serID = int(f.ID())
			}
			r.idxStore = st.Name()
		}
	}
	meta, idx, committed := false, false, false
	stage := func(to string) {
		// the stages before `to` that left no trace in the kv seam had nothing to commit
		if !meta {
			meta = true
			r.rec.Emit("MetaFlush", trace.F{})
		}
		if to == "meta" {
			return
		}
		if !idx {
			idx = true
			r.rec.Emit("IdxPrepare", trace.F{})
		}
		if to == "idx" {
			return
		}
		r.rec.Emit("IdxDone", trace.F{})
	}
	idxDone := false
	w.AfterOpF = func(_ int, ev string, f trace.F) {
		if ev != "ManifestAppend" {
			return
		}
		store, _ := f["store"].(string)
		switch {
		case strings.HasSuffix(store, sep+"meta"):
			if idx {
				r.rec.Emit("Unexpected", trace.F{"what": "metadata commit after the index flush began", "store": store})
			}
			stage("meta")
		case store == r.idxStore:
			if idxDone {
				r.rec.Emit("Unexpected", trace.F{"what": "index commit after the data commit", "store": store})
			}
			stage("idx")
			rc, _ := f["rec"].(trace.F)
			fam, _ := rc["fam"].(int)
			part := "index"
			if fam == serID {
				part = "series"
			}
			r.rec.Emit("IdxCommit", trace.F{"part": part})
			r.snapshot("inside-IndexFlush-after-" + part)
		case strings.Contains(store, sep+"segment"+sep):
			if !idxDone {
				idxDone = true
				stage("data")
			}
			if !committed {
				committed = true
				r.rec.Emit("FamilyCommit", trace.F{})
				r.snapshot("between-commit-and-ack")
			}
		}
	}
	if err := r.n.db.Flush(); err != nil {
		r.rec.Emit("Error", trace.F{"op": "Database.Flush", "err": err.Error()})
	}
	deadline := time.Now().Add(60 * time.Second)
	for !tsdb.VerifFlushIdle(r.n.db) && time.Now().Before(deadline) {
		time.Sleep(time.Millisecond)
	}
	w.AfterOpF = nil
	if !tsdb.VerifFlushIdle(r.n.db) {
		r.rec.Emit("Unexpected", trace.F{"what": "the flush job of the engine did not finish"})
		return
	}
	if !idxDone {
		stage("data")
	}
	if committed {
		r.rec.Emit("FamilyAck", trace.F{})
	} else {
		r.rec.Emit("Note", trace.F{"what": "family flush without data"})
	}
	r.emitProj()
	r.snapshot("after-FlushJob")
}

// familyFlush: the manifest commit of the data segment store is observed through the kv seam
// (event FamilyCommit + image: the kill point between commit and acknowledgement)
func (r *nodeRun) familyFlush(w *kvwrap.World) {
	committed := false
	w.AfterOp = func(_ int, ev string) {
		if ev == "ManifestAppend" && !committed {
			committed = true
			r.rec.Emit("FamilyCommit", trace.F{})
			r.snapshot("between-commit-and-ack")
		}
	}
	err := r.n.family.Flush()
	w.AfterOp = nil
	if err != nil {
		r.rec.Emit("Error", trace.F{"op": "Flush", "err": err.Error()})
	}
	if committed {
		r.rec.Emit("FamilyAck", trace.F{})
	} else {
		r.rec.Emit("Note", trace.F{"what": "family flush without data"})
	}
	r.emitProj()
	r.snapshot("after-FamilyFlush")
}

// reachableSeries: series ids of the metric that the shard index returns for the metric and for the tag key "host"
func (r *nodeRun) reachableSeries(id metric.ID) map[uint32]bool {
	out := map[uint32]bool{}
	idx := r.n.shard.IndexDB()
	byMetric, err := idx.GetSeriesIDsForMetric(id)
	if err != nil || byMetric == nil {
		return out
	}
	schema, err := r.n.db.MetaDB().GetSchema(id)
	if err != nil || schema == nil {
		return out
	}
	tm, ok := schema.TagKeys.Find("host")
	if !ok {
		return out
	}
	byTag, err := idx.GetSeriesIDsForTag(tm.ID)
	if err != nil || byTag == nil {
		return out
	}
	byMetric.And(byTag)
	// ... and by tag value (the inverted index): a query with `host='h'`
	vals, err := r.n.db.MetaDB().FindTagValueDsByExpr(tm.ID, &stmt.EqualsExpr{Key: "host", Value: "h"})
	if err != nil || vals == nil {
		return out
	}
	byVal, err := idx.GetSeriesIDsByTagValueIDs(tm.ID, vals)
	if err != nil || byVal == nil {
		return out
	}
	byMetric.And(byVal)
	it := byMetric.Iterator()
	for it.HasNext() {
		out[it.Next()] = true
	}
	return out
}

// final reads back every entry: does its name resolve, and how often is its point in the data files
func (r *nodeRun) final(w *kvwrap.World) {
	// a store into the unmapped page of a destroyed log is a memory fault: an observation, not the end of the driver
	old := debug.SetPanicOnFault(true)
	defer debug.SetPanicOnFault(old)
	defer func() {
		if p := recover(); p != nil {
			r.rec.Emit("Error", trace.F{"op": "final", "err": fmt.Sprint(p)})
		}
	}()
	for !r.n.destroyed && r.replicaStep() {
	}
	r.metaFlush()
	r.indexFlush(w)
	r.familyFlush(w)
	entries := [][]int64{}
	for seq, name := range r.names {
		resolved, count := int64(0), int64(0)
		if id, err := r.n.db.MetaDB().GetMetricID("default-ns", name); err == nil {
			resolved = 1
			// the series a query finds: by metric AND by its tag key, through the shard's index
			reach := r.reachableSeries(id)
			bl, err := familyBlocks(r.n.family.Family(), []uint32{uint32(id)})
			if err == nil {
				for _, b := range bl[uint32(id)] {
					for _, c := range b {
						if c[2] == int64(seq) && reach[uint32(c[0])] {
							count += c[3]
						}
					}
				}
			}
		}
		entries = append(entries, []int64{int64(seq), resolved, count})
	}
	r.rec.Emit("Final", trace.F{"entries": entries})
}

func nodeHistory(rec *trace.Recorder, dir string, rng *rand.Rand, h int, image, late bool, sum *trace.Summary, nimages *int) {
	w := kvwrap.NewWorld(filepath.Join(dir, "data"), rec)
	w.Silent = true
	defer w.Drop()
	n, err := openNode(dir)
	if err != nil {
		sum.Unresolved = append(sum.Unresolved, "open node: "+err.Error())
		return
	}
	run := &nodeRun{rec: rec, n: n, image: image, imgDir: dir + "-img"}
	rec.Reset(trace.F{"mode": map[bool]string{false: "node", true: "node-late"}[late], "h": h})
	rec.Tap = func(b []byte) { run.lines = append(run.lines, append([]byte{}, b...)) }
	rec.Emit("Proj", n.proj(nil))
	steps := 10 + rng.Intn(10)
	script := []string{}
	// the first history is scripted: entries consumed but not flushed when the WAL GC task looks at the (expired)
	// family's log, again after more entries, and once more after the flush job acknowledged everything
	var forced []int
	if h == 0 {
		// (with an undecodable entry behind two consumed, unflushed ones)
		forced = []int{0, 0, 40, 40, 1, 40, 97, 0, 40, 97, 70, 97}
		steps = len(forced)
	}
	if late {
		// ... the WAL GC task looks at the log, late data arrives, is replicated and flushed, the task looks again
		forced = []int{0, 0, 40, 40, 70, 97, 0, 40, 0, 40, 70, 97}
		steps = len(forced)
	}
	for i := 0; i < steps; i++ {
		c := rng.Intn(100)
		if len(forced) > 0 {
			c, forced = forced[0], forced[1:]
		}
		switch {
		case c < 35 && len(run.names) < 8:
			name := nodeNames[rng.Intn(len(nodeNames))]
			if c == 1 || (len(forced) == 0 && h != 0 && h < 1000 && rng.Intn(8) == 0) {
				name = "bad"
			}
			seq := len(run.names)
			run.step("Append", trace.F{"name": name}, func() {
				if err := n.appendEntry(seq, nodeMessage(name, seq)); err != nil {
					rec.Emit("Error", trace.F{"op": "WriteLog", "err": err.Error()})
				}
			})
			run.names = append(run.names, name)
			script = append(script, "append:"+name)
		case c < 55:
			if run.replicaStep() {
				script = append(script, "replica")
			}
		case c < 65 && !nodeViaMgr:
			// the flush job falls INSIDE a round of the replicator (different goroutines in a node)
			afterWrite := rng.Intn(2) == 0
			if run.replicaRoundWithFlush(afterWrite, func() {
				run.metaFlush()
				run.indexFlush(w)
				run.familyFlush(w)
			}) {
				script = append(script, fmt.Sprintf("replica-with-flush(afterWrite=%v)", afterWrite))
			}
		case c < 90:
			// the flush job of the engine: metadata, index, family data -- with replication racing
			// between its stages
			race := func() {
				for k := rng.Intn(3); k > 0; k-- {
					if rng.Intn(2) == 0 && len(run.names) < 8 {
						name := nodeNames[rng.Intn(len(nodeNames))]
						seq := len(run.names)
						run.step("Append", trace.F{"name": name}, func() { _ = n.appendEntry(seq, nodeMessage(name, seq)) })
						run.names = append(run.names, name)
					} else {
						run.replicaStep()
					}
				}
			}
			if h != 0 && h < 1000 && rng.Intn(3) == 0 {
				// the job as the engine runs it (nothing races inside it here)
				run.flushJobReal(w)
				script = append(script, "flushjob(engine)")
				break
			}
			racing := rng.Intn(2) == 0 && !(h == 0 || h >= 1000)
			run.metaFlush()
			if racing {
				race()
			}
			run.indexFlush(w)
			if racing && rng.Intn(2) == 0 {
				race()
			}
			run.familyFlush(w)
			script = append(script, fmt.Sprintf("flushjob(racing=%v)", racing))
		case c >= 96 && nodeViaMgr:
			// the WAL GC pass of the REAL manager (writeAheadLogManager.garbageCollect -> writeAheadLog.destroy): Sync, GC and
			// the expiry check of every partition; an expired log is stopped, closed and removed by lindb itself
			replica.VerifWalGC(n.mgr)
			_, serr := os.Stat(nodeQueueDir(n.dir))
			expired := os.IsNotExist(serr)
			rec.Emit("ExpireCheck", trace.F{"expired": expired})
			script = append(script, fmt.Sprintf("walgc(%v)", expired))
			if !expired {
				rec.Emit("Proj", n.proj(run.names))
				run.snapshot("after-ExpireCheck")
				break
			}
			n.destroyed = true
			rec.Emit("ProjData", n.projData())
			run.snapshot("after-destroy")
			i = steps
		case c >= 96 && !nodeViaMgr:
			// the WAL GC task looks at the partition of this (long expired) family: Sync, GC, and if no group has
			// data the log is destroyed as writeAheadLog.destroy does (stop, close, remove the directory)
			expired := n.part.IsExpire()
			rec.Emit("ExpireCheck", trace.F{"expired": expired})
			script = append(script, fmt.Sprintf("expire(%v)", expired))
			if !expired {
				rec.Emit("Proj", n.proj(run.names))
				run.snapshot("after-ExpireCheck")
				break
			}
			n.part.Stop()
			_ = n.part.Close()
			_ = os.RemoveAll(filepath.Join(n.dir, "wal"))
			n.destroyed = true
			rec.Emit("ProjData", n.projData())
			run.snapshot("after-destroy")
			i = steps
			if late {
				// late data for the expired family (accepted when the database option `behind` is larger than
				// `ahead` + 15 minutes): the WAL manager creates a new log for (shard, family, leader) and the write
				// goes through it; the entry must be applied and survive like any other acknowledged write
				var err error
				if n.log, err = queue.NewFanOutQueue(filepath.Join(n.dir, "wal"), 0); err != nil {
					sum.Unresolved = append(sum.Unresolved, "recreate log: "+err.Error())
					break
				}
				n.gate = &gatedFamily{DataFamily: n.family}
				n.part = replica.NewPartition(context.Background(), n.shard, n.gate, 1, n.log, nil, fakeStateMgr{})
				if err := n.part.BuildReplicaForLeader(1, []models.NodeID{1}); err != nil {
					sum.Unresolved = append(sum.Unresolved, "recreate partition: "+err.Error())
					break
				}
				n.destroyed, n.freshLog = false, true
				rec.Emit("LogRecreate", trace.F{})
				late = false
				forced = []int{0, 40, 0, 40, 70}
				i, steps = -1, len(forced)
			}
		default:
			run.step("SyncGC", trace.F{}, func() {
				n.log.Sync()
				n.log.Queue().GC()
			})
			script = append(script, "syncgc")
		}
	}
	// the surviving node: everything must be there once
	run.image = false
	run.final(w)
	rec.Tap = nil
	n.close()
	if len(sum.Samples) < 3 {
		sum.Samples = append(sum.Samples, map[string]any{"script": script, "images": len(run.points)})
	}
	// every image: the node died there; recovery, replay, read back.  Every third image is also
	// recovered with the consumer group's meta page of an EARLIER image (positions not written back)
	recoverAt := func(p nodePoint, stale *nodePoint) {
		mode := "node-image"
		if stale != nil {
			mode = "node-image-stale-log"
		}
		rec.Reset(trace.F{"mode": mode, "h": h, "at": p.label})
		rec.Raw(run.lines[:p.lineN])
		rec.Emit("Crash", trace.F{"at": p.label})
		dir := p.dir
		if stale != nil {
			dir = p.dir + "-stale"
			_ = kvwrap.CopyDir(filepath.Join(p.dir, "data"), filepath.Join(dir, "data"))
			_ = copyWAL(filepath.Join(p.dir, "wal"), filepath.Join(dir, "wal"))
			_ = os.WriteFile(filepath.Join(nodeQueueDir(dir), "cg", nodeGroup(), "0.bat"), stale.cgMeta, 0o644)
			rec.Emit("LogRollback", trace.F{"gcons": stale.gcons, "gack": stale.gack})
			defer os.RemoveAll(dir)
		}
		w2 := kvwrap.NewWorld(filepath.Join(dir, "data"), rec)
		w2.Silent = true
		defer w2.Drop()
		n2, err := openNode(dir)
		if err != nil {
			rec.Emit("Error", trace.F{"op": "recover", "err": err.Error()})
			return
		}
		r2 := &nodeRun{rec: rec, n: n2, names: run.names[:countAppends(run.lines[:p.lineN])]}
		rec.Emit("Recover", trace.F{})
		if p.destroyed {
			// the recovered node opened a new, empty log: only the data side is compared
			n2.freshLog = true
			rec.Emit("ProjData", n2.projData())
		} else {
			rec.Emit("Proj", n2.proj(nil))
		}
		r2.final(w2)
		n2.close()
		*nimages++
	}
	for i, p := range run.points {
		if h == 0 && i > 0 && len(run.points[0].cgMeta) > 0 && len(p.cgMeta) > 0 {
			// the scripted history: every image also with the group meta page of the very first image (nothing consumed)
			recoverAt(p, &run.points[0])
		} else if i%3 == 2 {
			// an earlier image whose group meta page exists (taken from the pristine copy: recovering
			// an image modifies its directory, so this variant runs first)
			for j := rng.Intn(i); j < i; j++ {
				if len(run.points[j].cgMeta) > 0 && len(p.cgMeta) > 0 {
					recoverAt(p, &run.points[j])
					break
				}
			}
		}
		recoverAt(p, nil)
	}
	for _, p := range run.points {
		os.RemoveAll(p.dir)
	}
	os.RemoveAll(run.imgDir)
}

func countAppends(lines [][]byte) int {
	n := 0
	for _, l := range lines {
		if strings.Contains(string(l), `"ev":"Append"`) {
			n++
		}
	}
	return n
}

func nodeMain(args []string) int {
	fs := flag.NewFlagSet("node", flag.ExitOnError)
	out := fs.String("out", "node.ndjson", "trace output")
	seed := fs.Int64("seed", 1, "seed")
	nh := fs.Int("histories", 10, "histories")
	ni := fs.Int("images", 5, "histories whose every step (and the commit/ack gap) is imaged and recovered")
	nl := fs.Int("late", 0, "histories with a late write after the log of the expired family was destroyed")
	scratch := fs.String("scratch", "", "scratch directory")
	mgr := fs.Bool("mgr", false, "follower-side node whose partition is created and recovered by the write ahead log manager")
	_ = fs.Parse(args)
	if *mgr {
		nodeViaMgr, nodeSelf = true, models.NodeID(2)
	}
	if *scratch == "" {
		d, _ := os.MkdirTemp("", "vdrive-node-")
		*scratch = d
		defer os.RemoveAll(d)
	}
	kvwrap.Install()
	rec, err := trace.New(*out)
	if err != nil {
		fmt.Println(err)
		return 2
	}
	rng := rand.New(rand.NewSource(*seed))
	sum := &trace.Summary{Module: "NodeRecovery", Extra: map[string]any{}}
	nimages := 0
	for h := 0; h < *nh; h++ {
		d := filepath.Join(*scratch, fmt.Sprintf("n%d", h))
		nodeHistory(rec, d, rand.New(rand.NewSource(rng.Int63())), h, h < *ni, false, sum, &nimages)
		_ = rec.Flush()
		os.RemoveAll(d)
	}
	if *nl > 0 {
		// the family of three hours ago: outside `ahead` (1h) + 15 minutes, inside `behind` (1d): late data is accepted
		oldStart := nodeFamilyStart
		nodeFamilyStart = (time.Now().Add(-3*time.Hour).UnixMilli() / 3600000) * 3600000
		nodeAhead, nodeBehind = "1h", "1d"
		defer func() { nodeFamilyStart, nodeAhead, nodeBehind = oldStart, "", "" }()
	}
	for h := 0; h < *nl; h++ {
		d := filepath.Join(*scratch, fmt.Sprintf("l%d", h))
		nodeHistory(rec, d, rand.New(rand.NewSource(rng.Int63())), 1000+h, false, true, sum, &nimages)
		_ = rec.Flush()
		os.RemoveAll(d)
	}
	_ = rec.Close()
	sum.Traces, sum.Events = rec.Counts()
	sum.Distinct = sum.Traces
	sum.Extra["images"] = nimages
	sum.Print()
	return 0
}

var _ = kv.DefaultStoreOption
