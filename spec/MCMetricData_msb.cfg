CONSTANTS
  Series = {1}
  Slots = {0, 1}
  Vals = {1, 2}
  Types <- TypesB
SPECIFICATION Spec
INVARIANTS MultiSourceOK BookkeepingOK
CHECK_DEADLOCK FALSE
