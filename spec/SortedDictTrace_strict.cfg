CONSTANTS
  Deviation_SeekExactOnlyWhenProbeIsPrefix = FALSE
  Deviation_RegexScansLiteralPrefixOnly = FALSE
SPECIFICATION TraceSpec
CONSTRAINT HighWater
POSTCONDITION TraceAccepted
CHECK_DEADLOCK FALSE
