CONSTANTS
  SwitchCurrentEarly = FALSE
  NoNextFileNumberLog = FALSE
  StoreSnapshotLogsManifest = FALSE
  Reader = {"r1"}
  Flusher = {"f1", "f2"}
  MaxFlush = 3
  MaxCompact = 1
  MaxCleanup = 1
  CollectActiveFirst = FALSE
  UnpendEarly = FALSE
  BaseBeforeLock = FALSE
SPECIFICATION MCSpec
INVARIANTS SnapshotFilesExist NeededFilesExist NoPartialVisible ContentIsCommitted RecoveredIsCommitted
PROPERTIES CleanupRemovesOnlyDead
CHECK_DEADLOCK FALSE
