------------------------------ MODULE MasterGen ------------------------------
(***************************************************************************)
(* Leg R of C18: behaviours of the master's event machine chosen by TLC     *)
(* (-simulate) with wider constants than the exhaustive configuration; one  *)
(* word per step in `script`; `vdrive master --scripts` executes them       *)
(* against the real StateManager, MasterTrace validates the recorded states *)
(* (the random start index / replica shift of the code stay existential).   *)
(*                                                                         *)
(* The simulator picks uniformly among successor STATES; a step is split    *)
(* into a choice of the kind of step (`kind`) and the step itself so that   *)
(* the many parameter values of PutDatabase do not crowd out the others.    *)
(***************************************************************************)
EXTENDS MCMaster
VARIABLES script, kind
gvars == <<mcvars, script, kind>>
L(s) == script' = Append(script, s) /\ kind' = "none"
CanEnv == nenv < MaxEnv
Kinds == (IF pending # << >> THEN {"proc", "proc2", "proc3"} ELSE {})
         \cup (IF pending # << >> /\ Head(pending).t = "DatabaseConfigChanged" THEN {"fault"} ELSE {})
         \cup (IF CanEnv /\ repoLive # Node THEN {"up", "up2"} ELSE {})
         \cup (IF CanEnv /\ repoLive # {} THEN {"down"} ELSE {})
         \cup (IF CanEnv THEN {"put", "put2", "drop"} ELSE {})
GInit == MCInit /\ script = <<>> /\ kind = "none"
Choose == kind = "none" /\ kind' \in Kinds /\ UNCHANGED <<mcvars, script>>
GNext ==
  \/ Choose
  \/ kind \in {"up", "up2"} /\ \E n \in Node : NodeUp(n) /\ Env /\ L("up:" \o ToString(n))
  \/ kind = "down" /\ \E n \in Node : NodeDown(n) /\ Env /\ L("down:" \o ToString(n))
  \/ kind \in {"put", "put2"} /\ \E db \in Db, s \in 1..MaxShards, rf \in 1..MaxRf :
        PutDatabase(db, s, rf) /\ Env /\ L("putdb:" \o db \o ":" \o ToString(s) \o ":" \o ToString(rf))
  \/ kind = "drop" /\ \E db \in Db : DropDatabase(db) /\ Env /\ L("dropdb:" \o db)
  \/ /\ kind \in {"proc", "proc2", "proc3"}
     /\ \E st \in 0..(Cardinality(Node) - 1), sh \in 0..(Cardinality(Node) - 1) : Process(st, sh)
     /\ UNCHANGED nenv /\ L("process")
GNextF ==
  /\ kind = "fault"
  /\ \E f \in {"read", "put1", "put2"} :
       \E st \in 0..(Cardinality(Node) - 1), sh \in 0..(Cardinality(Node) - 1) :
         ProcessF(st, sh, f) /\ UNCHANGED nenv /\ L("process:" \o f)
GSpec == GInit /\ [][GNext \/ GNextF]_gvars
=============================================================================
