------------------------------- MODULE Query -------------------------------
(***************************************************************************)
(* Metric data queries of lindb -- properties C11 and C12.                 *)
(* (tsdb/memdb/field_writer.go, time_series_index.go, tsdb/data_family.go, *)
(* flow/context.go, aggregation/{down_sampling_agg,series_agg,field_agg,   *)
(* group_agg,expression}.go, query/context/{leaf_reduce,metric,root_metric,*)
(* intermediate_metric}_context.go, query/intermediate_processor.go)       *)
(*                                                                         *)
(* REFERENCE  Naive: keep every accepted point; the storage slot of a      *)
(* point comes from TimeAxis; the points of one (series, field, storage    *)
(* slot) are combined by the field's type in arrival order; the planner of *)
(* TimeAxis gives the query range / interval; the storage cells of the     *)
(* selected series that fall into one query slot are folded by the         *)
(* aggregate the (field type, function) pair stands for; one result series *)
(* per group.  Nothing in it knows where a point is stored or which node   *)
(* served it.                                                              *)
(*                                                                         *)
(* IMPLEMENTATION SHAPE  Engine: the same points live in SOURCES (per      *)
(* shard and family: a mutable memory database -- split per series/field   *)
(* into the 15-slot write window and the compressed buffer -- and files of *)
(* level 0 / 1).  Every source yields PARTIAL cells; the intended design   *)
(* merges the partial cells of a storage cell by the field's type (oldest  *)
(* source first) and then applies the function; leaves, compute nodes and  *)
(* the root merge with the function's aggregate, which is associative and  *)
(* commutative for sum / min / max.  TLC checks Engine = Naive for every   *)
(* placement (PlacementIndependence).                                      *)
(*                                                                         *)
(* NAMED DEVIATIONS of the code (constants, FALSE = intended design):      *)
(*  DevPartial  the function's aggregate is applied to the partial cells   *)
(*              of each source (wrong when it differs from the field's own *)
(*              aggregate and a storage slot is split over sources)        *)
(*  DevOrder    last / first partial results are merged in processing      *)
(*              order (memory before files, families / shards / leaves as  *)
(*              they complete, compressed buffer over window at flush),    *)
(*              not in arrival order: any source's value may win           *)
(*  DevMulti    several aggregates requested for one field are merged into *)
(*              each other at every reduce step (values not modelled)      *)
(*  DevHide     tsdb/data_family.go Filter gives up on the WHOLE family    *)
(*              when its memory database overlaps the queried slots but    *)
(*              holds none of the queried fields / none of the selected    *)
(*              series written since the restart (the files are skipped),  *)
(*              or when files overlap but none holds a queried field and   *)
(*              lists a selected series (the memory database is skipped)   *)
(*  DevWindow   a slot written for the first time inside the write window  *)
(*              moves the window's end marker DOWN to itself; later slots  *)
(*              of the window are invisible and dropped at flush           *)
(*  DevEmptySeries  an answer also lists, without any value, groups (or    *)
(*              the single ungrouped series) of series that match the      *)
(*              condition but have no point in the queried range           *)
(*  DevLikeStar `like '*'` is answered with an error (index slices [1:0]); *)
(*              the finding of C10 seen through the query path             *)
(*  DevCompute  with >= 2 compute (intermediate) nodes the receive-only    *)
(*              nodes never answer: the query times out                    *)
(*  DevSwallow  error responses that reach the root BEFORE the root's own  *)
(*              pipeline completes are erased (task_context.go Complete    *)
(*              stores the pipeline's nil error over them): the query      *)
(*              answers an empty result instead of the error               *)
(* With a deviation on, Engine yields the SET of values the code may       *)
(* return; the trace judge accepts exactly those and reports the class.    *)
(***************************************************************************)
EXTENDS Integers, Sequences, FiniteSets, TLC

CONSTANTS DevPartial, DevOrder, DevMulti, DevCompute, DevEmptySeries, DevHide, DevWindow, DevLikeStar, DevSwallow

\* the time axis reference (C13); only its pure operators are used
TA == INSTANCE TimeAxis WITH
        DevLookup <- FALSE, FirstDay <- 0, FirstCivil <- [y |-> 1970, m |-> 1, d |-> 1], LastDay <- 0,
        Groups <- {}, InstantsOf <- LAMBDA g : {}, Intervals <- {}, PlanInputsOf <- LAMBDA g : {},
        ShardInterval <- 0, ShardInstants <- {},
        mode <- "none", grp <- 0, day <- 0, civ <- [y |-> 1970, m |-> 1, d |-> 1], inst <- <<0, 0>>,
        pin <- [none |-> TRUE], siv <- 0, fams <- {}, last <- [none |-> TRUE]

VARIABLES
  ftype,  \* field name -> "sum" | "min" | "max" | "last" | "first"
  tags,   \* series id -> [tag key -> value]
  chars,  \* tag value -> its characters (sequence of 1-character strings); only `like` needs it
  stiv,   \* stored interval (s)
  pts,    \* sequence of accepted points [sid, f, t (<<s, ms>>), v, gen, ss, fs]; index = arrival order;
          \* ss = start second of the storage slot, fs = slot index inside the family (both from TimeAxis)
  srcs,   \* source id -> [sh, fam, kind ("mem" | "file"), lvl, ser]; ser: the series a FILE lists = the series of the
          \* shard's memory index when it was flushed (every series written in the shard since the restart gets
          \* an entry, with or without data: memdb FlushFamilyTo walks the shard-level time series index)
  vis,    \* memory database generation (its source id) -> source that holds its points now
  cur,    \* <<shard, family start s>> -> id of the mutable memory database
  win,    \* <<generation, sid, field>> -> [start, end, in]: write window of the series/field page: start slot,
          \* end marker (offset of the slot that was NEW when last written), points in it
  dead,   \* DevWindow: points dropped when their window was compacted / flushed while they lay beyond the end marker
  nid,    \* next source id
  rst     \* number of points accepted before the last restart (the memory index knows only later series)
vars == <<ftype, tags, chars, stiv, pts, srcs, vis, cur, win, dead, nid, rst>>

WindowSlots == 15   \* (page size 128 - header 8) / 8 bytes per value (tsdb/memdb/data_point_buffer.go)

Min(S) == CHOOSE x \in S : \A y \in S : x <= y
Max(S) == CHOOSE x \in S : \A y \in S : x >= y
RECURSIVE SumOver(_, _)
SumOver(S, val) == IF S = {} THEN 0 ELSE LET x == CHOOSE y \in S : TRUE IN val[x] + SumOver(S \ {x}, val)   \* val: a function on S

K == TA!TypeOf(stiv)
SlotStartS(t) == TA!SlotStart(K, t, stiv)[1]      \* start second of the storage slot of instant t
FamS(t) == TA!FamilyStartS(K, t)
FamSlot(t) == TA!Slot(K, t, stiv)                 \* slot index inside the family
PI == DOMAIN pts

\* ------------------------------------------------------------------ field types and functions
Own(T) == IF T = "histogram" THEN "sum" ELSE T
\* series/field/type.go GetFuncFieldParams / GetDefaultFuncFieldParams: the aggregate a select item stands for
AggOf(T, fn) == IF fn = "" THEN Own(T)
                ELSE IF fn \in {"sum", "min", "max"} THEN fn
                ELSE Own(T)
\* series/field/type.go IsFuncSupported (rate, quantile not claimed)
Supported(T, fn) ==
  CASE T = "sum" -> fn \in {"", "sum", "min", "max"}
    [] T = "min" -> fn \in {"", "min"}
    [] T = "max" -> fn \in {"", "max"}
    [] T = "last" -> fn \in {"", "last", "sum", "min", "max"}
    [] T = "first" -> fn \in {"", "first", "sum", "min", "max"}
    [] OTHER -> fn \in {"", "sum"}
Op2(A, x, y) == CASE A = "sum" -> x + y [] A = "min" -> (IF x <= y THEN x ELSE y) [] A = "max" -> (IF x >= y THEN x ELSE y)

\* points of one cell (a non-empty set of indices) combined by the field type, in arrival order
Comb(T, I) == CASE Own(T) = "sum" -> SumOver(I, [i \in I |-> pts[i].v])
                [] T = "min" -> Min({pts[i].v : i \in I})
                [] T = "max" -> Max({pts[i].v : i \in I})
                [] T = "last" -> pts[Max(I)].v
                [] T = "first" -> pts[Min(I)].v

\* ------------------------------------------------------------------ tag condition (C10 has the full class)
\* like: `x*` prefix, `*x` suffix, `*x*` contains, no star = equality, `*` / `**` = any value (contains "")
Like(kind, lit, v) ==
  LET n == Len(lit) IN
  CASE kind = "any" -> TRUE
    [] kind = "exact" -> v = lit
    [] kind = "prefix" -> Len(v) >= n /\ SubSeq(v, 1, n) = lit
    [] kind = "suffix" -> Len(v) >= n /\ SubSeq(v, Len(v) - n + 1, Len(v)) = lit
    [] kind = "contains" -> \E j \in 1..(Len(v) - n + 1) : SubSeq(v, j, j + n - 1) = lit
RECURSIVE HasLikeStar(_)
HasLikeStar(c) == CASE c.op = "like" -> c.vs[1] = "*"
                    [] c.op \in {"and", "or"} -> HasLikeStar(c.l) \/ HasLikeStar(c.r)
                    [] OTHER -> FALSE
RECURSIVE Eval(_, _)
Eval(c, tg) ==
  CASE c.op = "none" -> TRUE
    [] c.op = "eq" -> c.k \in DOMAIN tg /\ tg[c.k] = c.vs[1]
    [] c.op = "ne" -> c.k \in DOMAIN tg /\ tg[c.k] # c.vs[1]
    [] c.op = "in" -> c.k \in DOMAIN tg /\ \E j \in 1..Len(c.vs) : tg[c.k] = c.vs[j]
    [] c.op = "notin" -> c.k \in DOMAIN tg /\ \A j \in 1..Len(c.vs) : tg[c.k] # c.vs[j]
    [] c.op = "like" -> c.k \in DOMAIN tg /\ Like(c.kind, c.lit, chars[tg[c.k]])
    [] c.op = "and" -> Eval(c.l, tg) /\ Eval(c.r, tg)
    [] c.op = "or" -> Eval(c.l, tg) \/ Eval(c.r, tg)

\* ------------------------------------------------------------------ planning and selection
PlanOf(q) == TA!Plan([opts |-> {stiv}, qiv |-> q.qiv, auto |-> FALSE, from |-> q.from, to |-> q.to])
GroupOf(q, sid) == [j \in 1..Len(q.group) |-> tags[sid][q.group[j]]]
SelSids(q) == {sid \in DOMAIN tags : Eval(q.cond, tags[sid])}
\* the points a select item reads: field, condition, storage slot inside the planned range
Sel(q, p, f) == LET ok == SelSids(q) IN
                {i \in PI : pts[i].f = f /\ pts[i].sid \in ok /\ p.from[1] <= pts[i].ss /\ pts[i].ss <= p.to[1]}
QSlot(p, i) == (pts[i].ss - p.from[1]) \div p.iv
KeyOf(q, p, i) == <<GroupOf(q, pts[i].sid), QSlot(p, i)>>

\* ------------------------------------------------------------------ REFERENCE
RECURSIVE FoldCells(_, _, _)
FoldCells(A, C, val) ==      \* val: a function on C
  LET c == CHOOSE x \in C : TRUE IN
  IF C = {c} THEN val[c] ELSE Op2(A, val[c], FoldCells(A, C \ {c}, val))
\* The set of admissible values of one result cell whose points are M.  A singleton except for last / first over
\* a group of several series, where the reference does not order the series: the value of any member series
\* (its latest / earliest storage slot inside the query slot) is admissible.
NaiveVals(T, A, M) ==
  LET C == {<<pts[i].sid, pts[i].ss>> : i \in M}                           \* storage cells
      sv == [c \in C |-> Comb(T, {i \in M : pts[i].sid = c[1] /\ pts[i].ss = c[2]})]
  IN IF A \in {"sum", "min", "max"} THEN {FoldCells(A, C, sv)}
     ELSE {LET mine == {c[2] : c \in {x \in C : x[1] = sid}} IN
           sv[<<sid, IF A = "last" THEN Max(mine) ELSE Min(mine)>>] : sid \in {c[1] : c \in C}}

\* ------------------------------------------------------------------ IMPLEMENTATION SHAPE
InWindow(i) == i \in win[<<pts[i].gen, pts[i].sid, pts[i].f>>].in
\* the source part that holds point i, under a view sv of the sources (source id -> record)
PartOf(sv, i) == LET s == vis[pts[i].gen] IN
                 IF sv[s].kind = "mem" THEN <<s, IF InWindow(i) THEN "win" ELSE "comp">> ELSE <<s, "file">>

\* all folds with one value chosen per unit
RECURSIVE ChoiceFold(_, _, _)
ChoiceFold(A, U, vals) ==     \* vals: a function U -> set of values
  LET u == CHOOSE x \in U : TRUE IN
  IF U = {u} THEN vals[u]
  ELSE LET rest == ChoiceFold(A, U \ {u}, vals) IN {Op2(A, x, y) : x \in vals[u], y \in rest}

\* The set of values the engine may return for the cell whose points are M.
\* partial cell = <<part, sid, slot start>>; a part is older than another when its points arrived earlier
\* (files < memory database, compressed buffer < write window)
EngineVals(dev, sv, T, A, M) ==     \* dev = [partial, order]: the deviations in force
  LET pc == [i \in M |-> <<PartOf(sv, i), pts[i].sid, pts[i].ss>>]
      PC == {pc[i] : i \in M}
      in == [c \in PC |-> {i \in M : pc[i] = c}]
      \* value set of a partial cell (DevOrder: the compressed buffer / a compaction may keep another point)
      pv == [c \in PC |-> IF T \in {"last", "first"} /\ dev.order THEN {pts[i].v : i \in in[c]} ELSE {Comb(T, in[c])}]
      SC == {<<c[2], c[3]>> : c \in PC}
      \* value set of a storage cell: its partial cells merged by the field type, oldest part first
      sval == [s \in SC |->
                LET cs == {c \in PC : c[2] = s[1] /\ c[3] = s[2]} IN
                CASE Own(T) \in {"sum", "min", "max"} -> ChoiceFold(Own(T), cs, pv)
                  [] T = "last" -> IF dev.order THEN UNION {pv[c] : c \in cs}
                                   ELSE pv[CHOOSE c \in cs : \A d \in cs : Max(in[c]) >= Max(in[d])]
                  [] T = "first" -> IF dev.order THEN UNION {pv[c] : c \in cs}
                                    ELSE pv[CHOOSE c \in cs : \A d \in cs : Min(in[c]) <= Min(in[d])]]
  IN IF A \in {"sum", "min", "max"}
     THEN IF dev.partial THEN ChoiceFold(A, PC, pv) ELSE ChoiceFold(A, SC, sval)
     ELSE IF dev.order
          THEN \* every (part, series) is down-sampled on its own; whichever is merged last wins
               UNION {LET mine == {c[3] : c \in {x \in PC : x[1] = p[1] /\ x[2] = p[2]}} IN
                      pv[<<p[1], p[2], IF A = "last" THEN Max(mine) ELSE Min(mine)>>]
                      : p \in {<<c[1], c[2]>> : c \in PC}}
          ELSE UNION {LET mine == {c[2] : c \in {x \in SC : x[1] = sid}} IN
                      sval[<<sid, IF A = "last" THEN Max(mine) ELSE Min(mine)>>]
                      : sid \in {c[1] : c \in SC}}

Devs == [partial |-> DevPartial, order |-> DevOrder]
NoDevs == [partial |-> FALSE, order |-> FALSE]
\* DevHide: the points a query loses because DataFamily.Filter returned "not found" for their family.
\* sv: view of the sources, p: plan
Hidden(sv, q, p) ==
  LET qf == {q.items[j].f : j \in 1..Len(q.items)}
      sel == SelSids(q)
      famOf(i) == <<srcs[pts[i].gen].sh, srcs[pts[i].gen].fam>>
      inRange(I) == I # {} /\ Min({pts[i].ss : i \in I}) <= p.to[1] /\ Max({pts[i].ss : i \in I}) >= p.from[1]
      lost(fm) ==
        LET P == {i \in PI : famOf(i) = fm}
            memP == {i \in P : sv[vis[pts[i].gen]].kind = "mem"}
            files == {vis[pts[i].gen] : i \in P \ memP}
            of(s) == {i \in P : vis[pts[i].gen] = s}
            overl == {s \in files : inRange(of(s))}
            memErr == /\ inRange(memP)
                      /\ ((\A i \in memP : pts[i].f \notin qf)
                          \/ (\A x \in PI : ~(x > rst /\ srcs[pts[x].gen].sh = fm[1] /\ pts[x].sid \in sel)))
            fileErr == /\ overl # {}
                       /\ \A s \in overl : ((\A i \in of(s) : pts[i].f \notin qf) \/ sv[s].ser \cap sel = {})
        IN IF memErr \/ fileErr THEN P ELSE {}
  IN UNION {lost(fm) : fm \in {famOf(i) : i \in PI}}

\* aggregates requested for field f by the whole select list
AggsOn(q, f) == {AggOf(ftype[q.items[j].f], q.items[j].fn) : j \in {x \in 1..Len(q.items) : q.items[x].f = f}}
MultiAgg(q, j) == Cardinality(AggsOn(q, q.items[j].f)) > 1

\* ------------------------------------------------------------------ state machine
Init == /\ ftype = << >> /\ tags = << >> /\ chars = << >> /\ stiv = 10 /\ pts = << >> /\ srcs = << >> /\ vis = << >> /\ cur = << >>
        /\ win = << >> /\ dead = {} /\ nid = 1 /\ rst = 0

Universe(ft, tg, ch, iv) ==
  /\ ftype' = ft /\ tags' = tg /\ chars' = ch /\ stiv' = iv
  /\ pts' = << >> /\ srcs' = << >> /\ vis' = << >> /\ cur' = << >> /\ win' = << >> /\ dead' = {} /\ nid' = 1 /\ rst' = 0

Ext(f, k, v) == [x \in DOMAIN f \cup {k} |-> IF x = k THEN v ELSE f[x]]
Drop(f, k) == [x \in DOMAIN f \ {k} |-> f[x]]

\* tsdb/memdb/field_writer.go write: a slot outside [start, start + 14] compacts the window into the compressed
\* buffer and starts a new window at that slot; a slot of the window that is written for the first time sets the
\* end marker to ITS offset (also when that is smaller than before: the code's `buf[endOffset] = byte(delta)`);
\* reads, compaction and flush look at [start, start + end] only, so points beyond the marker are invisible and
\* are dropped when the window is compacted or flushed (named deviation DevWindow; the intended design keeps the
\* maximum).  acc = [w, dead]
Beyond(e, fsOf) == {x \in e.in : fsOf[x] > e.start + e.end}
RECURSIVE WinAfter(_, _, _, _, _)
WinAfter(acc, g, np, base, j) ==
  IF j > Len(np) THEN acc
  ELSE LET key == <<g, np[j].sid, np[j].f>>
           s == FamSlot(np[j].t)
           i == base + j
           w == acc.w
           fsOf == [x \in 1..i |-> IF x <= base THEN pts[x].fs ELSE FamSlot(np[x - base].t)]
           moved == key \in DOMAIN w /\ (s < w[key].start \/ s > w[key].start + WindowSlots - 1)
           nw == IF key \notin DOMAIN w \/ moved
                 THEN [start |-> s, end |-> 0, in |-> {i}]
                 ELSE IF \E x \in w[key].in : fsOf[x] = s
                 THEN [w[key] EXCEPT !.in = @ \cup {i}]
                 ELSE [start |-> w[key].start, end |-> s - w[key].start, in |-> w[key].in \cup {i}]
       IN WinAfter([w |-> Ext(w, key, nw), dead |-> IF moved THEN acc.dead \cup Beyond(w[key], fsOf) ELSE acc.dead],
                   g, np, base, j + 1)
\* points of the windows of generation g (all generations if g = 0) that lie beyond their end marker
DarkOf(g) == UNION {Beyond(win[k], [x \in PI |-> pts[x].fs]) : k \in {y \in DOMAIN win : g = 0 \/ y[1] = g}}
\* the points DevWindow loses: dropped for good, or invisible in a live memory database
WindowLost == dead \cup UNION {DarkOf(g) : g \in {x \in DOMAIN vis : srcs[x].kind = "mem"}}

\* rows of one shard and one family handed to DataFamily.WriteRows: np = sequence of [sid, f, t, v]
Write(sh, fam, np) ==
  LET key == <<sh, fam>>
      fresh == key \notin DOMAIN cur
      g == IF fresh THEN nid ELSE cur[key]
  IN /\ Len(np) > 0
     /\ \A j \in 1..Len(np) : FamS(np[j].t) = fam /\ np[j].f \in DOMAIN ftype /\ np[j].sid \in DOMAIN tags
     /\ pts' = pts \o [j \in 1..Len(np) |-> [sid |-> np[j].sid, f |-> np[j].f, t |-> np[j].t, v |-> np[j].v, gen |-> g,
                                             ss |-> SlotStartS(np[j].t), fs |-> FamSlot(np[j].t)]]
     /\ LET r == WinAfter([w |-> win, dead |-> dead], g, np, Len(pts), 1) IN win' = r.w /\ dead' = r.dead
     /\ IF fresh
        THEN /\ cur' = Ext(cur, key, g) /\ nid' = nid + 1
             /\ srcs' = Ext(srcs, g, [sh |-> sh, fam |-> fam, kind |-> "mem", lvl |-> 0, ser |-> {}])
             /\ vis' = Ext(vis, g, g)
        ELSE UNCHANGED <<cur, nid, srcs, vis>>
     /\ UNCHANGED <<ftype, tags, chars, stiv, rst>>

\* series the memory index of shard sh knows: written in that shard since the last restart
IndexSeries(sh) == {pts[x].sid : x \in {y \in PI : y > rst /\ srcs[pts[y].gen].sh = sh}}
\* the mutable memory database becomes a level-0 file (no-op without one)
Flush(sh, fam) ==
  LET key == <<sh, fam>> IN
  /\ IF key \in DOMAIN cur
     THEN /\ srcs' = [srcs EXCEPT ![cur[key]].kind = "file", ![cur[key]].ser = IndexSeries(sh)]
          /\ cur' = Drop(cur, key)
          /\ dead' = dead \cup DarkOf(cur[key])
     ELSE UNCHANGED <<srcs, cur, dead>>
  /\ UNCHANGED <<ftype, tags, chars, stiv, pts, vis, win, nid, rst>>

FilesIn(sr, vs, sh, fam, lvl) ==
  {s \in {vs[g] : g \in DOMAIN vs} : sr[s].sh = sh /\ sr[s].fam = fam /\ sr[s].kind = "file" /\ sr[s].lvl = lvl}
FilesOf(sh, fam, lvl) == FilesIn(srcs, vis, sh, fam, lvl)
\* kv/family.go Compact: with more than one level-0 file, all of level 0 and the overlapping level-1 files
\* (one metric: all of them) are merged into one level-1 file
Compact(sh, fam) ==
  LET l0 == FilesOf(sh, fam, 0)  ins == l0 \cup FilesOf(sh, fam, 1) IN
  /\ IF Cardinality(l0) > 1
     THEN /\ srcs' = Ext(srcs, nid, [sh |-> sh, fam |-> fam, kind |-> "file", lvl |-> 1,
                                      ser |-> UNION {srcs[s].ser : s \in ins}])
          /\ vis' = [g \in DOMAIN vis |-> IF vis[g] \in ins THEN nid ELSE vis[g]]
          /\ nid' = nid + 1
     ELSE UNCHANGED <<srcs, vis, nid>>
  /\ UNCHANGED <<ftype, tags, chars, stiv, pts, cur, win, dead, rst>>

\* clean restart: closing a family flushes its memory database
Reopen ==
  /\ srcs' = [s \in DOMAIN srcs |-> IF srcs[s].kind = "mem"
                                    THEN [srcs[s] EXCEPT !.kind = "file", !.ser = IndexSeries(srcs[s].sh)] ELSE srcs[s]]
  /\ cur' = << >> /\ rst' = Len(pts)
  /\ dead' = WindowLost
  /\ UNCHANGED <<ftype, tags, chars, stiv, pts, vis, win, nid>>

\* ------------------------------------------------------------------ properties
\* every select item is a supported (type, function) pair
WellFormedQuery(q) == \A j \in 1..Len(q.items) : q.items[j].f \in DOMAIN ftype /\ Supported(ftype[q.items[j].f], q.items[j].fn)

\* C11: under every placement the engine returns what the reference computes (TLC: for all reachable placements)
PlacementIndependent(q) ==
  LET p == PlanOf(q) IN
  /\ \A j \in 1..Len(q.items) :
       LET f == q.items[j].f  T == ftype[f]  A == AggOf(T, q.items[j].fn)
           S == Sel(q, p, f)
           key == [i \in S |-> KeyOf(q, p, i)]
       IN \A k \in {key[i] : i \in S} :
            LET M == {i \in S : key[i] = k} IN EngineVals(Devs, srcs, T, A, M) = NaiveVals(T, A, M)
  \* no accepted point of the queried range is invisible or dropped
  /\ (DevWindow => \A x \in 1..Len(q.items) : Sel(q, p, q.items[x].f) \cap WindowLost = {})
  /\ (DevHide => \A x \in 1..Len(q.items) : Sel(q, p, q.items[x].f) \cap Hidden(srcs, q, p) = {})
=============================================================================
