"""C13 -- time bucketing partitions the time axis consistently (module TimeAxis)."""
import glob
import json
import os

import vcore

MODULE, CFG = "TimeAxisTrace", "TimeAxisTrace.cfg"
T_ACTIONS = ["TReset", "TCalc", "TSlotRange", "TGroup", "TPlan", "TCreate", "TLookup"]


def _mutate(ev, fn, pred=None):
    """Mutation of the first event of kind ev (for which pred holds) by fn(dict)."""
    def m(lines):
        for i, ln in enumerate(lines):
            if ('"ev":"%s"' % ev) in ln:
                d = json.loads(ln)
                if pred and not pred(d):
                    continue
                fn(d)
                out = list(lines)
                out[i] = json.dumps(d, separators=(",", ":")) + "\n"
                return out
        return None
    return m


def _bump_ms(p):
    # instant [s, ms] + 1 ms
    if p[1] == 999:
        p[0], p[1] = p[0] + 1, 0
    else:
        p[1] += 1


def run(ctx, replay):
    if replay:
        ok, info = ctx.validate_trace(MODULE, CFG, replay, dfs=False)
        if not ok:
            ctx.violation("TimeAxis:replay", "replayed trace rejected: %s" % info, replay_src=replay)
        return
    thorough = ctx.tier == "thorough"
    # ---- leg M: the reference's own properties
    # the calendar closed forms against the successor rule, day by day from the epoch to 2038 (a chain: one worker)
    ctx.model_check("MCTimeAxis", "MCTimeAxis_calendar.cfg", workers=1, timeout=600)
    # partition / tiling / idempotence / slot bounds at every hour edge of a six-year window, every interval value;
    # planner properties around every threshold; shard lookup = overlap
    ctx.model_check("MCTimeAxis", "MCTimeAxis_thorough.cfg" if thorough else "MCTimeAxis.cfg", coverage=thorough, timeout=1800)
    # the known finding re-confirmed in the model: the lookup arithmetic of the code violates LookupMatchesOverlap
    ctx.model_check("MCTimeAxis", "MCTimeAxis_devlookup.cfg", expect="violation", timeout=600)
    # the Regular() guard of PlannerSlots is needed (epoch grid vs family grid for intervals that do not divide the family)
    ctx.model_check("MCTimeAxis", "MCTimeAxis_irregular.cfg", expect="violation", timeout=600)

    # ---- leg T: the real code judged by the reference
    tr = os.path.join(ctx.scratch, "taxis.ndjson")
    trs = os.path.join(ctx.scratch, "taxis-shard.ndjson")
    scr = os.path.join(ctx.scratch, "scr-taxis")
    os.makedirs(scr, exist_ok=True)
    ncalc, ngroup, nplan, nshard = (200000, 10000, 30000, 14) if thorough else (30000, 2000, 6000, 4)
    summ, rc, _ = ctx.run_vdrive(["taxis", "--seed", ctx.seed, "--calc", ncalc, "--groups", ngroup, "--plans", nplan,
                                  "--shards", nshard, "--irregular", 3 if thorough else 1, "--out", tr, "--shardout", trs, "--scratch", scr], timeout=1800)
    for u in summ["unresolved"]:
        raise vcore.Unresolved("taxis driver: %s" % u)
    for s in summ["samples"][:3]:
        ctx.sample(s)
    ctx.extra["events"] = summ["events"]
    ctx.extra["events_by_kind"] = summ["extra"]["events_by_kind"]

    vcore.validate_all(ctx, MODULE, CFG, tr, dfs=False, timeout=1800)

    # binding self-tests on one sub-trace of each kind: each corrupts a different kind of real output
    clean = os.path.join(ctx.scratch, "taxis-clean.ndjson")
    seen = set()
    with open(clean, "w") as f:
        for t in vcore.split_traces(vcore.read_lines(tr)):
            kind = json.loads(t[0]).get("kind")
            if kind not in seen:
                seen.add(kind)
                f.write("".join(t[:400]))
    tests = [
        (_mutate("Calc", lambda d: _bump_ms(d["fe"])), "a family's end time + 1 ms"),
        (_mutate("Calc", lambda d: d.__setitem__("slot", d["slot"] + 1)), "a slot index + 1"),
        (_mutate("Calc", lambda d: d.__setitem__("seg", str(int(d["seg"]) + 1))), "another segment name"),
        (_mutate("SlotRange", lambda d: d.__setitem__("hi", d["hi"] + 1)), "a slot range's end + 1"),
        (_mutate("Group", lambda d: d["groups"][0]["ft"].__setitem__(0, d["groups"][0]["ft"][0] + 1)), "a row group's family time + 1 s"),
        (_mutate("Plan", lambda d: d["oto"].__setitem__(0, d["oto"][0] - d["osiv"])), "planned range end one storage interval earlier"),
        (_mutate("Plan", lambda d: d.__setitem__("oratio", d["oratio"] + 1)), "planned interval ratio + 1"),
    ]
    for mut, what in (tests if thorough else tests[:1] + tests[3:6]):
        vcore.corrupt_selftest(ctx, MODULE, CFG, clean, mut, what)

    # real shards: every rejected history is reported; a rejection that is exactly what the code's per-segment
    # family-index arithmetic predicts for a range crossing a segment edge is the known finding
    def describe(sig, lines, rel, info):
        try:
            d = json.loads(lines[min(rel, len(lines)) - 1])
        except ValueError:
            d = {}
        if d.get("ev") == "Plan":
            # explained by the epoch grid / family grid mismatch of an irregular stored interval alone?
            p = os.path.join(ctx.scratch, "irr-%d.ndjson" % len(ctx.legs))
            with open(p, "w") as f:
                f.write("".join(lines[:rel]))
            ok, _ = ctx.validate_trace(MODULE, "TimeAxisTrace_regular.cfg", p, label="explained-by-irregular-grid", dfs=False)
            return sig + (":irregulargrid" if ok else ":other")
        if d.get("ev") != "Lookup":
            return sig
        typ = "day" if d["iv"] < 300 else ("month" if d["iv"] < 3600 else "year")
        sig = "%s:%s:%s" % (sig, "xseg" if d.get("xseg") else "sameseg", typ)
        p = os.path.join(ctx.scratch, "dev-%d.ndjson" % len(ctx.legs))
        with open(p, "w") as f:
            f.write("".join(lines[:rel]))
        ok, _ = ctx.validate_trace(MODULE, "TimeAxisTrace_devlookup.cfg", p, label="explained-by-deviation", dfs=False)
        return sig + (":asdeviation" if ok else ":other")

    for p in glob.glob(os.path.join(ctx.scratch, "val-%s-*.ndjson" % MODULE)):
        os.remove(p)
    nsh = len(vcore.split_traces(vcore.read_lines(trs)))
    acc = vcore.validate_all(ctx, MODULE, CFG, trs, describe=describe, dfs=False, max_rejections=nsh + 1)
    ctx.extra["shard_histories"] = nsh
    ctx.extra["shard_histories_accepted"] = acc
    accepted = ctx.accepted_path
    vcore.corrupt_selftest(ctx, MODULE, CFG, accepted,
                           _mutate("Lookup", lambda d: d["got"].pop(), lambda d: len(d["got"]) > 0),
                           "a lookup misses one overlapping family")
    vcore.corrupt_selftest(ctx, MODULE, CFG, accepted, _mutate("Create", lambda d: _bump_ms(d["fr"][1])),
                           "a created family's range end + 1 ms")

    # every trace action must have been taken (no vacuous binding)
    both = os.path.join(ctx.scratch, "taxis-cover.ndjson")
    with open(both, "w") as f:
        f.write("".join(vcore.read_lines(clean)))
        f.write("".join(vcore.read_lines(accepted)))
    res = ctx.tlc(MODULE, CFG, workers=1, files={"trace.ndjson": both}, coverage=True, count=False)
    taken = {}
    for k, v in res.coverage.items():
        name = k.split("@")[0]
        if name in T_ACTIONS:
            taken[name] = max(taken.get(name, 0), v)
    ctx.extra["trace_action_coverage"] = taken
    missing = [a for a in T_ACTIONS if not taken.get(a)]
    if res.kind != "ok" or missing:
        raise vcore.Unresolved("vacuous binding: trace actions never taken: %s (tlc %s)" % (missing, res.kind))
    ctx.assumptions += [
        "TZ=UTC (the calculators use time.Local; the driver sets time.Local = time.UTC); zones with DST are outside the property as stated",
        "intervals are whole seconds (n x s/m/h/d/M/y, all the database option and the query grammar admit); instants are in 2019-01-01 .. 2025-02",
        "the planner is reached through RootMetricContext.MakePlan with a state manager that only supplies the database option",
        "one database option interval per real shard (no rollup targets); retention is set far beyond the window so that no segment expires",
    ]
