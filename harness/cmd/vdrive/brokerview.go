package main

// Extension module BrokerView: the REAL broker state manager (coordinator/broker) with the REAL channel manager
// (replica) subscribed to it.  The driver plays the three discovery watchers (database configs, broker nodes, storage
// state): an event is "pending" until the driver emits it, and the order ACROSS the watchers is the driver's choice.
// The state manager handles events on its own goroutine; after each emitted event the driver emits a sentinel
// broker-node event and waits until the sentinel shows up in GetLiveNodes (events are handled in order), so every
// observation is taken at a quiescent point.  Observed after every step: databases, broker nodes, the cached storage
// state, GetQueryableReplicas of every database, and -- through a one-row Write -- which databases have a write
// channel (with `--route`: over which shard count the rows of a batch are hashed, read off a capturing write client).

import (
	"context"
	"encoding/json"
	"flag"
	"fmt"
	"math/rand"
	"os"
	"sort"
	"strconv"
	"strings"
	"time"

	"github.com/lindb/common/pkg/ltoml"
	protoMetricsV1 "github.com/lindb/common/proto/gen/v1/linmetrics"

	"github.com/lindb/lindb/config"
	"github.com/lindb/lindb/constants"
	"github.com/lindb/lindb/coordinator/broker"
	"github.com/lindb/lindb/coordinator/discovery"
	"github.com/lindb/lindb/models"
	"github.com/lindb/lindb/pkg/option"
	"github.com/lindb/lindb/pkg/timeutil"
	"github.com/lindb/lindb/replica"
	"github.com/lindb/lindb/series/metric"

	"verif/harness/internal/trace"
)

func init() { register("brokerview", brokerViewMain) }

type bvConnMgr struct{}

func (bvConnMgr) Close() error                 { return nil }
func (bvConnMgr) CreateConnection(models.Node) {}
func (bvConnMgr) CloseConnection(models.Node)  {}

type bvRun struct {
	rec   *trace.Recorder
	mgr   broker.StateManager
	cm    replica.ChannelManager
	capt  *chanCapture
	ctx   context.Context
	nsent int
	sum   *trace.Summary
}

func bvStorageNode(id int) models.StatefulNode {
	return models.StatefulNode{ID: models.NodeID(id), StatelessNode: models.StatelessNode{HostIP: fmt.Sprintf("1.1.1.%d", id), GRPCPort: 2891}}
}

// barrier: a sentinel broker node is registered and removed; when it is gone every earlier event has been handled
func (r *bvRun) barrier() bool {
	r.nsent++
	name := fmt.Sprintf("sentinel-%d", r.nsent)
	node := models.StatelessNode{HostIP: "9.9.9.9", GRPCPort: uint16(10000 + r.nsent%20000)}
	data, _ := json.Marshal(&node)
	r.mgr.EmitEvent(&discovery.Event{Type: discovery.NodeStartup, Key: constants.GetLiveNodePath(name), Value: data})
	seen := func() bool {
		for _, n := range r.mgr.GetLiveNodes() {
			if n.HostIP == "9.9.9.9" {
				return true
			}
		}
		return false
	}
	deadline := time.Now().Add(10 * time.Second)
	for !seen() {
		if time.Now().After(deadline) {
			return false
		}
		time.Sleep(200 * time.Microsecond)
	}
	r.mgr.EmitEvent(&discovery.Event{Type: discovery.NodeFailure, Key: constants.GetLiveNodePath(name)})
	for seen() {
		if time.Now().After(deadline) {
			return false
		}
		time.Sleep(200 * time.Microsecond)
	}
	return true
}

func bvRows(n int) *metric.BrokerBatchRows {
	batch := metric.NewBrokerBatchRows()
	now := time.Now().UnixMilli()
	for i := 0; i < n; i++ {
		i := i
		_ = batch.TryAppend(func(row *metric.BrokerRow) error {
			conv := metric.NewProtoConverter(models.NewDefaultLimits())
			m := &protoMetricsV1.Metric{Namespace: "ns", Name: "cpu", Timestamp: now,
				Tags:         []*protoMetricsV1.KeyValue{{Key: "host", Value: "h" + strconv.Itoa(i)}},
				SimpleFields: []*protoMetricsV1.SimpleField{{Name: "f", Type: protoMetricsV1.SimpleFieldType_DELTA_SUM, Value: float64(i + 1)}}}
			return conv.ConvertTo(m, row)
		})
	}
	return batch
}

// proj: what the broker answers at a quiescent point
func (r *bvRun) proj(dbs []string, route bool) {
	known := []string{}
	for _, d := range r.mgr.GetDatabases() {
		known = append(known, d.Name)
	}
	sort.Strings(known)
	brokers := []string{}
	for _, n := range r.mgr.GetLiveNodes() {
		brokers = append(brokers, n.HostIP)
	}
	st := r.mgr.GetStorage()
	live := []int{}
	for id := range st.LiveNodes {
		live = append(live, int(id))
	}
	sort.Ints(live)
	shards := map[string]any{}
	for db, ss := range st.ShardStates {
		m := map[string]any{}
		for sid, s := range ss {
			name := "offline"
			if s.State == models.OnlineShard {
				name = "online"
			}
			m[strconv.Itoa(int(sid))] = trace.F{"state": name, "leader": int(s.Leader)}
		}
		shards[db] = m
	}
	query := map[string]any{}
	writable := map[string]any{}
	for _, db := range dbs {
		q, err := r.mgr.GetQueryableReplicas(db)
		switch {
		case err == constants.ErrDatabaseNotFound:
			query[db] = "nodb"
		case err == constants.ErrNoLiveNode:
			query[db] = "nolive"
		case err == constants.ErrShardNotFound:
			query[db] = "noshard"
		case err != nil:
			query[db] = "error:" + err.Error()
		default:
			m := map[string]any{}
			for ind, sids := range q {
				// indicator "1.1.1.<id>:2891" -> node id
				id := strings.TrimSuffix(strings.TrimPrefix(ind, "1.1.1."), ":2891")
				l := []int{}
				for _, s := range sids {
					l = append(l, int(s))
				}
				sort.Ints(l)
				m[id] = l
			}
			query[db] = m
		}
		// does a write channel exist?  (one row; "database [x] not found" is the answer of a broker without channel)
		err = r.cm.Write(r.ctx, db, bvRows(1))
		writable[db] = err == nil || !strings.Contains(err.Error(), "not found")
	}
	f := trace.F{"dbs": known, "brokers": brokers, "live": live, "shards": shards, "query": query, "writable": writable}
	r.rec.Emit("Proj", f)
}

// routeCount: over how many shards does the database channel hash a batch?  64 rows with distinct series are written,
// the capturing write client reports the shards that received a chunk (family channels flush on their timer)
func (r *bvRun) routeCount(db string) int {
	r.capt.mu.Lock()
	r.capt.sent = map[chanKey][][]byte{}
	r.capt.mu.Unlock()
	if err := r.cm.Write(r.ctx, db, bvRows(64)); err != nil {
		return -1
	}
	time.Sleep(2500 * time.Millisecond)
	r.capt.mu.Lock()
	defer r.capt.mu.Unlock()
	got := map[int]bool{}
	for k := range r.capt.sent {
		got[k.shard] = true
	}
	max := -1
	for s := range got {
		if s > max {
			max = s
		}
	}
	return max + 1
}

type bvState struct {
	Live   []int                      `json:"live"`
	Shards map[string]map[string]bvSh `json:"shards"`
}
type bvSh struct {
	State  string `json:"state"`
	Leader int    `json:"leader"`
}

func bvStorageState(live []int, cnt map[string]int, rng *rand.Rand) (*models.StorageState, trace.F) {
	st := models.NewStorageState()
	for _, id := range live {
		st.LiveNodes[models.NodeID(id)] = bvStorageNode(id)
	}
	shards := map[string]any{}
	for db, n := range cnt {
		m := map[models.ShardID]models.ShardState{}
		j := map[string]any{}
		for sid := 0; sid < n; sid++ {
			s := models.ShardState{ID: models.ShardID(sid), State: models.OfflineShard, Leader: -1, Replica: models.Replica{Replicas: []models.NodeID{1, 2, 3}}}
			name := "offline"
			if len(live) > 0 && (rng == nil || rng.Intn(5) != 0) {
				l := live[0]
				if rng != nil {
					l = live[rng.Intn(len(live))]
				}
				s.State, s.Leader, name = models.OnlineShard, models.NodeID(l), "online"
			}
			m[models.ShardID(sid)] = s
			j[strconv.Itoa(sid)] = trace.F{"state": name, "leader": int(s.Leader)}
		}
		st.ShardStates[db] = m
		shards[db] = j
	}
	return st, trace.F{"live": live, "shards": shards}
}

func bvHistory(rec *trace.Recorder, rng *rand.Rand, h, steps int, scripted []string, sum *trace.Summary) {
	bc := config.NewDefaultBrokerBase()
	bc.Write.BatchTimeout = ltoml.Duration(time.Millisecond)
	config.SetGlobalBrokerConfig(bc)
	ctx, cancel := context.WithCancel(context.Background())
	defer cancel()
	capt := &chanCapture{sent: map[chanKey][][]byte{}}
	mgr := broker.NewStateManager(ctx, models.StatelessNode{HostIP: "8.8.8.8", GRPCPort: 1}, bvConnMgr{}, nil)
	cm := replica.NewChannelManager(ctx, capFct{capt}, mgr)
	defer cm.Close()
	defer mgr.Close()
	run := &bvRun{rec: rec, mgr: mgr, cm: cm, capt: capt, ctx: ctx, sum: sum}
	dbs := []string{"d1", "d2"}
	rec.Reset(trace.F{"mode": "brokerview", "h": h, "scripted": scripted != nil})
	var pendD, pendN, pendS []*discovery.Event
	dbOpt := &option.DatabaseOption{Intervals: option.Intervals{{Interval: timeutil.Interval(10000), Retention: timeutil.Interval(10000 * 100000)}}, Behind: "1h", Ahead: "1h"}
	route := false
	do := func(word string) bool {
		f := strings.Split(word, ":")
		switch f[0] {
		case "putdb":
			cfg := models.Database{Name: f[1], NumOfShard: 2, ReplicaFactor: 1, Option: dbOpt}
			data, _ := json.Marshal(&cfg)
			pendD = append(pendD, &discovery.Event{Type: discovery.DatabaseConfigChanged, Key: constants.GetDatabaseConfigPath(f[1]), Value: data})
			rec.Emit("PutDb", trace.F{"db": f[1]})
		case "dropdb":
			pendD = append(pendD, &discovery.Event{Type: discovery.DatabaseConfigDeletion, Key: constants.GetDatabaseConfigPath(f[1])})
			rec.Emit("DropDb", trace.F{"db": f[1]})
		case "brokerup", "brokerdown":
			b, _ := strconv.Atoi(f[1])
			key := constants.GetLiveNodePath(fmt.Sprintf("2.2.2.%d:9000", b))
			if f[0] == "brokerup" {
				node := models.StatelessNode{HostIP: fmt.Sprintf("2.2.2.%d", b), GRPCPort: 9000}
				data, _ := json.Marshal(&node)
				pendN = append(pendN, &discovery.Event{Type: discovery.NodeStartup, Key: key, Value: data})
				rec.Emit("BrokerUp", trace.F{"b": b})
			} else {
				pendN = append(pendN, &discovery.Event{Type: discovery.NodeFailure, Key: key})
				rec.Emit("BrokerDown", trace.F{"b": b})
			}
		case "publish":
			// publish:<live nodes, e.g. 12 or ->:<d1 shard count>:<d2 shard count>   (0 = the database is not listed)
			live := []int{}
			for _, c := range f[1] {
				if c >= '1' && c <= '9' {
					live = append(live, int(c-'0'))
				}
			}
			cnt := map[string]int{}
			for i, db := range dbs {
				if n, _ := strconv.Atoi(f[2+i]); n > 0 {
					cnt[db] = n
				}
			}
			var srng *rand.Rand
			if scripted == nil {
				srng = rng
			}
			st, j := bvStorageState(live, cnt, srng)
			data, _ := json.Marshal(st)
			pendS = append(pendS, &discovery.Event{Type: discovery.StorageStateChanged, Key: constants.StorageStatePath, Value: data})
			rec.Emit("Publish", j)
		case "proc":
			var q *[]*discovery.Event
			switch f[1] {
			case "D":
				q = &pendD
			case "N":
				q = &pendN
			default:
				q = &pendS
			}
			if len(*q) == 0 {
				sum.Unresolved = append(sum.Unresolved, fmt.Sprintf("history %d: %s without a pending event", h, word))
				return false
			}
			e := (*q)[0]
			*q = (*q)[1:]
			mgr.EmitEvent(e)
			if !run.barrier() {
				sum.Unresolved = append(sum.Unresolved, fmt.Sprintf("history %d: the state manager did not handle %s within 10s", h, word))
				return false
			}
			rec.Emit("Proc", trace.F{"w": f[1]})
		case "route":
			route = true
			n := run.routeCount(f[1])
			rec.Emit("Route", trace.F{"db": f[1], "count": n})
			return true
		default:
			sum.Unresolved = append(sum.Unresolved, "unknown step "+word)
			return false
		}
		run.proj(dbs, route)
		return true
	}
	if scripted != nil {
		for _, w := range scripted {
			if !do(w) {
				return
			}
		}
		return
	}
	lives := []string{"-", "1", "2", "12", "123"}
	for i := 0; i < steps; i++ {
		var w string
		c := rng.Intn(100)
		npend := len(pendD) + len(pendN) + len(pendS)
		switch {
		case npend > 0 && c < 45:
			var opts []string
			if len(pendD) > 0 {
				opts = append(opts, "D")
			}
			if len(pendN) > 0 {
				opts = append(opts, "N")
			}
			if len(pendS) > 0 {
				opts = append(opts, "S")
			}
			w = "proc:" + opts[rng.Intn(len(opts))]
		case c < 60:
			w = "putdb:" + dbs[rng.Intn(2)]
		case c < 66:
			w = "dropdb:" + dbs[rng.Intn(2)]
		case c < 74:
			w = []string{"brokerup:", "brokerdown:"}[rng.Intn(2)] + strconv.Itoa(1+rng.Intn(2))
		default:
			w = fmt.Sprintf("publish:%s:%d:%d", lives[rng.Intn(len(lives))], rng.Intn(4), rng.Intn(4))
		}
		if !do(w) {
			return
		}
	}
	for len(pendD)+len(pendN)+len(pendS) > 0 {
		w := "proc:S"
		if len(pendD) > 0 {
			w = "proc:D"
		} else if len(pendN) > 0 {
			w = "proc:N"
		}
		if !do(w) {
			return
		}
	}
}

func brokerViewMain(args []string) int {
	fs := flag.NewFlagSet("brokerview", flag.ExitOnError)
	out := fs.String("out", "brokerview.ndjson", "trace output")
	seed := fs.Int64("seed", 1, "seed")
	nh := fs.Int("histories", 40, "random histories")
	steps := fs.Int("steps", 40, "steps per history")
	probes := fs.Bool("probes", true, "the scripted histories (state before config, growth, drop)")
	scripts := fs.String("scripts", "", "leg R: JSON file with behaviours generated by TLC from BrokerViewGen (list of lists of steps)")
	_ = fs.Parse(args)
	rec, err := trace.New(*out)
	if err != nil {
		fmt.Println(err)
		return 2
	}
	rng := rand.New(rand.NewSource(*seed))
	sum := &trace.Summary{Module: "BrokerView", Extra: map[string]any{}}
	h := 0
	if *probes {
		scripts := [][]string{
			// the config event first: the database is writable as soon as the state is handled
			{"putdb:d1", "publish:12:2:0", "proc:D", "proc:S", "route:d1"},
			// the state event overtakes the config event of a new database
			{"putdb:d1", "publish:12:2:0", "proc:S", "proc:D", "publish:12:2:0", "proc:S"},
			// ... next to a database that is known: is it still notified?
			{"putdb:d1", "proc:D", "putdb:d2", "publish:1:2:2", "proc:S", "proc:D", "publish:1:2:2", "proc:S"},
			// growth of the shard count: over how many shards are rows hashed afterwards?
			{"putdb:d1", "proc:D", "publish:12:2:0", "proc:S", "route:d1", "publish:12:3:0", "proc:S", "route:d1"},
			// a dropped database
			{"putdb:d1", "proc:D", "publish:1:1:0", "proc:S", "dropdb:d1", "proc:D", "publish:1:0:0", "proc:S"},
		}
		for _, sc := range scripts {
			bvHistory(rec, rng, h, 0, sc, sum)
			h++
		}
	}
	for i := 0; i < *nh; i++ {
		bvHistory(rec, rand.New(rand.NewSource(rng.Int63())), h, *steps, nil, sum)
		h++
	}
	if *scripts != "" {
		var gen [][]string
		b, err := os.ReadFile(*scripts)
		if err == nil {
			err = json.Unmarshal(b, &gen)
		}
		if err != nil {
			fmt.Println("scripts:", err)
			return 2
		}
		for _, sc := range gen {
			bvHistory(rec, rng, 10000+h, 0, sc, sum)
			h++
		}
	}
	_ = rec.Close()
	sum.Traces, sum.Events = rec.Counts()
	sum.Distinct = sum.Traces
	sum.Print()
	return 0
}
