----------------------------- MODULE MetricData -----------------------------
(***************************************************************************)
(* Metric blocks of lindb's data files and their compaction / rollup       *)
(* (tsdb/tblstore/metricsdata/merger.go, series_merger.go, flusher.go,     *)
(* reader.go, aggregation/down_sampling_agg.go, kv/compact_job.go) --      *)
(* properties C03 and C04.                                                 *)
(*                                                                         *)
(* A block is a set of cells [s (series), f (field id), slot, v (value)],  *)
(* at most one cell per (s, f, slot), with a field-type map.  Values are   *)
(* integers (the harness writes integral float64 values, so aggregation is *)
(* exact).  A file is a set of (metric, block) pairs; a family's content   *)
(* for a metric is the sequence of its blocks in file order.               *)
(*                                                                         *)
(* Merged(blocks, types) is the REFERENCE: cell-wise fold over all inputs. *)
(* Compaction must produce exactly that (for first/last: one of the        *)
(* contributed values), and must do so again when its output is compacted  *)
(* with further files (TLC checks the algebra: Merged is associative and   *)
(* insensitive to how inputs are grouped into files).                      *)
(***************************************************************************)
EXTENDS Integers, Sequences, FiniteSets, TLC, FiniteSetsExt, Functions

Key(c) == <<c.s, c.f, c.slot>>
Keys(b) == {Key(c) : c \in b}
WellFormed(b) == \A c, d \in b : Key(c) = Key(d) => c = d
ValuesAt(blocks, k) == {c.v : c \in {d \in UNION {blocks[i] : i \in 1..Len(blocks)} : Key(d) = k}}

SetMin(S) == CHOOSE x \in S : \A y \in S : x <= y
SetMax(S) == CHOOSE x \in S : \A y \in S : x >= y

\* multiset sum: the same value may be contributed by several blocks
CellsAt(blocks, k) == [i \in {j \in 1..Len(blocks) : \E c \in blocks[j] : Key(c) = k} |->
                          (CHOOSE c \in blocks[i] : Key(c) = k).v]
FnSum(f) == FoldFunction(LAMBDA x, acc : x + acc, 0, f)

\* types: [field id -> "sum" | "min" | "max" | "first" | "last" | "histogram"]
\* exact aggregate for sum / min / max / histogram, -1 = "any contributed value" for first / last
Exact(types, f) == types[f] \in {"sum", "min", "max", "histogram"}
Agg(types, blocks, k) ==
  LET vals == CellsAt(blocks, k)  t == types[k[2]] IN
  CASE t \in {"sum", "histogram"} -> FnSum(vals)
    [] t = "min" -> SetMin({vals[i] : i \in DOMAIN vals})
    [] t = "max" -> SetMax({vals[i] : i \in DOMAIN vals})
    [] OTHER -> -1

AllKeys(blocks) == UNION {Keys(blocks[i]) : i \in 1..Len(blocks)}

\* what a reader must observe after compacting `blocks` (a sequence of blocks of one metric) into `out`
CompactionOK(blocks, types, out) ==
  /\ WellFormed(out)
  /\ Keys(out) = AllKeys(blocks)                          \* no series / field / slot appears or disappears
  /\ \A c \in out :
       IF Exact(types, c.f) THEN c.v = Agg(types, blocks, Key(c))
                            ELSE c.v \in ValuesAt(blocks, Key(c))

\* the reference merge itself (first/last: the value of the last / first block that has the cell)
RefMerge(blocks, types) ==
  {[s |-> k[1], f |-> k[2], slot |-> k[3],
    v |-> IF Exact(types, k[2]) THEN Agg(types, blocks, k)
          ELSE LET idx == {i \in 1..Len(blocks) : \E c \in blocks[i] : Key(c) = k}
                   pick == IF types[k[2]] = "last" THEN SetMax(idx) ELSE SetMin(idx)
               IN (CHOOSE c \in blocks[pick] : Key(c) = k).v] : k \in AllKeys(blocks)}

\* ---- rollup (C04): source cells of one source family are folded into the target slots
\* target slot of source slot s = base + s \div ratio  (base = target slot of the source family start)
RollupKey(c, base, ratio) == <<c.s, c.f, base + (c.slot \div ratio)>>
RollupSources(blocks, k, base, ratio) ==
  {c \in UNION {blocks[i] : i \in 1..Len(blocks)} : RollupKey(c, base, ratio) = k}
RollupKeys(blocks, base, ratio) == {RollupKey(c, base, ratio) : c \in UNION {blocks[i] : i \in 1..Len(blocks)}}
BlockSum(b, k, base, ratio) ==
  FoldSet(LAMBDA c, acc : c.v + acc, 0, {c \in b : RollupKey(c, base, ratio) = k})
RollupAgg(types, blocks, k, base, ratio) ==
  LET src == RollupSources(blocks, k, base, ratio)  t == types[k[2]] IN
  CASE t \in {"sum", "histogram"} -> FnSum([i \in 1..Len(blocks) |-> BlockSum(blocks[i], k, base, ratio)])
    [] t = "min" -> SetMin({c.v : c \in src})
    [] t = "max" -> SetMax({c.v : c \in src})
    [] OTHER -> -1

\* what the target family must hold after the source blocks were rolled up (exactly once)
RollupOK(blocks, types, base, ratio, out) ==
  /\ WellFormed(out)
  /\ Keys(out) = RollupKeys(blocks, base, ratio)
  /\ \A c \in out :
       IF Exact(types, c.f) THEN c.v = RollupAgg(types, blocks, Key(c), base, ratio)
                            ELSE c.v \in {d.v : d \in RollupSources(blocks, Key(c), base, ratio)}

\* the same with a memory of what the source files held EARLIER in the history (hist: pairs <<target key, value>>): a
\* compaction of the source family between two rollups merges two files that both hold a slot of a last / first field into
\* one value; the target may hold the other one, contributed by a file that no longer exists -- still "any contributed value"
RollupOKHist(blocks, types, base, ratio, out, hist) ==
  /\ WellFormed(out)
  /\ Keys(out) = RollupKeys(blocks, base, ratio)
  /\ \A c \in out :
       IF Exact(types, c.f) THEN c.v = RollupAgg(types, blocks, Key(c), base, ratio)
                            ELSE c.v \in ({d.v : d \in RollupSources(blocks, Key(c), base, ratio)}
                                          \cup {p[2] : p \in {q \in hist : q[1] = Key(c)}})
RollupPairs(blocks, base, ratio) == {<<RollupKey(c, base, ratio), c.v>> : c \in UNION {blocks[i] : i \in 1..Len(blocks)}}

\* ---- several source families into ONE target family (C04): all hours of all days of a month roll up into the month
\* family of the 1h target, all hours of a day into the day family of the 5min target.  Every source family has its
\* own base slot; with its slots moved to base * ratio + slot (the slot on the source-interval axis of the target
\* family) the whole lot is one rollup with base 0: (base * ratio + s) \div ratio = base + s \div ratio.
\* srcs: sequence of [base, blocks (sequence of blocks of that source family, one per source file)]
ShiftBlock(b, off) == {[s |-> c.s, f |-> c.f, slot |-> off + c.slot, v |-> c.v] : c \in b}
RECURSIVE ShiftedFrom(_, _, _)
ShiftedFrom(srcs, ratio, j) ==
  IF j > Len(srcs) THEN << >>
  ELSE [i \in 1..Len(srcs[j].blocks) |-> ShiftBlock(srcs[j].blocks[i], srcs[j].base * ratio)] \o ShiftedFrom(srcs, ratio, j + 1)
ShiftedSources(srcs, ratio) == ShiftedFrom(srcs, ratio, 1)
\* what the target family must hold after all those source files were rolled up (each exactly once), in any number
\* of rollup passes
MultiRollupOK(srcs, types, ratio, out) == RollupOK(ShiftedSources(srcs, ratio), types, 0, ratio, out)
\* the reference rollup of one source family (first/last: any contributed value)
RefRollup(blocks, types, base, ratio) ==
  {[s |-> k[1], f |-> k[2], slot |-> k[3],
    v |-> IF Exact(types, k[2]) THEN RollupAgg(types, blocks, k, base, ratio)
          ELSE (CHOOSE c \in RollupSources(blocks, k, base, ratio) : TRUE).v] : k \in RollupKeys(blocks, base, ratio)}
=============================================================================
