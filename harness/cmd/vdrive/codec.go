package main

// vdrive codec: C14 -- storage codecs are lossless.
//
// Seeded reuse histories of the real encoder / decoder objects of pkg/encoding (time-series
// blocks with the XOR value codec over pkg/bit, the multi-field stream, delta bit packing,
// fixed-width offsets, bitmaps), pkg/compress (snappy chunk) and pkg/stream.  The driver
// only feeds inputs and writes down what the real code answers; bit patterns and byte strings
// are interned to small integers (equal bits <=> equal id, an answer never seen before gets a
// fresh id).  Whether an answer is right is decided by TLC against spec/Codec.tla.

import (
	"bytes"
	"flag"
	"fmt"
	"math"
	"math/rand"
	"sort"

	"github.com/lindb/roaring"

	"github.com/lindb/lindb/pkg/bit"
	"github.com/lindb/lindb/pkg/bufioutil"
	"github.com/lindb/lindb/pkg/compress"
	"github.com/lindb/lindb/pkg/encoding"
	"github.com/lindb/lindb/pkg/stream"

	"verif/harness/internal/trace"
)

func init() { register("codec", codecMain) }

const infBits = 0x7FF0000000000000

var codecSpecials = []uint64{
	0, 0x8000000000000000, 1, 0x000FFFFFFFFFFFFF, 0x0010000000000000, 0x7FEFFFFFFFFFFFFF,
	infBits, 0xFFF0000000000000, 0x7FF8000000000000, 0x7FF0000000000001, 0xFFFFFFFFFFFFFFFF,
	0x7FF8DEADBEEF0001, 0xFFF8000000000001, 0x3FF0000000000000, 0xBFF0000000000000,
	0x4000000000000000, 0x3FB999999999999A, 0x8000000000000001, 0x0000000100000000,
	0x00000000FFFFFFFF, 0xFFFFFFFF00000000, 0x5555555555555555, 0xAAAAAAAAAAAAAAAA,
	0x7FFFFFFFFFFFFFFF, 0x4340000000000000,
}

type codecBlk struct {
	id    int
	data  []byte
	hdr   bool
	start int
	n     int
}

type codecEnc struct {
	e     *encoding.TSDEncoder
	id    int
	start int
	n     int
	done  bool
}

type codecDec struct {
	d   *encoding.TSDDecoder
	id  int
	blk *codecBlk
	lo  int
	cur int
}

type codecRun struct {
	rec     *trace.Recorder
	rng     *rand.Rand
	sum     *trace.Summary
	toks    map[uint64]int
	bids    map[string]int
	oids    map[any]int
	encs    []*codecEnc
	decs    []*codecDec
	blocks  []*codecBlk
	maxslot bool
	script  []string
	// long-lived objects reused across histories
	dbpEnc  *encoding.DeltaBitPackingEncoder
	dbpDec  *encoding.DeltaBitPackingDecoder
	foEnc   *encoding.FixedOffsetEncoder
	foDec   *encoding.FixedOffsetDecoder
	foBlks  []codecFo
	snapW   compress.Writer
	snapR   compress.Reader
	bm      *roaring.Bitmap
	xorBuf  bytes.Buffer
	xorBW   *bit.Writer
	xorEnc  *encoding.XOREncoder
	xorRBuf *bufioutil.Buffer
	xorBR   *bit.Reader
	xorDec  *encoding.XORDecoder
	sr      *stream.Reader
	counts  map[string]int
	snapHeld  []byte
	snapHeldB int
	snapHeldW compress.Writer
}

type codecFo struct {
	id   int
	data []byte
	vals []int
}

func (r *codecRun) tok(bits uint64) int {
	if id, ok := r.toks[bits]; ok {
		return id
	}
	id := len(r.toks)
	r.toks[bits] = id
	return id
}

func (r *codecRun) bid(ns string, data []byte) int {
	k := ns + "\x00" + string(data)
	if id, ok := r.bids[k]; ok {
		return id
	}
	id := len(r.bids) + 1
	r.bids[k] = id
	return id
}

func (r *codecRun) oid(p any) int {
	if id, ok := r.oids[p]; ok {
		return id
	}
	id := len(r.oids) + 1
	r.oids[p] = id
	return id
}

func (r *codecRun) emit(ev string, f trace.F) {
	r.counts[ev]++
	if r.counts[ev] == 3 && len(r.sum.Samples) < 6 && (ev == "DecSeq" || ev == "DecProbe" || ev == "FoDec" || ev == "BatDec") {
		g := trace.F{"ev": ev}
		for k, v := range f {
			g[k] = v
		}
		r.sum.Samples = append(r.sum.Samples, g)
	}
	r.rec.Emit(ev, f)
}

func ints(n int) []int { return make([]int, 0, n) }

func cp(b []byte) []byte { return append([]byte{}, b...) }

// ---------------------------------------------------------------- generators

func (r *codecRun) randBits() uint64 {
	switch r.rng.Intn(4) {
	case 0:
		return codecSpecials[r.rng.Intn(len(codecSpecials))]
	case 1:
		return math.Float64bits(float64(r.rng.Intn(2000)-1000) / 8)
	case 2:
		return math.Float64bits(r.rng.NormFloat64() * math.Pow(10, float64(r.rng.Intn(40)-20)))
	default:
		return r.rng.Uint64()
	}
}

func (r *codecRun) window() uint64 {
	t := r.rng.Intn(64)
	w := 1 + r.rng.Intn(64-t)
	var m uint64
	if w == 64 {
		m = ^uint64(0)
	} else {
		m = (uint64(1) << uint(w)) - 1
	}
	x := r.rng.Uint64() & m
	if x == 0 {
		x = 1
	}
	return x << uint(t)
}

// genVals: k bit patterns; the classes aim at the XOR codec's cases (same value, delta inside /
// outside the previous leading+trailing window, full-width deltas) and at every IEEE-754 class.
func (r *codecRun) genVals(k int) []uint64 {
	out := make([]uint64, k)
	mode := r.rng.Intn(10)
	prev := r.randBits()
	base := float64(r.rng.Intn(100000)) / 10
	step := float64(1+r.rng.Intn(50)) / 10
	for i := range out {
		var v uint64
		m := mode
		if m == 9 {
			m = r.rng.Intn(9)
		}
		switch m {
		case 0:
			v = prev
		case 1:
			v = math.Float64bits(math.Floor(base) + float64(i))
		case 2:
			v = math.Float64bits(base + float64(i)*step)
		case 3:
			v = r.rng.Uint64()
		case 4:
			v = codecSpecials[r.rng.Intn(len(codecSpecials))]
		case 5:
			v = prev ^ (uint64(1) << uint(r.rng.Intn(64)))
		case 6:
			v = prev ^ r.window()
		case 7:
			if i%2 == 0 {
				v = prev ^ 0x8000000000000000
			} else {
				v = prev
			}
		default:
			// shrinking windows: the delta keeps fewer and fewer meaningful bits
			sh := uint(i % 30)
			v = prev ^ ((uint64(0x00FFFFFFFFFFFF00) >> sh) << sh >> sh)
		}
		out[i] = v
		prev = v
	}
	return out
}

func (r *codecRun) genMarks(n int) []int {
	m := make([]int, n)
	switch r.rng.Intn(9) {
	case 0: // dense
		for i := range m {
			m[i] = 1
		}
	case 1: // sparse
		for i := range m {
			if r.rng.Intn(8) == 0 {
				m[i] = 1
			}
		}
	case 2:
		for i := range m {
			m[i] = r.rng.Intn(2)
		}
	case 3: // leading gap
		g := r.rng.Intn(n + 1)
		for i := g; i < n; i++ {
			m[i] = 1
		}
	case 4: // trailing gap
		g := r.rng.Intn(n + 1)
		for i := 0; i < g; i++ {
			m[i] = 1
		}
	case 5:
		m[0] = 1
	case 6:
		m[n-1] = 1
	case 7: // empty slots only
	default:
		for i := range m {
			m[i] = i % 2
		}
	}
	return m
}

func (r *codecRun) genLen() int {
	switch r.rng.Intn(10) {
	case 0:
		return 1
	case 1:
		return 2 + r.rng.Intn(3)
	case 2:
		return 100 + r.rng.Intn(260)
	case 3:
		return 7 + r.rng.Intn(3) // around one byte of slot bits
	default:
		return 1 + r.rng.Intn(48)
	}
}

func (r *codecRun) genStart(room int) int {
	if r.maxslot {
		return 65535 - room + 1
	}
	switch r.rng.Intn(6) {
	case 0:
		return 0
	case 1:
		return r.rng.Intn(10)
	case 2:
		return 65534 - room + 1 - r.rng.Intn(3)
	case 3:
		return 255 + r.rng.Intn(3)
	default:
		return r.rng.Intn(4000)
	}
}

// ---------------------------------------------------------------- time-series blocks

const codecRoom = 700 // slots an encoder may take after its start

func (r *codecRun) encGet() {
	start := r.genStart(codecRoom)
	var e *encoding.TSDEncoder
	switch r.rng.Intn(4) {
	case 0:
		e = encoding.NewTSDEncoder(uint16(start))
	default:
		e = encoding.GetTSDEncoder(uint16(start))
	}
	st := &codecEnc{e: e, id: r.oid(e), start: start}
	r.encs = append(r.encs, st)
	r.emit("EncGet", trace.F{"o": st.id, "start": start})
}

func (r *codecRun) encReset(st *codecEnc) {
	start := r.genStart(codecRoom)
	st.e.RestWithStartTime(uint16(start))
	st.start, st.n, st.done = start, 0, false
	r.emit("EncReset", trace.F{"o": st.id, "start": start})
}

func (r *codecRun) encAppendN(st *codecEnc, n int) {
	if st.n+n > codecRoom {
		n = codecRoom - st.n
	}
	if n <= 0 {
		return
	}
	marks := r.genMarks(n)
	k := 0
	for _, m := range marks {
		k += m
	}
	vals := r.genVals(k)
	if r.rng.Intn(4) == 0 {
		// EmitDownSamplingValue: +Inf means "no value"
		xs := ints(n)
		j := 0
		for _, m := range marks {
			if m == 1 {
				v := vals[j]
				j++
				st.e.EmitDownSamplingValue(0, math.Float64frombits(v))
				xs = append(xs, r.tok(v))
			} else {
				st.e.EmitDownSamplingValue(0, math.Inf(1))
				xs = append(xs, r.tok(infBits))
			}
		}
		st.n += n
		r.emit("EncEmit", trace.F{"o": st.id, "xs": xs})
		return
	}
	vt := ints(k)
	j := 0
	for _, m := range marks {
		if m == 1 {
			st.e.AppendTime(bit.One)
			st.e.AppendValue(vals[j])
			vt = append(vt, r.tok(vals[j]))
			j++
		} else {
			st.e.AppendTime(bit.Zero)
		}
	}
	st.n += n
	r.emit("EncAppend", trace.F{"o": st.id, "marks": marks, "vals": vt})
}

func (r *codecRun) encBytes(st *codecEnc, hdr bool) *codecBlk {
	var data []byte
	var err error
	if hdr {
		data, err = st.e.Bytes()
	} else {
		data, err = st.e.BytesWithoutTime()
	}
	if err != nil {
		r.sum.Unresolved = append(r.sum.Unresolved, "encoder error: "+err.Error())
	}
	st.done = true
	ns := "tsd"
	if !hdr {
		// a header-less block does not say how many slots it has (the reader is told the range):
		// what its bytes stand for is only defined together with the slot count
		ns = fmt.Sprintf("tsdnohdr%d", st.n)
	}
	data = cp(data)
	b := &codecBlk{id: r.bid(ns, data), data: data, hdr: hdr, start: st.start, n: st.n}
	r.emit("EncBytes", trace.F{"o": st.id, "hdr": hdr, "b": b.id, "isnil": len(data) == 0})
	if st.n > 0 {
		r.blocks = append(r.blocks, b)
		return b
	}
	return nil
}

func (r *codecRun) encRelease(i int) {
	st := r.encs[i]
	encoding.ReleaseTSDEncoder(st.e)
	r.encs = append(r.encs[:i], r.encs[i+1:]...)
	r.emit("EncRelease", trace.F{"o": st.id})
}

func (r *codecRun) decGet() *codecDec {
	var d *encoding.TSDDecoder
	if r.rng.Intn(4) == 0 {
		d = encoding.NewTSDDecoder(nil)
	} else {
		d = encoding.GetTSDDecoder()
	}
	st := &codecDec{d: d, id: r.oid(d)}
	r.decs = append(r.decs, st)
	r.emit("DecGet", trace.F{"o": st.id})
	return st
}

func (r *codecRun) decLoad(st *codecDec, b *codecBlk) {
	lo := b.start
	if b.hdr {
		st.d.Reset(b.data)
	} else {
		if r.rng.Intn(3) == 0 {
			lo = r.genStart(b.n)
		}
		st.d.ResetWithTimeRange(b.data, uint16(lo), uint16(lo+b.n-1))
	}
	st.blk, st.lo, st.cur = b, lo, 0
	f := trace.F{"o": st.id, "b": b.id, "lo": lo, "hi": lo + b.n - 1,
		"st": int(st.d.StartTime()), "en": int(st.d.EndTime())}
	if b.hdr {
		// the header alone: DecodeTSDTime must agree with the decoder
		s, e := encoding.DecodeTSDTime(b.data)
		if int(s) != f["st"].(int) || int(e) != f["en"].(int) {
			f["st"], f["en"] = -1, -1
		}
	}
	r.emit("DecLoad", f)
}

func (r *codecRun) decSeq(st *codecDec, cnt int) {
	marks, vals := ints(cnt), ints(cnt)
	ended := false
	for i := 0; i < cnt; i++ {
		if !st.d.Next() {
			ended = true
			break
		}
		if st.d.HasValue() {
			marks = append(marks, 1)
			vals = append(vals, r.tok(st.d.Value()))
		} else {
			marks = append(marks, 0)
		}
	}
	st.cur += len(marks)
	last := -1
	if len(marks) > 0 {
		last = int(st.d.Slot())
	}
	r.emit("DecSeq", trace.F{"o": st.id, "cnt": cnt, "marks": marks, "vals": vals, "ended": ended,
		"err": st.d.Error() != nil, "last": last})
}

func (r *codecRun) decProbe(st *codecDec) {
	next := st.lo + st.cur
	hi := st.lo + st.blk.n - 1
	k := 1 + r.rng.Intn(40)
	if r.rng.Intn(5) == 0 {
		k = st.blk.n + 3
	}
	slots := ints(k)
	s := next
	switch r.rng.Intn(6) {
	case 0: // from below the next slot
		s = next - 1 - r.rng.Intn(3)
	case 1: // jump ahead: every later read must say "no value"
		s = next + 1 + r.rng.Intn(3)
	}
	for i := 0; i < k; i++ {
		if s >= 0 && s <= 65535 {
			slots = append(slots, s)
		}
		switch r.rng.Intn(20) {
		case 0: // same slot again
		case 1:
			s += 2
		default:
			s++
		}
		if s > hi+3 {
			break
		}
	}
	oks, vals := ints(len(slots)), ints(len(slots))
	for _, s := range slots {
		var ok bool
		var v uint64
		if r.rng.Intn(2) == 0 {
			var f float64
			f, ok = st.d.GetValue(uint16(s))
			v = math.Float64bits(f)
		} else {
			ok = st.d.HasValueWithSlot(uint16(s))
			if ok {
				v = st.d.Value()
			}
		}
		if ok {
			oks = append(oks, 1)
			vals = append(vals, r.tok(v))
		} else {
			oks = append(oks, 0)
		}
		// cursor as the code moves it (only to choose later inputs)
		if s == st.lo+st.cur && s <= hi {
			st.cur++
		}
	}
	r.emit("DecProbe", trace.F{"o": st.id, "slots": slots, "oks": oks, "vals": vals})
}

func (r *codecRun) decRelease(i int) {
	st := r.decs[i]
	encoding.ReleaseTSDDecoder(st.d)
	r.decs = append(r.decs[:i], r.decs[i+1:]...)
	r.emit("DecRelease", trace.F{"o": st.id})
}

// decodeAll reads the rest of a loaded block with a random mix of the two read paths
func (r *codecRun) decodeAll(st *codecDec) {
	for guard := 0; st.cur < st.blk.n && guard < 50; guard++ {
		if r.rng.Intn(3) == 0 {
			r.decProbe(st)
		} else {
			r.decSeq(st, 1+r.rng.Intn(st.blk.n-st.cur+2))
		}
		if r.maxslot {
			return
		}
	}
	r.decSeq(st, 1+r.rng.Intn(2))
}

// multi-field stream: every field through the one pooled decoder of the reader
func (r *codecRun) streamOp() {
	n := r.genLen()
	if n > 60 {
		n = 60
	}
	lo := r.genStart(n)
	nf := 1 + r.rng.Intn(4)
	fids, fbs := ints(nf), ints(nf)
	var datas [][]byte
	var blks []*codecBlk
	for f := 0; f < nf; f++ {
		e := encoding.GetTSDEncoder(uint16(lo))
		st := &codecEnc{e: e, id: r.oid(e), start: lo}
		r.encs = append(r.encs, st)
		r.emit("EncGet", trace.F{"o": st.id, "start": lo})
		for st.n < n {
			r.encAppendN(st, n-st.n)
		}
		b := r.encBytes(st, false)
		r.encRelease(len(r.encs) - 1)
		fids = append(fids, r.rng.Intn(65536))
		fbs = append(fbs, b.id)
		datas = append(datas, b.data)
		blks = append(blks, b)
	}
	w := encoding.NewTSDStreamWriter(uint16(lo), uint16(lo+n-1))
	for i := range datas {
		w.WriteField(uint16(fids[i]), datas[i])
	}
	sb, err := w.Bytes()
	if err != nil {
		r.sum.Unresolved = append(r.sum.Unresolved, "stream writer: "+err.Error())
		return
	}
	sb = cp(sb)
	sid := r.bid("strm", sb)
	r.emit("StreamBytes", trace.F{"s": sid, "lo": lo, "hi": lo + n - 1, "fids": fids, "fbs": fbs})
	rd := encoding.NewTSDStreamReader(sb)
	st0, en0 := rd.TimeRange()
	var ds *codecDec
	for i := 1; ; i++ {
		if !rd.HasNext() {
			if ds != nil {
				r.emit("StreamNext", trace.F{"s": sid, "o": ds.id, "i": i, "has": false, "fid": 0})
			}
			break
		}
		fid, d := rd.Next()
		if ds == nil {
			ds = &codecDec{d: d, id: r.oid(d)}
			r.emit("StreamOpen", trace.F{"s": sid, "o": ds.id, "st": int(st0), "en": int(en0)})
		}
		ds.d = d
		r.emit("StreamNext", trace.F{"s": sid, "o": r.oid(d), "i": i, "has": true, "fid": int(fid)})
		if i > len(blks) {
			break
		}
		ds.blk, ds.lo, ds.cur = blks[i-1], lo, 0
		if r.rng.Intn(4) != 0 {
			r.decodeAll(ds)
		} else if r.rng.Intn(2) == 0 {
			r.decSeq(ds, 1+r.rng.Intn(n)) // leave the field half read
		}
	}
	rd.Close()
	if ds != nil {
		r.emit("DecRelease", trace.F{"o": ds.id})
	}
}

// ---------------------------------------------------------------- batch codecs

func (r *codecRun) genInt32s() []int32 {
	n := r.rng.Intn(40)
	switch r.rng.Intn(8) {
	case 0:
		n = 0
	case 1:
		n = 1
	case 2:
		n = 200 + r.rng.Intn(200)
	}
	out := make([]int32, n)
	mode := r.rng.Intn(8)
	v := int32(r.rng.Intn(1000))
	for i := range out {
		switch mode {
		case 0: // ascending small steps
			v += int32(r.rng.Intn(10))
		case 1: // constant: width 0
		case 2:
			v = int32(r.rng.Uint32())
		case 3:
			if i%2 == 0 {
				v = math.MinInt32
			} else {
				v = math.MaxInt32
			}
		case 4:
			v -= int32(r.rng.Intn(300))
		case 5: // constant step: all deltas equal
			v += 17
		case 6: // one outlier among small deltas, widths 1..31
			v += int32(r.rng.Intn(3))
			if r.rng.Intn(10) == 0 {
				v += int32(1) << uint(r.rng.Intn(31))
			}
		default:
			v = int32(r.rng.Intn(65536)) - 32768
		}
		out[i] = v
	}
	return out
}

func (r *codecRun) dbpOp() {
	in := r.genInt32s()
	var e *encoding.DeltaBitPackingEncoder
	if r.rng.Intn(3) == 0 {
		e = encoding.NewDeltaBitPackingEncoder()
	} else {
		e = r.dbpEnc
		e.Reset()
	}
	ii := ints(len(in))
	for _, v := range in {
		e.Add(v)
		ii = append(ii, int(v))
	}
	data := cp(e.Bytes())
	b := r.bid("dbp", data)
	r.emit("BatEnc", trace.F{"codec": "dbp", "in": ii, "b": b})
	var d *encoding.DeltaBitPackingDecoder
	if r.dbpDec == nil || r.rng.Intn(3) == 0 {
		d = encoding.NewDeltaBitPackingDecoder(data)
		r.dbpDec = d
	} else {
		d = r.dbpDec
		d.Reset(data)
	}
	out := ints(len(in))
	for i := 0; d.HasNext() && i < len(in)+5; i++ {
		out = append(out, int(d.Next()))
	}
	r.emit("BatDec", trace.F{"codec": "dbp", "b": b, "out": out})
}

func pair(v int) []int { return []int{v >> 16, v & 0xFFFF} }

func (r *codecRun) genOffsets() (vals []int, increasing bool) {
	n := 1 + r.rng.Intn(30)
	switch r.rng.Intn(8) {
	case 0:
		n = 0
	case 1:
		n = 1
	case 2:
		n = 127 + r.rng.Intn(3) // the size field's varint grows at 128
	}
	vals = make([]int, n)
	bounds := []int{0, 1, 255, 256, 257, 65535, 65536, 65537, 1<<24 - 1, 1 << 24, 1<<24 + 1, 1<<31 - 1, 1 << 31, 1<<32 - 2, 1<<32 - 1}
	mode := r.rng.Intn(7)
	increasing = mode != 5
	v := 0
	top := bounds[r.rng.Intn(len(bounds))]
	for i := range vals {
		switch mode {
		case 0: // cumulative sizes of small values
			v += r.rng.Intn(40)
		case 1: // all zero
		case 2: // climbs to a boundary value
			if i == n-1 {
				v = top
			} else if v < top {
				v += r.rng.Intn(1 + (top-v)/(n-i))
			}
		case 3: // kilobyte sized values
			v += r.rng.Intn(5000)
		case 4: // megabyte sized values
			v += r.rng.Intn(3 << 20)
		case 5: // not increasing
			v = bounds[r.rng.Intn(len(bounds))]
			if r.rng.Intn(2) == 0 {
				v = r.rng.Intn(1 << 32)
			}
		default:
			v += r.rng.Intn(1 << 26)
			if v > 1<<32-1 {
				v = 1<<32 - 1
			}
		}
		vals[i] = v
	}
	return vals, increasing
}

func (r *codecRun) foOp() {
	vals, increasing := r.genOffsets()
	var e *encoding.FixedOffsetEncoder
	switch {
	case !increasing:
		e = encoding.NewFixedOffsetEncoder(false)
	case r.rng.Intn(2) == 0:
		e = encoding.NewFixedOffsetEncoder(true)
	default:
		e = r.foEnc
	}
	if r.rng.Intn(4) == 0 {
		// FromValues resets by itself: the reused encoder still holds its previous table here
		e.FromValues(append([]int{}, vals...))
	} else {
		if e == r.foEnc {
			e.Reset()
		}
		for _, v := range vals {
			e.Add(v)
		}
	}
	in := make([][]int, 0, len(vals))
	for _, v := range vals {
		in = append(in, pair(v))
	}
	var data []byte
	if r.rng.Intn(2) == 0 {
		data = cp(e.MarshalBinary())
	} else {
		var buf bytes.Buffer
		_ = e.Write(&buf)
		data = cp(buf.Bytes())
	}
	b := r.bid("fo", data)
	r.emit("FoEnc", trace.F{"in": in, "b": b, "len": len(data), "msize": e.MarshalSize()})

	var d *encoding.FixedOffsetDecoder
	pooled := false
	switch r.rng.Intn(3) {
	case 0:
		d = encoding.NewFixedOffsetDecoder()
	case 1:
		d = encoding.GetFixedOffsetDecoder()
		pooled = true
	default:
		d = r.foDec
	}
	tail := make([]byte, 0)
	if len(vals) > 0 {
		tail = make([]byte, r.rng.Intn(9))
		r.rng.Read(tail)
	}
	left, err := d.Unmarshal(append(cp(data), tail...))
	size := d.Size()
	out := make([][]int, 0, size)
	for i := 0; i < size && i < len(vals)+5; i++ {
		v, ok := d.Get(i)
		if !ok {
			out = append(out, []int{-1, -1})
		} else {
			out = append(out, pair(v))
		}
	}
	oob := false
	for _, i := range []int{-1, size, size + 1 + r.rng.Intn(5), -1 - r.rng.Intn(100)} {
		if _, ok := d.Get(i); ok {
			oob = true
		}
	}
	r.emit("FoDec", trace.F{"b": b, "err": err != nil, "size": size, "width": d.ValueWidth(), "out": out,
		"tailin": r.bid("tail", tail), "tailout": r.bid("tail", left), "oob": oob})

	// GetBlock over a data area
	small := len(vals) > 0
	for _, v := range vals {
		if v >= 1<<20 {
			small = false
		}
	}
	if small && err == nil {
		dlen := vals[len(vals)-1] + r.rng.Intn(50)
		if !increasing || r.rng.Intn(6) == 0 {
			dlen = r.rng.Intn(vals[len(vals)-1] + 2)
		}
		backing := make([]byte, dlen+1) // one spare byte: every sub-slice keeps a capacity that tells its offset
		area := backing[:dlen]
		idxs := ints(len(vals) + 3)
		for i := -1; i <= len(vals)+1; i++ {
			if len(vals) < 40 || r.rng.Intn(4) == 0 || i >= len(vals)-1 || i < 1 {
				idxs = append(idxs, i)
			}
		}
		rngs := make([][]int, 0, len(idxs))
		for _, i := range idxs {
			blk, gerr := d.GetBlock(i, area)
			if gerr != nil {
				rngs = append(rngs, []int{-1, -1})
				continue
			}
			s := cap(area) - cap(blk)
			rngs = append(rngs, []int{s, s + len(blk)})
		}
		r.emit("FoBlocks", trace.F{"b": b, "dlen": dlen, "idxs": idxs, "rngs": rngs})
	}
	if pooled {
		encoding.ReleaseFixedOffsetDecoder(d)
	}
}

// canonical form of a bitmap: maximal runs per high 16 bits <<hi, first low, last low>>
func bitmapRuns(bm *roaring.Bitmap) [][]int {
	out := make([][]int, 0)
	it := bm.Iterator()
	have := false
	var hi, lo0, lo1 int
	for it.HasNext() {
		v := it.Next()
		h, l := int(v>>16), int(v&0xFFFF)
		if have && h == hi && l == lo1+1 {
			lo1 = l
			continue
		}
		if have {
			out = append(out, []int{hi, lo0, lo1})
		}
		have, hi, lo0, lo1 = true, h, l, l
	}
	if have {
		out = append(out, []int{hi, lo0, lo1})
	}
	return out
}

func (r *codecRun) bitmapOp() {
	bm := roaring.New()
	pieces := r.rng.Intn(5)
	for p := 0; p < pieces; p++ {
		hi := uint64(r.rng.Intn(6)) << 16
		switch r.rng.Intn(6) {
		case 0:
			hi = uint64(65535) << 16
		case 1:
			hi = uint64(r.rng.Intn(65536)) << 16
		}
		switch r.rng.Intn(6) {
		case 0: // sparse
			for i := 0; i < 1+r.rng.Intn(40); i++ {
				bm.Add(uint32(hi) + uint32(r.rng.Intn(65536)))
			}
		case 1: // dense run, possibly crossing the container boundary
			s := hi + uint64(r.rng.Intn(65536))
			e := s + uint64(1+r.rng.Intn(70000))
			if e > 1<<32 {
				e = 1 << 32
			}
			bm.AddRange(s, e)
		case 2: // bitmap container: more than 4096 scattered values
			for i := 0; i < 600; i++ {
				s := uint32(hi) + uint32(r.rng.Intn(65536-8))
				for j := uint32(0); j < 8; j++ {
					bm.Add(s + j)
				}
			}
		case 3:
			bm.Add(0)
			bm.Add(math.MaxUint32)
		case 4: // short runs
			s := uint32(hi) + uint32(r.rng.Intn(60000))
			for i := uint32(0); i < 200; i++ {
				if i%7 != 0 {
					bm.Add(s + i)
				}
			}
		default:
			bm.Add(uint32(hi) + 65535)
			bm.Add(uint32(hi))
		}
	}
	if r.rng.Intn(2) == 0 {
		bm.RunOptimize()
	}
	data, err := encoding.BitmapMarshal(bm)
	if err != nil {
		r.sum.Unresolved = append(r.sum.Unresolved, "bitmap marshal: "+err.Error())
		return
	}
	data = cp(data)
	b := r.bid("bitmap", data)
	r.emit("BatEnc", trace.F{"codec": "bitmap", "in": bitmapRuns(bm), "b": b})
	dst := r.bm // holds whatever the previous use left in it
	if r.rng.Intn(3) == 0 {
		dst = roaring.New()
	}
	if _, err := encoding.BitmapUnmarshal(dst, data); err != nil {
		r.emit("BatDec", trace.F{"codec": "bitmap", "b": b, "out": [][]int{{-1, -1, -1}}})
		return
	}
	r.emit("BatDec", trace.F{"codec": "bitmap", "b": b, "out": bitmapRuns(dst)})
	r.bm = dst.Clone() // do not keep a bitmap that aliases `data`
}

func bytesToInts(b []byte) []int {
	out := ints(len(b))
	for _, x := range b {
		out = append(out, int(x))
	}
	return out
}

func (r *codecRun) snappyOp() {
	w := r.snapW
	if r.rng.Intn(4) == 0 {
		w = compress.NewSnappyWriter()
		r.snapW = w
	}
	rd := r.snapR
	if r.rng.Intn(4) == 0 {
		rd = compress.NewSnappyReader()
		r.snapR = rd
	}
	if r.rng.Intn(6) == 0 {
		// one big chunk: compared by identity of the whole byte string
		n := 1<<16 + r.rng.Intn(3<<20)
		big := make([]byte, n)
		switch r.rng.Intn(3) {
		case 0:
			r.rng.Read(big)
		case 1:
			for i := range big {
				big[i] = byte(i / 1000)
			}
		default:
			for i := range big {
				big[i] = byte(r.rng.Intn(4))
			}
		}
		for off := 0; off < n; {
			k := 1 + r.rng.Intn(200000)
			if off+k > n {
				k = n - off
			}
			if _, err := w.Write(big[off : off+k]); err != nil {
				r.sum.Unresolved = append(r.sum.Unresolved, "snappy write: "+err.Error())
			}
			off += k
		}
		_ = w.Close()
		data := w.Bytes()
		b := r.bid("snappybig", data)
		r.emit("BatEnc", trace.F{"codec": "snappybig", "in": []int{r.bid("raw", big)}, "b": b})
		out, err := rd.Uncompress(data)
		if err != nil {
			out = []byte("error:" + err.Error())
		}
		r.emit("BatDec", trace.F{"codec": "snappybig", "b": b, "out": []int{r.bid("raw", out)}})
		r.snappyDamaged(rd, "snappybig", data, b, func(o []byte) any { return []int{r.bid("raw", o)} })
		return
	}
	nrows := r.rng.Intn(6)
	rows := make([][]int, 0, nrows)
	for i := 0; i < nrows; i++ {
		row := make([]byte, r.rng.Intn(50))
		if r.rng.Intn(2) == 0 {
			r.rng.Read(row)
		} else {
			for j := range row {
				row[j] = byte('a' + j%3)
			}
		}
		_, _ = w.Write(row)
		rows = append(rows, bytesToInts(row))
	}
	_ = w.Close()
	data := w.Bytes()
	b := r.bid("snappy", data)
	r.emit("BatEnc", trace.F{"codec": "snappy", "in": rows, "b": b})
	out, err := rd.Uncompress(data)
	if err != nil {
		out = []byte("error:" + err.Error())
	}
	r.emit("BatDec", trace.F{"codec": "snappy", "b": b, "out": bytesToInts(out)})
	r.snappyDamaged(rd, "snappy", data, b, func(o []byte) any { return bytesToInts(o) })
	// a chunk handed out earlier by the SAME writer is still held by its consumer (the replication channel
	// queues compressed chunks): it must still decode to what was written into it
	if r.snapHeldW == w && r.snapHeld != nil {
		old, err := rd.Uncompress(r.snapHeld)
		if err != nil {
			old = []byte("error:" + err.Error())
		}
		r.emit("BatDec", trace.F{"codec": "snappy", "b": r.snapHeldB, "out": bytesToInts(old)})
	}
	r.snapHeld, r.snapHeldB, r.snapHeldW = data, b, w
}

// snappyDamaged: the SAME reader gets a damaged copy of the chunk (a truncated or bit-flipped tail: the leading blocks
// of a chunk of several blocks still decode, the failure comes later), whatever it answers is an observation (`BatBad`);
// the intact chunk decoded by that reader right afterwards must still answer exactly what was written into it (the
// replicator's reader meets damaged log entries and goes on with the next one)
func (r *codecRun) snappyDamaged(rd compress.Reader, codec string, data []byte, b int, project func([]byte) any) {
	if len(data) < 4 || r.rng.Intn(2) == 0 {
		return
	}
	bad := append([]byte(nil), data...)
	switch r.rng.Intn(3) {
	case 0:
		bad = bad[:len(bad)/2+r.rng.Intn(len(bad)-len(bad)/2)]
	case 1:
		bad[len(bad)-1-r.rng.Intn(len(bad)/3+1)] ^= byte(1 + r.rng.Intn(255))
	default:
		bad = bad[:len(bad)-1]
	}
	_, err := rd.Uncompress(bad)
	r.emit("BatBad", trace.F{"codec": codec, "b": b, "err": err != nil})
	out, err := rd.Uncompress(data)
	if err != nil {
		out = []byte("error:" + err.Error())
	}
	r.emit("BatDec", trace.F{"codec": codec, "b": b, "out": project(out)})
}

// the XOR value codec alone, over one reused bit writer / reader pair
func (r *codecRun) xorOp() {
	vals := r.genVals(r.rng.Intn(40))
	if r.rng.Intn(3) == 0 || r.xorBW == nil {
		r.xorBuf = bytes.Buffer{}
		r.xorBW = bit.NewWriter(&r.xorBuf)
		r.xorEnc = encoding.NewXOREncoder(r.xorBW)
	} else {
		r.xorBuf.Reset()
		r.xorBW.Reset(&r.xorBuf)
		r.xorEnc.Reset()
	}
	in := ints(len(vals))
	for _, v := range vals {
		_ = r.xorEnc.Write(v)
		in = append(in, r.tok(v))
	}
	_ = r.xorBW.Flush()
	data := cp(r.xorBuf.Bytes())
	b := r.bid("xor", data)
	r.emit("BatEnc", trace.F{"codec": "xor", "in": in, "b": b})
	if r.rng.Intn(3) == 0 || r.xorBR == nil {
		r.xorRBuf = bufioutil.NewBuffer(data)
		r.xorBR = bit.NewReader(r.xorRBuf)
		r.xorDec = encoding.NewXORDecoder(r.xorBR)
	} else {
		r.xorRBuf.SetBuf(data)
		r.xorBR.Reset()
		r.xorDec.Reset()
	}
	out := ints(len(vals))
	for range vals {
		if !r.xorDec.Next() {
			out = append(out, -1)
			break
		}
		out = append(out, r.tok(r.xorDec.Value()))
	}
	r.emit("BatDec", trace.F{"codec": "xor", "b": b, "out": out})
}

func limbs(t int, v uint64) []int {
	return []int{t, int(v >> 48), int(v >> 32 & 0xFFFF), int(v >> 16 & 0xFFFF), int(v & 0xFFFF)}
}

// raw bit writer / reader: mixed WriteBit / WriteBits(n) / WriteByte
func (r *codecRun) bitsOp() {
	var buf bytes.Buffer
	bw := bit.NewWriter(&buf)
	n := r.rng.Intn(30)
	type item struct {
		t int
		v uint64
	}
	items := make([]item, n)
	in := make([][]int, 0, n)
	for i := range items {
		var it item
		switch r.rng.Intn(4) {
		case 0:
			it = item{1, uint64(r.rng.Intn(2))}
			_ = bw.WriteBit(it.v == 1)
		case 1:
			it = item{8, uint64(r.rng.Intn(256))}
			_ = bw.WriteByte(byte(it.v))
		default:
			w := 1 + r.rng.Intn(64)
			v := r.rng.Uint64()
			if w < 64 {
				v &= (uint64(1) << uint(w)) - 1
			}
			it = item{100 + w, v}
			_ = bw.WriteBits(v, w)
		}
		items[i] = it
		in = append(in, limbs(it.t, it.v))
	}
	_ = bw.Flush()
	data := cp(buf.Bytes())
	b := r.bid("bits", data)
	r.emit("BatEnc", trace.F{"codec": "bits", "in": in, "b": b})
	br := bit.NewReader(bufioutil.NewBuffer(data))
	out := make([][]int, 0, n)
	for _, it := range items {
		var v uint64
		var err error
		switch {
		case it.t == 1:
			var x bit.Bit
			x, err = br.ReadBit()
			if x == bit.One {
				v = 1
			}
		case it.t == 8:
			var x byte
			x, err = br.ReadByte()
			v = uint64(x)
		default:
			v, err = br.ReadBits(it.t - 100)
		}
		if err != nil {
			out = append(out, []int{-1, 0, 0, 0, 0})
			break
		}
		out = append(out, limbs(it.t, v))
	}
	r.emit("BatDec", trace.F{"codec": "bits", "b": b, "out": out})
}

// pkg/stream writer -> reader, every fixed and variable width put/read pair
func (r *codecRun) streamRWOp() {
	var buf bytes.Buffer
	w := stream.NewBufferWriter(&buf)
	n := r.rng.Intn(25)
	in := make([][]int, 0, n+1)
	type item struct {
		t int
		v uint64
		b []byte
	}
	items := make([]item, n)
	edge := []uint64{0, 1, 127, 128, 255, 256, 16383, 16384, 65535, 65536, 1<<31 - 1, 1 << 31, 1<<32 - 1, 1 << 32,
		1<<63 - 1, 1 << 63, ^uint64(0)}
	for i := range items {
		t := r.rng.Intn(12)
		v := r.rng.Uint64() >> uint(r.rng.Intn(64))
		if r.rng.Intn(3) == 0 {
			v = edge[r.rng.Intn(len(edge))]
		}
		if r.rng.Intn(4) == 0 {
			v = -v
		}
		it := item{t: t}
		switch t {
		case 0:
			it.v = v & 0xFF
			w.PutByte(byte(v))
		case 1:
			it.v = v & 0xFFFF
			w.PutUInt16(uint16(v))
		case 2:
			it.v = v & 0xFFFFFFFF
			w.PutUint32(uint32(v))
		case 3:
			it.v = v
			w.PutUint64(v)
		case 4:
			it.v = uint64(int64(int32(v)))
			w.PutVarint32(int32(v))
		case 5:
			it.v = v
			w.PutVarint64(int64(v))
		case 6:
			it.v = v & 0xFFFFFFFF
			w.PutUvarint32(uint32(v))
		case 7:
			it.v = v
			w.PutUvarint64(v)
		case 8:
			it.v = uint64(int64(int16(v)))
			w.PutInt16(int16(v))
		case 9:
			it.v = uint64(int64(int32(v)))
			w.PutInt32(int32(v))
		case 10:
			it.v = v
			w.PutInt64(int64(v))
		default:
			it.b = make([]byte, r.rng.Intn(12))
			r.rng.Read(it.b)
			w.PutUvarint32(uint32(len(it.b)))
			w.PutBytes(it.b)
		}
		items[i] = it
		if t == 11 {
			in = append(in, append([]int{11}, bytesToInts(it.b)...))
		} else {
			in = append(in, limbs(t, it.v))
		}
	}
	in = append(in, []int{99, 0, 1}) // the reader must end without error, with nothing left
	data, _ := w.Bytes()
	data = cp(data)
	b := r.bid("stream", data)
	r.emit("BatEnc", trace.F{"codec": "stream", "in": in, "b": b})
	if r.sr == nil || r.rng.Intn(3) == 0 {
		r.sr = stream.NewReader(data)
	} else {
		r.sr.Reset(data)
	}
	rd := r.sr
	out := make([][]int, 0, n+1)
	for _, it := range items {
		var v uint64
		switch it.t {
		case 0:
			v = uint64(rd.ReadByte())
		case 1:
			v = uint64(rd.ReadUint16())
		case 2:
			v = uint64(rd.ReadUint32())
		case 3:
			v = rd.ReadUint64()
		case 4:
			v = uint64(int64(rd.ReadVarint32()))
		case 5:
			v = uint64(rd.ReadVarint64())
		case 6:
			v = uint64(rd.ReadUvarint32())
		case 7:
			v = rd.ReadUvarint64()
		case 8:
			v = uint64(int64(rd.ReadInt16()))
		case 9:
			v = uint64(int64(rd.ReadInt32()))
		case 10:
			v = uint64(rd.ReadInt64())
		default:
			l := int(rd.ReadUvarint32())
			var bs []byte
			if r.rng.Intn(2) == 0 {
				bs = rd.ReadSlice(l)
			} else {
				bs = rd.ReadBytes(l)
			}
			out = append(out, append([]int{11}, bytesToInts(bs)...))
			continue
		}
		out = append(out, limbs(it.t, v))
	}
	e, emp := 0, 0
	if rd.Error() != nil {
		e = 1
	}
	if rd.Empty() {
		emp = 1
	}
	out = append(out, []int{99, e, emp})
	r.emit("BatDec", trace.F{"codec": "stream", "b": b, "out": out})
}

func (r *codecRun) zigzagOp() {
	n := 1 + r.rng.Intn(20)
	in, out := make([][]int, 0, n), make([][]int, 0, n)
	for i := 0; i < n; i++ {
		v := int64(r.rng.Uint64()) >> uint(r.rng.Intn(64))
		switch r.rng.Intn(6) {
		case 0:
			v = math.MinInt64
		case 1:
			v = math.MaxInt64
		case 2:
			v = int64(r.rng.Intn(5)) - 2
		}
		in = append(in, limbs(0, uint64(v)))
		out = append(out, limbs(0, uint64(encoding.ZigZagDecode(encoding.ZigZagEncode(v)))))
	}
	b := r.bid("zigzag", []byte(fmt.Sprint(in)))
	r.emit("BatEnc", trace.F{"codec": "zigzag", "in": in, "b": b})
	r.emit("BatDec", trace.F{"codec": "zigzag", "b": b, "out": out})
}

// ---------------------------------------------------------------- one history

func (r *codecRun) history(h, ops int) {
	r.encs, r.decs, r.blocks = nil, nil, nil
	r.script = r.script[:0]
	mode := "mixed"
	if r.maxslot {
		mode = "maxslot"
	}
	r.rec.Reset(trace.F{"h": h, "mode": mode})
	r.snapHeld, r.snapHeldW = nil, nil
	if r.maxslot {
		r.guarded(func() { r.maxslotHistory() })
		return
	}
	for i := 0; i < ops; i++ {
		if r.guarded(func() { r.mixedOp() }) {
			return
		}
	}
	for len(r.encs) > 0 {
		r.encRelease(0)
	}
	for len(r.decs) > 0 {
		r.decRelease(0)
	}
}

// a block that ends at slot 65535, read sequentially to its end
func (r *codecRun) maxslotHistory() {
	{
		r.encGet()
		st := r.encs[0]
		r.encAppendN(st, 3+r.rng.Intn(20))
		// fill up to the last slot
		for st.n < codecRoom {
			r.encAppendN(st, codecRoom-st.n)
		}
		b := r.encBytes(st, true)
		r.encRelease(0)
		d := r.decGet()
		r.decLoad(d, b)
		r.decSeq(d, b.n)
		r.decSeq(d, 2)
		r.decRelease(0)
	}
}

// guarded runs one operation; a panic of the code under test becomes an event that no action of
// the specification accepts (the rest of the history is dropped)
func (r *codecRun) guarded(op func()) (panicked bool) {
	defer func() {
		if p := recover(); p != nil {
			panicked = true
			r.emit("Panic", trace.F{"msg": fmt.Sprint(p)})
		}
	}()
	op()
	return false
}

func (r *codecRun) mixedOp() {
	{
		x := r.rng.Intn(100)
		switch {
		case x < 8:
			if len(r.encs) < 3 {
				r.encGet()
			}
		case x < 28:
			if len(r.encs) == 0 {
				r.encGet()
			}
			st := r.encs[r.rng.Intn(len(r.encs))]
			if st.done {
				r.encReset(st)
			}
			r.encAppendN(st, r.genLen())
		case x < 38:
			if len(r.encs) > 0 {
				st := r.encs[r.rng.Intn(len(r.encs))]
				if !st.done {
					r.encBytes(st, r.rng.Intn(3) != 0)
				}
			}
		case x < 41:
			if len(r.encs) > 0 {
				r.encReset(r.encs[r.rng.Intn(len(r.encs))])
			}
		case x < 45:
			if len(r.encs) > 0 {
				r.encRelease(r.rng.Intn(len(r.encs)))
			}
		case x < 50:
			if len(r.decs) < 3 {
				r.decGet()
			}
		case x < 60:
			if len(r.blocks) > 0 {
				if len(r.decs) == 0 {
					r.decGet()
				}
				r.decLoad(r.decs[r.rng.Intn(len(r.decs))], r.blocks[r.rng.Intn(len(r.blocks))])
			}
		case x < 72:
			if st := r.loadedDec(); st != nil {
				r.decSeq(st, r.rng.Intn(st.blk.n-st.cur+3))
			}
		case x < 80:
			if st := r.loadedDec(); st != nil {
				r.decProbe(st)
			}
		case x < 83:
			if st := r.loadedDec(); st != nil {
				r.decodeAll(st)
			}
		case x < 86:
			if len(r.decs) > 0 {
				r.decRelease(r.rng.Intn(len(r.decs)))
			}
		case x < 89:
			r.streamOp()
		case x < 91:
			r.dbpOp()
		case x < 94:
			r.foOp()
		case x < 95:
			r.bitmapOp()
		case x < 96:
			r.snappyOp()
		case x < 97:
			r.xorOp()
		case x < 98:
			r.bitsOp()
		case x < 99:
			r.streamRWOp()
		default:
			r.zigzagOp()
		}
	}
}

func (r *codecRun) loadedDec() *codecDec {
	var c []*codecDec
	for _, d := range r.decs {
		if d.blk != nil {
			c = append(c, d)
		}
	}
	if len(c) == 0 {
		return nil
	}
	return c[r.rng.Intn(len(c))]
}

// batch: a history of batch codecs only (they are cheap to validate, so they get their own budget)
func (r *codecRun) batchHistory(h, ops int) {
	r.rec.Reset(trace.F{"h": h, "mode": "batch"})
	r.snapHeld, r.snapHeldW = nil, nil
	for i := 0; i < ops; i++ {
		if r.guarded(func() { r.batchOp() }) {
			return
		}
	}
}

func (r *codecRun) batchOp() {
	{
		switch r.rng.Intn(9) {
		case 0, 1:
			r.dbpOp()
		case 2, 3:
			r.foOp()
		case 4:
			r.bitmapOp()
		case 5:
			r.snappyOp()
		case 6:
			r.xorOp()
		case 7:
			if r.rng.Intn(2) == 0 {
				r.bitsOp()
			} else {
				r.zigzagOp()
			}
		default:
			r.streamRWOp()
		}
	}
}

func codecMain(args []string) int {
	fs := flag.NewFlagSet("codec", flag.ExitOnError)
	out := fs.String("out", "codec.ndjson", "trace output")
	seed := fs.Int64("seed", 1, "seed")
	nh := fs.Int("histories", 50, "mixed reuse histories")
	nb := fs.Int("batch", 20, "batch codec histories")
	nm := fs.Int("maxslot", 0, "histories with a block ending at slot 65535 (only these)")
	ops := fs.Int("ops", 40, "operations per history")
	_ = fs.Parse(args)
	rec, err := trace.New(*out)
	if err != nil {
		fmt.Println(err)
		return 2
	}
	rng := rand.New(rand.NewSource(*seed))
	sum := &trace.Summary{Module: "Codec", Extra: map[string]any{}}
	r := &codecRun{rec: rec, rng: rng, sum: sum, toks: map[uint64]int{infBits: 0}, bids: map[string]int{},
		oids: map[any]int{}, counts: map[string]int{},
		dbpEnc: encoding.NewDeltaBitPackingEncoder(), foEnc: encoding.NewFixedOffsetEncoder(true),
		foDec: encoding.NewFixedOffsetDecoder(), snapW: compress.NewSnappyWriter(), snapR: compress.NewSnappyReader(),
		bm: roaring.New()}
	if *nm > 0 {
		r.maxslot = true
		for h := 0; h < *nm; h++ {
			r.history(h, 0)
		}
	} else {
		for h := 0; h < *nh; h++ {
			r.history(h, *ops)
		}
		for h := 0; h < *nb; h++ {
			r.batchHistory(*nh+h, *ops)
		}
	}
	_ = rec.Close()
	sum.Traces, sum.Events = rec.Counts()
	sum.Distinct = len(r.bids)
	keys := make([]string, 0, len(r.counts))
	for k := range r.counts {
		keys = append(keys, k)
	}
	sort.Strings(keys)
	ev := map[string]int{}
	for _, k := range keys {
		ev[k] = r.counts[k]
	}
	sum.Extra["events_by_kind"] = ev
	sum.Extra["distinct_bit_patterns"] = len(r.toks)
	sum.Extra["distinct_byte_strings"] = len(r.bids)
	sum.Extra["objects"] = len(r.oids)
	sum.Print()
	return 0
}
