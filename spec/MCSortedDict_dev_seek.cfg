CONSTANTS
  Alphabet = {0, 1, 2}
  MaxLen = 2
  MaxKeys = 3
  Deviation_SeekExactOnlyWhenProbeIsPrefix = TRUE
  Deviation_RegexScansLiteralPrefixOnly = FALSE
SPECIFICATION MCSpec
INVARIANTS SeekIsLeastUpperBound
CHECK_DEADLOCK FALSE
