CONSTANTS
  Node = {1, 2, 3}
  Db = {"d1", "d2"}
  Broker = {1, 2}
  MaxShards = 3
  RenotifyOnDb = FALSE
  GrowRouting = FALSE
  DropChannel = FALSE
SPECIFICATION TraceSpec
INVARIANTS QueryableCoversOnline
CONSTRAINT HighWater
POSTCONDITION TraceAccepted
CHECK_DEADLOCK FALSE
