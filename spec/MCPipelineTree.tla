-------------------------- MODULE MCPipelineTree --------------------------
(* Bounded instance of Pipeline for the plan tree of a stage (baseStage.execute):  *)
(* every plan shape of MCPlans (depth <= 3, 1..3 children per node), every         *)
(* assignment of operators, for a stage "x" that is the whole pipeline (Solo) or   *)
(* the first of two children of a root stage (Fan: r -> (x, b)), every async flag,  *)
(* every interleaving.                                                              *)
EXTENDS Pipeline

\* plan shapes; "p0" is the root
P1 == [p0 |-> << >>]
P2 == [p0 |-> <<"p1", "p2">>, p1 |-> << >>, p2 |-> << >>]
P3 == [p0 |-> <<"p1", "p2", "p3">>, p1 |-> << >>, p2 |-> << >>, p3 |-> << >>]
P4 == [p0 |-> <<"p1", "p2">>, p1 |-> <<"p3", "p4">>, p2 |-> << >>, p3 |-> << >>, p4 |-> << >>]
P5 == [p0 |-> <<"p1">>, p1 |-> <<"p2", "p3">>, p2 |-> << >>, p3 |-> << >>]
P6 == [p0 |-> <<"p1", "p2">>, p1 |-> << >>, p2 |-> <<"p3">>, p3 |-> << >>]
MCPlansSolo == {P1, P2, P3, P4, P5, P6}
MCPlansFanAll == {P2, P4}
MCPlansFanQuick == {P2}
CONSTANT MCPlansFan
Ops == {"none", "ok", "err", "panic", "ign"}
OpsFan == {"ok", "err", "panic"}

\* the stage x alone
Solo(pk, po, as) ==
  InitWith([x |-> << >>], "x", [x |-> as], [x |-> "tree"],
           [kids |-> pk, out |-> po, root |-> [x |-> "p0"]], [x |-> -1])

\* r -> (x, b): r and b have a plan of one successful operator
Fan(pk, po, as) ==
  InitWith([r |-> <<"x", "b">>, x |-> << >>, b |-> << >>], "r", as,
           [s \in {"r", "x", "b"} |-> "tree"],
           [kids |-> [n \in DOMAIN pk \cup {"r0", "b0"} |-> IF n \in DOMAIN pk THEN pk[n] ELSE << >>],
            out  |-> [n \in DOMAIN pk \cup {"r0", "b0"} |-> IF n \in DOMAIN pk THEN po[n] ELSE "ok"],
            root |-> [r |-> "r0", x |-> "p0", b |-> "b0"]], [s \in {"r", "x", "b"} |-> -1])

MCInit ==
  \/ \E pk \in MCPlansSolo : \E po \in [DOMAIN pk -> Ops] : \E as \in BOOLEAN : Solo(pk, po, as)
  \/ \E pk \in MCPlansFan : \E po \in [DOMAIN pk -> OpsFan] : \E as \in [{"r", "x", "b"} -> BOOLEAN] : Fan(pk, po, as)

MCSpec == MCInit /\ [][Next]_vars /\ WF_vars(Next)
=============================================================================
