\* the design as it should be: every window of the code closed; all properties hold
CONSTANTS
  Leader = {1}
  MaxRow = 2
  MaxObj = 2
  MaxDb = 3
  MaxFail = 1
  MaxRef = 1
  DoubleWindow = FALSE
  CloseLocksFirst = FALSE
  RetryFailed = TRUE
  ClosedRejects = TRUE
  AtomicWrite = FALSE
  RegisterAtGet = TRUE
  AtomicEvict = TRUE
  UniqueStamp = TRUE
  EvictChecksRef = TRUE
  EvictChecksMem = TRUE
  CloseFlushes = TRUE
  AckFrozen = TRUE
SPECIFICATION MCSpec
INVARIANTS TypeOK FlushShape FlushedOnce VisibleAtMostOnce AcceptedVisible AckNotAhead AckedRowsDurable EvictOnlyIdle ClosedIsFlushed NoLateWrite NoStuck NoIgnoredFlush
PROPERTIES FlushedNeverGrows NoWriteIntoClosed
CHECK_DEADLOCK FALSE
